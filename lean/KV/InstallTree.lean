import KV.InstallProofs
/-! # C15 / C16 at tree level: the per-file install theorems lifted over `Install`'s walk

`Install` walks the embedded skill tree in a fixed order and calls `InstallFile` once per file, stopping at
the first error.  This file models that walk on top of the per-file model (`runOK` / `runCrash` / `runFail`
of `KV/InstallModel.lean`) and lifts `crash_atomic_of_safe`, `rerun_completes_of`, `fault_clean_of_safe`
to the whole tree.

Modelling decisions (all faithful to the per-file model):
* a destination path is a `Nat` id; the files of the tree have pairwise distinct destinations
  (explicit `Nodup` hypothesis on `paths files`);
* the file-system state `FS` is a function from destination path to `Option FileV` plus the list of
  leftover temp files (each tagged with the destination it was created for);
* one `InstallFile` call *reads and writes only its own destination and its own temp*: it starts from
  `fs.enter p = { dest := fs.file p, tmp := none }` (`os.CreateTemp` picks a fresh name, so the run's own
  temp does not exist yet and older garbage is never touched) and its final `St` is written back by
  `fs.commit p` (destination `p` updated; a temp that is still there is added to the leftover list);
* directories (`MkdirAll`) are not part of the state, exactly as in the per-file model. -/
namespace Inst

abbrev Path := Nat

/-- the embedded tree in walk order: destination path and bytes of every file -/
abbrev Tree := List (Path × List Nat)

def paths (files : Tree) : List Path := files.map (·.1)

structure FS where
  file : Path → Option FileV
  temps : List (Path × FileV)

/-- the per-file view at the start of `InstallFile` for destination `p`: this run's temp is fresh -/
def FS.enter (fs : FS) (p : Path) : St := { dest := fs.file p, tmp := none }

/-- write the per-file view back: only destination `p` and this run's temp are affected -/
def FS.commit (fs : FS) (p : Path) (s : St) : FS :=
  { file := fun q => if q = p then s.dest else fs.file q
    temps := match s.tmp with
      | some f => (p, f) :: fs.temps
      | none => fs.temps }

/-- a complete walk: `runOK` per file in order, stop at the first reported error -/
def installTree (steps : List Step) (cl : List Cleanup) : Tree → FS → FS × Bool
  | [], fs => (fs, false)
  | (p, c) :: rest, fs =>
    let o := runOK c steps cl (fs.enter p)
    if o.reported then (fs.commit p o.st, true) else installTree steps cl rest (fs.commit p o.st)

/-- the process dies while installing file number `i`, after `k` complete steps of that `InstallFile`
    call and `j` bytes into a write; files before `i` went through complete runs, files after `i` are
    never reached.  (`i ≥ files.length`: the process outlives the walk.) -/
def crashTree (steps : List Step) (cl : List Cleanup) (k j : Nat) : Tree → Nat → FS → FS
  | [], _, fs => fs
  | (p, c) :: _, 0, fs => fs.commit p (runCrash c steps k j (fs.enter p))
  | (p, c) :: rest, i + 1, fs =>
    let o := runOK c steps cl (fs.enter p)
    if o.reported then fs.commit p o.st else crashTree steps cl k j rest i (fs.commit p o.st)

/-- step `k` of the `InstallFile` call for file number `i` fails (`j` bytes of a failing write got
    through); the walk stops there if the error is reported, otherwise it carries on. -/
def faultTree (steps : List Step) (cl : List Cleanup) (k j : Nat) : Tree → Nat → FS → FS × Bool
  | [], _, fs => (fs, false)
  | (p, c) :: rest, 0, fs =>
    let o := runFail c steps cl k j (fs.enter p)
    if o.reported then (fs.commit p o.st, true) else installTree steps cl rest (fs.commit p o.st)
  | (p, c) :: rest, i + 1, fs =>
    let o := runOK c steps cl (fs.enter p)
    if o.reported then (fs.commit p o.st, true) else faultTree steps cl k j rest i (fs.commit p o.st)

/-! ## Frame lemmas for one per-file run -/

theorem commit_file_self (fs : FS) (p : Path) (s : St) : (fs.commit p s).file p = s.dest := by
  simp only [FS.commit, if_true]

theorem commit_file_other (fs : FS) (p q : Path) (s : St) (h : q ≠ p) : (fs.commit p s).file q = fs.file q := by
  simp only [FS.commit, h, if_false]

theorem commit_temps_none (fs : FS) (p : Path) (d : Option FileV) :
    (fs.commit p { dest := d, tmp := none }).temps = fs.temps := rfl

theorem commit_temps_grow (fs : FS) (p : Path) (s : St) :
    ∃ l, (fs.commit p s).temps = l ++ fs.temps ∧ l.length ≤ 1 := by
  cases hs : s.tmp with
  | none => exact ⟨[], by simp only [FS.commit, hs, List.nil_append], by simp⟩
  | some f => exact ⟨[(p, f)], by simp only [FS.commit, hs, List.cons_append, List.nil_append], by simp⟩

theorem paths_cons (p : Path) (c : List Nat) (rest : Tree) : paths ((p, c) :: rest) = p :: paths rest := rfl

theorem mem_paths_of_mem {files : Tree} {p : Path} {c : List Nat} (h : (p, c) ∈ files) : p ∈ paths files :=
  List.mem_map.mpr ⟨(p, c), h, rfl⟩

/-- the state after one complete `InstallFile` of `(p, c)` under `completes` -/
def FS.put (fs : FS) (p : Path) (c : List Nat) (mode : Nat) : FS :=
  fs.commit p { dest := some (c, mode), tmp := none }

theorem runOK_enter (steps : List Step) (cl : List Cleanup) (mode : Nat) (h : completes steps cl mode = true)
    (fs : FS) (p : Path) (c : List Nat) :
    runOK c steps cl (fs.enter p) = { st := { dest := some (c, mode), tmp := none }, reported := false } :=
  rerun_completes_of steps cl mode h (fs.file p) c

theorem installTree_cons (steps : List Step) (cl : List Cleanup) (mode : Nat) (h : completes steps cl mode = true)
    (p : Path) (c : List Nat) (rest : Tree) (fs : FS) :
    installTree steps cl ((p, c) :: rest) fs = installTree steps cl rest (fs.put p c mode) := by
  simp only [installTree, runOK_enter steps cl mode h, FS.put, Bool.false_eq_true, if_false]

theorem crashTree_succ (steps : List Step) (cl : List Cleanup) (mode : Nat) (h : completes steps cl mode = true)
    (k j : Nat) (p : Path) (c : List Nat) (rest : Tree) (i : Nat) (fs : FS) :
    crashTree steps cl k j ((p, c) :: rest) (i + 1) fs = crashTree steps cl k j rest i (fs.put p c mode) := by
  simp only [crashTree, runOK_enter steps cl mode h, FS.put, Bool.false_eq_true, if_false]

theorem faultTree_succ (steps : List Step) (cl : List Cleanup) (mode : Nat) (h : completes steps cl mode = true)
    (k j : Nat) (p : Path) (c : List Nat) (rest : Tree) (i : Nat) (fs : FS) :
    faultTree steps cl k j ((p, c) :: rest) (i + 1) fs = faultTree steps cl k j rest i (fs.put p c mode) := by
  simp only [faultTree, runOK_enter steps cl mode h, FS.put, Bool.false_eq_true, if_false]

theorem put_file_self (fs : FS) (p : Path) (c : List Nat) (mode : Nat) : (fs.put p c mode).file p = some (c, mode) :=
  commit_file_self fs p _

theorem put_file_other (fs : FS) (p q : Path) (c : List Nat) (mode : Nat) (h : q ≠ p) :
    (fs.put p c mode).file q = fs.file q := commit_file_other fs p q _ h

theorem put_temps (fs : FS) (p : Path) (c : List Nat) (mode : Nat) : (fs.put p c mode).temps = fs.temps := rfl

/-! ## Complete walk -/

theorem installTree_spec (steps : List Step) (cl : List Cleanup) (mode : Nat) (h : completes steps cl mode = true) :
    ∀ (files : Tree) (fs : FS),
      (installTree steps cl files fs).2 = false ∧
      (installTree steps cl files fs).1.temps = fs.temps ∧
      (∀ q, q ∉ paths files → (installTree steps cl files fs).1.file q = fs.file q) ∧
      ((paths files).Nodup → ∀ p c, (p, c) ∈ files →
        (installTree steps cl files fs).1.file p = some (c, mode)) := by
  intro files
  induction files with
  | nil =>
    intro fs
    refine ⟨rfl, rfl, fun _ _ => rfl, ?_⟩
    intro _ p c hm
    cases hm
  | cons x rest ih =>
    obtain ⟨p, c⟩ := x
    intro fs
    rw [installTree_cons steps cl mode h]
    obtain ⟨h1, h2, h3, h4⟩ := ih (fs.put p c mode)
    refine ⟨h1, ?_, ?_, ?_⟩
    · rw [h2, put_temps]
    · intro q hq
      rw [paths_cons, List.mem_cons, not_or] at hq
      rw [h3 q hq.2, put_file_other fs p q c mode hq.1]
    · intro hnd p' c' hm
      rw [paths_cons, List.nodup_cons] at hnd
      rcases List.mem_cons.mp hm with heq | hm'
      · cases heq
        rw [h3 p hnd.1, put_file_self]
      · exact h4 hnd.2 p' c' hm'

/-- **C16 (content + frame).**  A complete run reports success, makes every file of the tree exactly
    `(bytes, mode)`, changes no path that is not a destination of the tree and leaves no temp file. -/
theorem tree_install_exact (steps : List Step) (cl : List Cleanup) (mode : Nat)
    (h : completes steps cl mode = true) (files : Tree) (hnd : (paths files).Nodup) (fs : FS) :
    (installTree steps cl files fs).2 = false ∧
    (∀ p c, (p, c) ∈ files → (installTree steps cl files fs).1.file p = some (c, mode)) ∧
    (∀ q, q ∉ paths files → (installTree steps cl files fs).1.file q = fs.file q) ∧
    (installTree steps cl files fs).1.temps = fs.temps := by
  obtain ⟨h1, h2, h3, h4⟩ := installTree_spec steps cl mode h files fs
  exact ⟨h1, h4 hnd, h3, h2⟩

/-! ## Crash -/

theorem crashTree_spec (steps : List Step) (cl : List Cleanup) (mode : Nat)
    (hs : crashSafe steps mode = true) (h : completes steps cl mode = true) (k j : Nat) :
    ∀ (files : Tree) (i : Nat) (fs : FS),
      (∀ q, q ∉ paths files → (crashTree steps cl k j files i fs).file q = fs.file q) ∧
      (∃ l, (crashTree steps cl k j files i fs).temps = l ++ fs.temps ∧ l.length ≤ 1) ∧
      ((paths files).Nodup → ∀ n p c, files[n]? = some (p, c) →
        (n < i → (crashTree steps cl k j files i fs).file p = some (c, mode)) ∧
        (n = i → (crashTree steps cl k j files i fs).file p = fs.file p ∨
                 (crashTree steps cl k j files i fs).file p = some (c, mode)) ∧
        (i < n → (crashTree steps cl k j files i fs).file p = fs.file p)) := by
  intro files
  induction files with
  | nil =>
    intro i fs
    refine ⟨fun _ _ => rfl, ⟨[], rfl, by simp⟩, ?_⟩
    intro _ n p c hn
    simp at hn
  | cons x rest ih =>
    obtain ⟨p, c⟩ := x
    intro i fs
    cases i with
    | zero =>
      simp only [crashTree]
      refine ⟨?_, commit_temps_grow fs p _, ?_⟩
      · intro q hq
        rw [paths_cons, List.mem_cons, not_or] at hq
        exact commit_file_other fs p q _ hq.1
      · intro hnd n p' c' hn
        rw [paths_cons, List.nodup_cons] at hnd
        cases n with
        | zero =>
          rw [List.getElem?_cons_zero] at hn
          cases hn
          refine ⟨fun hlt => absurd hlt (Nat.lt_irrefl 0), ?_, fun hlt => absurd hlt (Nat.lt_irrefl 0)⟩
          intro _
          rw [commit_file_self]
          exact crash_atomic_of_safe steps mode hs (fs.file p) c k j
        | succ n' =>
          rw [List.getElem?_cons_succ] at hn
          have hne : p' ≠ p := by
            intro e
            rw [e] at hn
            exact hnd.1 (mem_paths_of_mem (List.mem_of_getElem? hn))
          refine ⟨fun hlt => absurd hlt (Nat.not_lt_zero _), fun e => by omega, ?_⟩
          intro _
          exact commit_file_other fs p p' _ hne
    | succ i' =>
      rw [crashTree_succ steps cl mode h]
      obtain ⟨h1, h2, h3⟩ := ih i' (fs.put p c mode)
      refine ⟨?_, ?_, ?_⟩
      · intro q hq
        rw [paths_cons, List.mem_cons, not_or] at hq
        rw [h1 q hq.2, put_file_other fs p q c mode hq.1]
      · rw [put_temps] at h2
        exact h2
      · intro hnd n p' c' hn
        rw [paths_cons, List.nodup_cons] at hnd
        cases n with
        | zero =>
          rw [List.getElem?_cons_zero] at hn
          cases hn
          refine ⟨?_, fun e => by omega, fun hlt => absurd hlt (Nat.not_lt_zero _)⟩
          intro _
          rw [h1 p hnd.1, put_file_self]
        | succ n' =>
          rw [List.getElem?_cons_succ] at hn
          have hne : p' ≠ p := by
            intro e
            rw [e] at hn
            exact hnd.1 (mem_paths_of_mem (List.mem_of_getElem? hn))
          obtain ⟨a, b, d⟩ := h3 hnd.2 n' p' c' hn
          rw [put_file_other fs p p' c mode hne] at b d
          exact ⟨fun hlt => a (by omega), fun e => b (by omega), fun hlt => d (by omega)⟩

/-- **C15 (crash) at tree level.**  The process dies while installing file number `i`, after `k` steps /
    `j` bytes of that `InstallFile` call.  Then EVERY destination file of the tree is either exactly its
    previous state or the complete new content with mode `mode` (more precisely: files before `i` are new,
    file `i` is one of the two, files after `i` are previous); paths outside the tree are unchanged;
    earlier temp garbage is untouched and at most one temp file is added. -/
theorem tree_crash_atomic (steps : List Step) (cl : List Cleanup) (mode : Nat)
    (hs : crashSafe steps mode = true) (h : completes steps cl mode = true)
    (files : Tree) (hnd : (paths files).Nodup) (fs : FS) (i k j : Nat) :
    (∀ p c, (p, c) ∈ files →
      (crashTree steps cl k j files i fs).file p = fs.file p ∨
      (crashTree steps cl k j files i fs).file p = some (c, mode)) ∧
    (∀ n p c, files[n]? = some (p, c) →
      (n < i → (crashTree steps cl k j files i fs).file p = some (c, mode)) ∧
      (i < n → (crashTree steps cl k j files i fs).file p = fs.file p)) ∧
    (∀ q, q ∉ paths files → (crashTree steps cl k j files i fs).file q = fs.file q) ∧
    (∃ l, (crashTree steps cl k j files i fs).temps = l ++ fs.temps ∧ l.length ≤ 1) := by
  obtain ⟨h1, h2, h3⟩ := crashTree_spec steps cl mode hs h k j files i fs
  refine ⟨?_, ?_, h1, h2⟩
  · intro p c hm
    obtain ⟨n, hn⟩ := List.mem_iff_getElem?.mp hm
    obtain ⟨a, b, d⟩ := h3 hnd n p c hn
    rcases Nat.lt_trichotomy n i with hlt | heq | hgt
    · exact Or.inr (a hlt)
    · exact b heq
    · exact Or.inl (d hgt)
  · intro n p c hn
    obtain ⟨a, _, d⟩ := h3 hnd n p c hn
    exact ⟨a, d⟩

/-- **C15 (a later complete run finishes the installation) at tree level.**  From the state left by a
    crash at any `(i, k, j)`, a complete run reports success, installs every file of the tree with its
    content and mode `mode`, leaves every path outside the tree as it was before the crashed run, and adds
    no temp file (garbage of the crashed run is a different name and stays). -/
theorem tree_rerun_completes (steps : List Step) (cl : List Cleanup) (mode : Nat)
    (h : completes steps cl mode = true)
    (files : Tree) (hnd : (paths files).Nodup) (fs : FS) (i k j : Nat) :
    (installTree steps cl files (crashTree steps cl k j files i fs)).2 = false ∧
    (∀ p c, (p, c) ∈ files →
      (installTree steps cl files (crashTree steps cl k j files i fs)).1.file p = some (c, mode)) ∧
    (∀ q, q ∉ paths files →
      (installTree steps cl files (crashTree steps cl k j files i fs)).1.file q = fs.file q) ∧
    (installTree steps cl files (crashTree steps cl k j files i fs)).1.temps =
      (crashTree steps cl k j files i fs).temps := by
  obtain ⟨h1, h2, h3, h4⟩ := tree_install_exact steps cl mode h files hnd (crashTree steps cl k j files i fs)
  refine ⟨h1, h2, ?_, h4⟩
  intro q hq
  rw [h3 q hq]
  -- the crashed run itself only touches destinations of the tree (no `crashSafe` needed for the frame)
  have frame : ∀ (files : Tree) (i : Nat) (fs : FS), q ∉ paths files →
      (crashTree steps cl k j files i fs).file q = fs.file q := by
    intro files
    induction files with
    | nil => intro _ _ _; rfl
    | cons x rest ih =>
      obtain ⟨p, c⟩ := x
      intro i fs hq
      rw [paths_cons, List.mem_cons, not_or] at hq
      cases i with
      | zero => exact commit_file_other fs p q _ hq.1
      | succ i' =>
        rw [crashTree_succ steps cl mode h, ih i' _ hq.2, put_file_other fs p q c mode hq.1]
  exact frame files i fs hq

/-! ## Single injected failure -/

theorem faultTree_spec (steps : List Step) (cl : List Cleanup) (mode : Nat)
    (hf : faultSafe steps cl = true) (h : completes steps cl mode = true) (k j : Nat) (hk : k < steps.length) :
    ∀ (files : Tree) (i : Nat) (fs : FS), i < files.length →
      (faultTree steps cl k j files i fs).2 = true ∧
      (faultTree steps cl k j files i fs).1.temps = fs.temps ∧
      (∀ q, q ∉ paths files → (faultTree steps cl k j files i fs).1.file q = fs.file q) ∧
      ((paths files).Nodup → ∀ n p c, files[n]? = some (p, c) →
        (n < i → (faultTree steps cl k j files i fs).1.file p = some (c, mode)) ∧
        (i ≤ n → (faultTree steps cl k j files i fs).1.file p = fs.file p)) := by
  intro files
  induction files with
  | nil =>
    intro i fs hi
    exact absurd hi (Nat.not_lt_zero _)
  | cons x rest ih =>
    obtain ⟨p, c⟩ := x
    intro i fs hi
    cases i with
    | zero =>
      obtain ⟨f1, f2, f3⟩ := fault_clean_of_safe steps cl hf (fs.file p) c k j hk
      have e : faultTree steps cl k j ((p, c) :: rest) 0 fs =
          (fs.commit p (runFail c steps cl k j (fs.enter p)).st, true) := by
        simp only [faultTree, FS.enter, f1, if_true]
      rw [e]
      have hst : (runFail c steps cl k j (fs.enter p)).st = { dest := fs.file p, tmp := none } := by
        cases hr : (runFail c steps cl k j (fs.enter p)).st with
        | mk d t =>
          simp only [FS.enter] at hr
          rw [hr] at f2 f3
          simp only at f2 f3
          rw [f2, f3]
      rw [hst]
      refine ⟨rfl, rfl, ?_, ?_⟩
      · intro q hq
        rw [paths_cons, List.mem_cons, not_or] at hq
        exact commit_file_other fs p q _ hq.1
      · intro hnd n p' c' hn
        refine ⟨fun hlt => absurd hlt (Nat.not_lt_zero _), ?_⟩
        intro _
        by_cases hpp : p' = p
        · rw [hpp, commit_file_self]
        · exact commit_file_other fs p p' _ hpp
    | succ i' =>
      rw [faultTree_succ steps cl mode h]
      have hi' : i' < rest.length := by
        simp only [List.length_cons] at hi
        omega
      obtain ⟨h1, h2, h3, h4⟩ := ih i' (fs.put p c mode) hi'
      refine ⟨h1, ?_, ?_, ?_⟩
      · rw [h2, put_temps]
      · intro q hq
        rw [paths_cons, List.mem_cons, not_or] at hq
        rw [h3 q hq.2, put_file_other fs p q c mode hq.1]
      · intro hnd n p' c' hn
        rw [paths_cons, List.nodup_cons] at hnd
        cases n with
        | zero =>
          rw [List.getElem?_cons_zero] at hn
          cases hn
          refine ⟨?_, fun hle => by omega⟩
          intro _
          rw [h3 p hnd.1, put_file_self]
        | succ n' =>
          rw [List.getElem?_cons_succ] at hn
          have hne : p' ≠ p := by
            intro e
            rw [e] at hn
            exact hnd.1 (mem_paths_of_mem (List.mem_of_getElem? hn))
          obtain ⟨a, b⟩ := h4 hnd.2 n' p' c' hn
          rw [put_file_other fs p p' c mode hne] at b
          exact ⟨fun hlt => a (by omega), fun hle => b (by omega)⟩

/-- **C15 (single injected failure) at tree level.**  Step `k` of the `InstallFile` call for file number
    `i` fails (`j` bytes of a failing write got through).  Then `Install` reports an error, no temp file of
    this run is left, file `i`'s destination is its previous state, files before `i` are new, files after
    `i` are previous, and paths outside the tree are unchanged. -/
theorem tree_fault_clean (steps : List Step) (cl : List Cleanup) (mode : Nat)
    (hf : faultSafe steps cl = true) (h : completes steps cl mode = true)
    (files : Tree) (hnd : (paths files).Nodup) (fs : FS) (i k j : Nat)
    (hi : i < files.length) (hk : k < steps.length) :
    (faultTree steps cl k j files i fs).2 = true ∧
    (faultTree steps cl k j files i fs).1.temps = fs.temps ∧
    (∀ n p c, files[n]? = some (p, c) →
      (n < i → (faultTree steps cl k j files i fs).1.file p = some (c, mode)) ∧
      (n = i → (faultTree steps cl k j files i fs).1.file p = fs.file p) ∧
      (i < n → (faultTree steps cl k j files i fs).1.file p = fs.file p)) ∧
    (∀ q, q ∉ paths files → (faultTree steps cl k j files i fs).1.file q = fs.file q) := by
  obtain ⟨h1, h2, h3, h4⟩ := faultTree_spec steps cl mode hf h k j hk files i fs hi
  refine ⟨h1, h2, ?_, h3⟩
  intro n p c hn
  obtain ⟨a, b⟩ := h4 hnd n p c hn
  exact ⟨a, fun e => b (by omega), fun hlt => b (by omega)⟩

/-! ## The walk as prefix / crashed file / untouched suffix (sanity link to the informal description) -/

/-- the crashed walk is: complete runs on the first `i` files, then `runCrash` on file `i` -/
theorem crashTree_eq (steps : List Step) (cl : List Cleanup) (mode : Nat) (h : completes steps cl mode = true)
    (k j : Nat) : ∀ (files : Tree) (i : Nat) (fs : FS),
      crashTree steps cl k j files i fs =
        match files[i]? with
        | some (p, c) =>
          (installTree steps cl (files.take i) fs).1.commit p
            (runCrash c steps k j ((installTree steps cl (files.take i) fs).1.enter p))
        | none => (installTree steps cl files fs).1 := by
  intro files
  induction files with
  | nil => intro i fs; rfl
  | cons x rest ih =>
    obtain ⟨p, c⟩ := x
    intro i fs
    cases i with
    | zero => rfl
    | succ i' =>
      rw [crashTree_succ steps cl mode h, ih i' (fs.put p c mode)]
      simp only [List.getElem?_cons_succ, List.take_succ_cons, installTree_cons steps cl mode h]

end Inst
