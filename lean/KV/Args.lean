import KV.Prov
/-! Prototype (scratch): C10 groundwork — argument nodes are exactly the unsupplied type keys required by
    a discovered provider, one node per key. -/
namespace KV

/-- every node but the root feeds somebody; argument nodes are registered under their own key -/
structure AInv (st : BfsSt) : Prop where
  hasOut : ∀ n, 0 < n → n < st.nodes.length → st.edges.getD n [] ≠ []
  argReg : ∀ n, n < st.nodes.length → (st.nodes.getD n default).isArg = true →
    st.argNode.lookup (st.nodes.getD n default).ty = some n

theorem lookup_snoc_old {β} (l : List (Nat × β)) (k q : Nat) (v x : β) (h : l.lookup q = some x) :
    (l ++ [(k, v)]).lookup q = some x := by
  rw [List.lookup_append, h]; rfl

theorem lookup_snoc_new {β} (l : List (Nat × β)) (k : Nat) (v : β) (h : l.lookup k = none) :
    (l ++ [(k, v)]).lookup k = some v := by
  rw [List.lookup_append, h]; simp [List.lookup]

/-- one requirement step keeps `AInv` (the possibly new node immediately gets its out-edge) -/
theorem reqStep_ainv {provs : List PSpec} {sup : SupMap} (hsup : SupOK provs sup) {st : BfsSt} {n1 i : Nat} (t : Nat)
    (h : BInv provs st (some (n1, i))) (ha : AInv st) : AInv (reqStep sup n1 i t st) := by
  obtain ⟨h1, hext, hlt, _⟩ := pickNode_inv hsup t h
  -- facts about pickNode's state
  have hnodesLen : (pickNode sup t st).1.nodes.length = st.nodes.length ∨
      ((pickNode sup t st).1.nodes.length = st.nodes.length + 1 ∧ (pickNode sup t st).2.1 = st.nodes.length) := by
    unfold pickNode
    split
    · split
      · exact Or.inl rfl
      · exact Or.inr ⟨by simp [addNode], rfl⟩
    · split
      · exact Or.inl rfl
      · exact Or.inr ⟨by simp [addNode], rfl⟩
  have hedgesOld : ∀ n, n < st.nodes.length → (pickNode sup t st).1.edges.getD n [] = st.edges.getD n [] := by
    intro n hn
    have hnE : n < st.edges.length := by rw [h.lenE]; exact hn
    unfold pickNode
    split
    · split
      · rfl
      · exact getD_append_left _ _ _ _ hnE
    · split
      · rfl
      · exact getD_append_left _ _ _ _ hnE
  have hn2E : (pickNode sup t st).2.1 < (pickNode sup t st).1.edges.length := by rw [h1.lenE]; exact hlt
  constructor
  · intro n hn0 hnl
    change n < (pickNode sup t st).1.nodes.length at hnl
    show (listModify (pickNode sup t st).1.edges (pickNode sup t st).2.1 _).getD n [] ≠ []
    by_cases hn2 : n = (pickNode sup t st).2.1
    · rw [hn2, getD_listModify_self _ _ _ _ hn2E]; simp
    · rw [getD_listModify_other _ _ _ _ _ hn2]
      have hnold : n < st.nodes.length := by
        rcases hnodesLen with hl | ⟨hl, hidx⟩
        · rw [hl] at hnl; exact hnl
        · rw [hl] at hnl; rw [hidx] at hn2; omega
      rw [hedgesOld n hnold]
      exact ha.hasOut n hn0 hnold
  · intro n hnl hisarg
    change n < (pickNode sup t st).1.nodes.length at hnl
    change ((pickNode sup t st).1.nodes.getD n default).isArg = true at hisarg
    show (pickNode sup t st).1.argNode.lookup ((pickNode sup t st).1.nodes.getD n default).ty = some n
    -- case analysis on what pickNode did
    cases hl : sup.lookup t with
    | some r =>
      obtain ⟨p, gi⟩ := r
      cases hp : st.provNode.lookup p with
      | some n2 =>
        have hpn : pickNode sup t st = (st, n2, gi) := by unfold pickNode; rw [hl]; simp only; rw [hp]
        rw [hpn] at hnl hisarg ⊢
        exact ha.argReg n hnl hisarg
      | none =>
        have hpn : (pickNode sup t st).1 = { (addNode st { isArg := false, prov := p }).1 with
            provNode := st.provNode ++ [(p, (addNode st { isArg := false, prov := p }).2)] } := by
          unfold pickNode; rw [hl]; simp only; rw [hp]
        rw [hpn] at hnl hisarg ⊢
        change n < (st.nodes ++ [({ isArg := false, prov := p } : Node)]).length at hnl
        change ((st.nodes ++ [({ isArg := false, prov := p } : Node)]).getD n default).isArg = true at hisarg
        show st.argNode.lookup ((st.nodes ++ [({ isArg := false, prov := p } : Node)]).getD n default).ty = some n
        simp only [List.length_append, List.length_singleton] at hnl
        by_cases hnold : n < st.nodes.length
        · rw [getD_append_left _ _ _ _ hnold] at hisarg ⊢
          exact ha.argReg n hnold hisarg
        · have : n = st.nodes.length := by omega
          subst this
          rw [getD_append_right_new] at hisarg
          cases hisarg
    | none =>
      cases hp : st.argNode.lookup t with
      | some n2 =>
        have hpn : pickNode sup t st = (st, n2, 0) := by unfold pickNode; rw [hl]; simp only; rw [hp]
        rw [hpn] at hnl hisarg ⊢
        exact ha.argReg n hnl hisarg
      | none =>
        have hpn : (pickNode sup t st).1 = { (addNode st { isArg := true, ty := t }).1 with
            argNode := st.argNode ++ [(t, (addNode st { isArg := true, ty := t }).2)] } := by
          unfold pickNode; rw [hl]; simp only; rw [hp]
        rw [hpn] at hnl hisarg ⊢
        change n < (st.nodes ++ [({ isArg := true, ty := t } : Node)]).length at hnl
        change ((st.nodes ++ [({ isArg := true, ty := t } : Node)]).getD n default).isArg = true at hisarg
        show (st.argNode ++ [(t, st.nodes.length)]).lookup
          ((st.nodes ++ [({ isArg := true, ty := t } : Node)]).getD n default).ty = some n
        simp only [List.length_append, List.length_singleton] at hnl
        by_cases hnold : n < st.nodes.length
        · rw [getD_append_left _ _ _ _ hnold] at hisarg ⊢
          exact lookup_snoc_old _ _ _ _ _ (ha.argReg n hnold hisarg)
        · have : n = st.nodes.length := by omega
          subst this
          rw [getD_append_right_new]
          exact lookup_snoc_new _ _ _ hp

theorem ainv_congr {st st' : BfsSt} (hn : st'.nodes = st.nodes) (he : st'.edges = st.edges)
    (ha : st'.argNode = st.argNode) (h : AInv st) : AInv st' := by
  constructor
  · intro n h0 hl; rw [he]; rw [hn] at hl; exact h.hasOut n h0 hl
  · intro n hl hi; rw [hn] at hl hi ⊢; rw [ha]; exact h.argReg n hl hi

theorem bfsRequires_ainv {provs : List PSpec} {sup : SupMap} (hsup : SupOK provs sup) {n1 : Nat} (ts : List Nat)
    {i : Nat} {st : BfsSt} (h : BInv provs st (some (n1, i))) (hn1 : n1 ∈ st.visited) (ha : AInv st) :
    AInv (bfsRequires provs sup n1 i ts st) := by
  induction ts generalizing i st with
  | nil => simpa [bfsRequires] using ha
  | cons t ts ih =>
    rw [bfsRequires_cons]
    obtain ⟨h1, hext1⟩ := reqStep_inv hsup t h hn1
    exact ih h1 (by rw [hext1.visited]; exact hn1) (reqStep_ainv hsup t h ha)

theorem bfsLoop_ainv {provs : List PSpec} {sup : SupMap} (hsup : SupOK provs sup) (fuel : Nat) {st : BfsSt}
    (h : BInv provs st none) (ha : AInv st) : AInv (bfsLoop provs sup fuel st) := by
  induction fuel generalizing st with
  | zero => simpa [bfsLoop] using ha
  | succ k ih =>
    simp only [bfsLoop]
    split
    · exact ha
    · rename_i n1 q hq
      have hn1 : n1 < st.nodes.length := h.qLt n1 (by rw [hq]; exact List.mem_cons_self ..)
      split
      · rename_i hv
        have hv' : n1 ∈ st.visited := by simpa using hv
        have ha' : AInv { st with queue := q } := ainv_congr (st := st) rfl rfl rfl ha
        refine ih ?_ ha'
        exact { lenE := h.lenE, lenR := h.lenR, vLt := h.vLt, edgeOK := h.edgeOK, revOK := h.revOK, uniq := h.uniq,
                revLen := h.revLen, provNodeOK := h.provNodeOK, argNodeOK := h.argNodeOK,
                qLt := fun m hm => h.qLt m (by rw [hq]; exact List.mem_cons_of_mem _ hm),
                seen := by
                  intro m hm
                  rcases h.seen m hm with h1 | h1
                  · rw [hq] at h1
                    simp only [List.mem_cons] at h1
                    rcases h1 with rfl | h1
                    · exact Or.inr hv'
                    · exact Or.inl h1
                  · exact Or.inr h1 }
      · rename_i hv
        have hnv : n1 ∉ st.visited := by simpa using hv
        have hvis := visit_inv h hq hnv
        have havis : AInv { st with queue := q, visited := st.visited ++ [n1] } := ainv_congr (st := st) rfl rfl rfl ha
        have hget : st.nodes[n1]? = some (st.nodes.getD n1 default) := by
          rw [List.getElem?_eq_getElem hn1, getD_eq_getElem' _ _ _ hn1]
        split
        · rename_i hnone
          rw [show ({ st with queue := q, visited := st.visited ++ [n1] } : BfsSt).nodes = st.nodes from rfl] at hnone
          rw [hget] at hnone; cases hnone
        · rename_i nd hsome
          rw [show ({ st with queue := q, visited := st.visited ++ [n1] } : BfsSt).nodes = st.nodes from rfl] at hsome
          rw [hget] at hsome
          have hnd : nd = st.nodes.getD n1 default := (Option.some.inj hsome).symm
          split
          · rename_i harg
            apply ih _ havis
            apply hvis.closeCur
            show 0 = slotsOfNode provs (st.nodes.getD n1 default)
            rw [← hnd]; simp [slotsOfNode, harg]
          · rename_i harg
            have hn1v : n1 ∈ ({ st with queue := q, visited := st.visited ++ [n1] } : BfsSt).visited := by simp
            obtain ⟨h2, hext⟩ := bfsRequires_inv hsup (provs.getD nd.prov default).requires hvis hn1v
            apply ih _ (bfsRequires_ainv hsup _ hvis hn1v havis)
            apply h2.closeCur
            rw [hext.nodesKeep n1 hn1]
            show 0 + _ = slotsOfNode provs (st.nodes.getD n1 default)
            rw [← hnd]; simp [slotsOfNode, harg]

theorem bfsInit_ainv (rp : Nat) : AInv (bfsInit rp) := by
  constructor
  · intro n h0 hl; simp [bfsInit] at hl; omega
  · intro n hl hi
    simp [bfsInit] at hl; subst hl
    simp [bfsInit, List.getD_eq_getElem?_getD] at hi

/-- **C10 groundwork (prototype)**: in a drained BFS state, argument nodes are exactly the unsupplied keys
    required by discovered providers, one node per key. -/
theorem args_characterisation {provs : List PSpec} {sup : SupMap} {st : BfsSt}
    (h : BInv provs st none) (hp : EProv provs sup st) (ha : AInv st) (hq : st.queue = [])
    (hroot : (st.nodes.getD 0 default).isArg = false) :
    (∀ n, n < st.nodes.length → (st.nodes.getD n default).isArg = true →
      sup.lookup (st.nodes.getD n default).ty = none ∧
      ∃ (m i : Nat), m < st.nodes.length ∧ (st.nodes.getD m default).isArg = false ∧
        (reqOf provs st m)[i]? = some (st.nodes.getD n default).ty) ∧
    (∀ m, m < st.nodes.length → (st.nodes.getD m default).isArg = false → ∀ t ∈ reqOf provs st m,
      sup.lookup t = none → ∃ n, n < st.nodes.length ∧ (st.nodes.getD n default).isArg = true ∧
        (st.nodes.getD n default).ty = t) ∧
    (∀ n n', n < st.nodes.length → n' < st.nodes.length → (st.nodes.getD n default).isArg = true →
      (st.nodes.getD n' default).isArg = true → (st.nodes.getD n default).ty = (st.nodes.getD n' default).ty → n = n') := by
  refine ⟨?_, ?_, ?_⟩
  · intro n hn hi
    have hn0 : 0 < n := by
      apply Classical.byContradiction; intro hc
      have : n = 0 := by omega
      subst this; rw [hroot] at hi; cases hi
    have hne := ha.hasOut n hn0 hn
    obtain ⟨e, he⟩ := List.exists_mem_of_ne_nil _ hne
    obtain ⟨t, ht, hpo⟩ := hp n e he
    obtain ⟨_, hdv, _, _⟩ := h.edgeOK n e he
    rcases hpo with ⟨p, gi, _, hna, _, _⟩ | ⟨hl, _, hty, _⟩
    · rw [hi] at hna; cases hna
    · refine ⟨by rw [hty]; exact hl, e.dst, e.slot, h.vLt _ hdv, ?_, by rw [hty]; exact ht⟩
      -- the consumer is a provider: it has at least one requirement
      cases hd : (st.nodes.getD e.dst default).isArg with
      | false => rfl
      | true =>
        unfold reqOf at ht
        rw [hd] at ht
        simp at ht
  · intro m hm hna t ht hl
    obtain ⟨i, hil, hget⟩ := List.getElem_of_mem ht
    have hmv : m ∈ st.visited := by
      rcases h.seen m hm with h1 | h1
      · rw [hq] at h1; simp at h1
      · exact h1
    have hrl := h.revLen m hm
    simp only [expectedRev, hmv, ↓reduceIte] at hrl
    have hslots : slotsOfNode provs (st.nodes.getD m default) = (reqOf provs st m).length := by
      unfold slotsOfNode reqOf
      rw [hna]; rfl
    have hirev : i < (st.rev.getD m []).length := by rw [hrl, hslots]; exact hil
    have hrev : (st.rev.getD m [])[i]? = some ((st.rev.getD m [])[i]) := List.getElem?_eq_getElem hirev
    obtain ⟨e, he, hed, hes⟩ := h.revOK m i _ hrev
    obtain ⟨t', ht', hpo⟩ := hp _ e he
    rw [hed, hes, List.getElem?_eq_getElem hil, hget] at ht'
    have htt : t = t' := Option.some.inj ht'
    subst htt
    obtain ⟨hdl, _, _, _⟩ := h.edgeOK _ e he
    rcases hpo with ⟨p, gi, hls, _, _, _⟩ | ⟨_, hia, hty, _⟩
    · rw [hl] at hls; cases hls
    · exact ⟨_, hdl, hia, hty⟩
  · intro n n' hn hn' hi hi' hty
    have h1 := ha.argReg n hn hi
    have h2 := ha.argReg n' hn' hi'
    rw [hty] at h1
    rw [h1] at h2
    exact Option.some.inj h2

end KV
