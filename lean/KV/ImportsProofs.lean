import KV.Imports
import Std.Data.String.ToNat
/-! C14 lemma file: totality of `findAlias`/`addImport`, whole-history facts about `AddImport`
    (alias consistency, keys distinct), order independence of the sorted import specs, and the
    duplicate-set check of `mergeResults`. -/
namespace Imp

/-! ### definitions -/

def TC.empty : TC := { imports := [], used := [], counters := [] }

/-- a whole history of AddImport calls; `none` only if the fuel of `findAlias` ran out -/
def runImports : TC → List (Nat × String) → Option (TC × List String)
  | tc, [] => some (tc, [])
  | tc, (p, d) :: rest =>
    match addImport tc p d with
    | none => none
    | some (tc', n) =>
      match runImports tc' rest with
      | none => none
      | some (tc'', ns) => some (tc'', n :: ns)

/-- `Imports()`: one spec per imported path; the alias is omitted when it equals the last path element -/
def importSpecs (lastElem : Nat → String) (tc : TC) : List (Nat × Option String) :=
  tc.imports.map (fun (p, n) => (p, if n = lastElem p then none else some n))

/-- what the writer does with them: sort by path (paths are distinct) -/
def sortedSpecs (l : List (Nat × Option String)) : List (Nat × Option String) :=
  l.mergeSort (fun a b => a.1 ≤ b.1)

/-- one step of the duplicate-set check: fail at a name already seen, otherwise remember it -/
def addName (r : Except String (List String)) (n : String) : Except String (List String) :=
  match r with
  | .error e => .error e
  | .ok a => if a.contains n then .error n else .ok (a ++ [n])

/-- mergeResults' duplicate-set check: files in order, each with its set names in order;
    `acc` = names seen so far (in order) -/
def mergeSets : List (List String) → List String → Except String (List String)
  | [], acc => .ok acc
  | f :: fs, acc =>
    match f.foldl addName (.ok acc) with
    | .error e => .error e
    | .ok a => mergeSets fs a

/-- the keys (paths) of the import table are pairwise distinct -/
def KeysNodup (tc : TC) : Prop := (tc.imports.map (·.1)).Nodup

/-! ### totality of `findAlias` (pigeonhole over the keys of `used`) -/

theorem alias_inj (base : String) (a b : Nat) (h : alias base a = alias base b) : a = b := by
  simp only [alias] at h
  have := (String.append_right_inj (base ++ "_")).mp h
  exact Nat.repr_inj.mp this

theorem lookup_ne_none_mem_keys {α β} [BEq α] [LawfulBEq α] (l : List (α × β)) (k : α)
    (h : l.lookup k ≠ none) : k ∈ l.map (·.1) := by
  induction l with
  | nil => simp [List.lookup] at h
  | cons hd tl ih =>
    obtain ⟨k', v⟩ := hd
    by_cases hk : k = k'
    · subst hk; simp
    · rw [lookup_cons_ne _ _ _ _ hk] at h
      simp only [List.map_cons, List.mem_cons]
      exact Or.inr (ih h)

theorem lookup_none_not_mem_keys {α β} [BEq α] [LawfulBEq α] (l : List (α × β)) (k : α)
    (h : l.lookup k = none) : k ∉ l.map (·.1) := by
  induction l with
  | nil => simp
  | cons hd tl ih =>
    obtain ⟨k', v⟩ := hd
    by_cases hk : k = k'
    · subst hk; rw [lookup_cons_self] at h; cases h
    · rw [lookup_cons_ne _ _ _ _ hk] at h
      simp only [List.map_cons, List.mem_cons, not_or]
      exact ⟨hk, ih h⟩

theorem findAlias_none_all (used : List (String × Nat)) (base : String) (fuel c : Nat)
    (h : findAlias used base fuel c = none) :
    ∀ i, i < fuel → used.lookup (alias base (c + 1 + i)) ≠ none := by
  induction fuel generalizing c with
  | zero => intro i hi; omega
  | succ f ih =>
    simp only [findAlias] at h
    split at h
    · cases h
    · rename_i v hv
      intro i hi
      cases i with
      | zero => rw [Nat.add_zero, hv]; exact fun e => by cases e
      | succ j =>
        have := ih (c + 1) h j (by omega)
        rw [show c + 1 + 1 + j = c + 1 + (j + 1) by omega] at this
        exact this

theorem findAlias_total (used : List (String × Nat)) (base : String) (c : Nat) :
    findAlias used base (used.length + 1) c ≠ none := by
  intro h
  have hall := findAlias_none_all used base _ c h
  let L := (List.range (used.length + 1)).map (fun i => alias base (c + 1 + i))
  have hnd : L.Nodup := by
    show List.Pairwise (· ≠ ·) _
    rw [List.pairwise_map]
    exact List.Pairwise.imp (fun {a b} hab heq => hab (by
      have := alias_inj base _ _ heq; omega)) List.nodup_range
  have hsub : L ⊆ used.map (·.1) := by
    intro x hx
    simp only [L, List.mem_map, List.mem_range] at hx
    obtain ⟨i, hi, rfl⟩ := hx
    exact lookup_ne_none_mem_keys used _ (hall i hi)
  have := List.Nodup.length_le_of_subset hnd hsub
  simp [L] at this
  omega

theorem addImport_total (tc : TC) (path : Nat) (desired : String) : addImport tc path desired ≠ none := by
  unfold addImport
  split
  · simp
  · split
    · split
      · rename_i hf
        exact absurd hf (findAlias_total _ _ _)
      · simp
    · simp

theorem runImports_total (tc : TC) (ops : List (Nat × String)) : runImports tc ops ≠ none := by
  induction ops generalizing tc with
  | nil => simp [runImports]
  | cons op rest ih =>
    obtain ⟨p, d⟩ := op
    simp only [runImports]
    split
    · rename_i ha; exact absurd ha (addImport_total _ _ _)
    · rename_i tc1 n _
      split
      · rename_i hr; exact absurd hr (ih tc1)
      · simp

/-! ### invariants over whole histories -/

theorem inv_empty : Inv TC.empty := by
  constructor <;> intro a b h <;> simp [TC.empty] at h

theorem runImports_cons {tc tc' : TC} {p : Nat} {d : String} {rest : List (Nat × String)} {ns : List String}
    (h : runImports tc ((p, d) :: rest) = some (tc', ns)) :
    ∃ tc1 n ns', addImport tc p d = some (tc1, n) ∧ runImports tc1 rest = some (tc', ns') ∧ ns = n :: ns' := by
  simp only [runImports] at h
  split at h
  · cases h
  · rename_i tc1 n ha
    split at h
    · cases h
    · rename_i tc2 ns' hr
      cases h
      exact ⟨tc1, n, ns', ha, hr, rfl⟩

theorem runImports_inv {tc tc' : TC} {ops : List (Nat × String)} {ns : List String} (h : Inv tc)
    (hr : runImports tc ops = some (tc', ns)) : Inv tc' := by
  induction ops generalizing tc ns with
  | nil => simp only [runImports, Option.some.injEq, Prod.mk.injEq] at hr; rw [← hr.1]; exact h
  | cons op rest ih =>
    obtain ⟨p, d⟩ := op
    obtain ⟨tc1, n, ns', ha, hr', _⟩ := runImports_cons hr
    exact ih (addImport_inv h ha).1 hr'

/-- stability: an entry of the import table is never changed by a later call -/
theorem addImport_keeps {tc tc' : TC} {p q : Nat} {d n m : String}
    (ha : addImport tc p d = some (tc', n)) (hq : tc.imports.lookup q = some m) :
    tc'.imports.lookup q = some m := by
  unfold addImport at ha
  split at ha
  · cases ha; exact hq
  · rename_i hnone
    have hqp : q ≠ p := by intro e; subst e; rw [hnone] at hq; cases hq
    split at ha
    · split at ha
      · cases ha
      · cases ha
        show List.lookup q (_ :: _) = _
        rw [lookup_cons_ne _ _ _ _ hqp]; exact hq
    · cases ha
      show List.lookup q (_ :: _) = _
      rw [lookup_cons_ne _ _ _ _ hqp]; exact hq

theorem runImports_keeps {tc tc' : TC} {ops : List (Nat × String)} {ns : List String} {q : Nat} {m : String}
    (hr : runImports tc ops = some (tc', ns)) (hq : tc.imports.lookup q = some m) :
    tc'.imports.lookup q = some m := by
  induction ops generalizing tc ns with
  | nil => simp only [runImports, Option.some.injEq, Prod.mk.injEq] at hr; rw [← hr.1]; exact hq
  | cons op rest ih =>
    obtain ⟨p, d⟩ := op
    obtain ⟨tc1, n, ns', ha, hr', _⟩ := runImports_cons hr
    exact ih hr' (addImport_keeps ha hq)

theorem runImports_length {tc tc' : TC} {ops : List (Nat × String)} {ns : List String}
    (hr : runImports tc ops = some (tc', ns)) : ns.length = ops.length := by
  induction ops generalizing tc ns with
  | nil => simp only [runImports, Option.some.injEq, Prod.mk.injEq] at hr; rw [← hr.2]; rfl
  | cons op rest ih =>
    obtain ⟨p, d⟩ := op
    obtain ⟨tc1, n, ns', ha, hr', rfl⟩ := runImports_cons hr
    simp only [List.length_cons, ih hr']

/-- every call returned the name that the final table holds for its path -/
theorem runImports_names {tc tc' : TC} {ops : List (Nat × String)} {ns : List String} (h : Inv tc)
    (hr : runImports tc ops = some (tc', ns)) :
    ns.length = ops.length ∧
    ∀ i (hi : i < ops.length) (hi' : i < ns.length), tc'.imports.lookup (ops[i]).1 = some ns[i] := by
  refine ⟨runImports_length hr, ?_⟩
  induction ops generalizing tc ns with
  | nil => intro i hi; simp at hi
  | cons op rest ih =>
    obtain ⟨p, d⟩ := op
    obtain ⟨tc1, n, ns', ha, hr', rfl⟩ := runImports_cons hr
    obtain ⟨hinv1, hl⟩ := addImport_inv h ha
    intro i hi hi'
    cases i with
    | zero => exact runImports_keeps hr' hl
    | succ j =>
      simp only [List.getElem_cons_succ]
      exact ih hinv1 hr' j (by simpa using hi) (by simpa using hi')

/-- **alias consistency** over a whole history, from any state with inverse tables -/
theorem alias_consistent_from {tc tc' : TC} {ops : List (Nat × String)} {ns : List String} (h : Inv tc)
    (hr : runImports tc ops = some (tc', ns)) (i j : Nat)
    (hi : i < ops.length) (hj : j < ops.length) (hi' : i < ns.length) (hj' : j < ns.length) :
    (ops[i]).1 = (ops[j]).1 ↔ ns[i] = ns[j] := by
  have hinv := runImports_inv h hr
  have hn := (runImports_names h hr).2
  have h1 := hn i hi hi'
  have h2 := hn j hj hj'
  constructor
  · intro e
    rw [e, h2] at h1
    exact (Option.some.inj h1).symm
  · intro e
    rw [e] at h1
    exact alias_injective hinv h1 h2

/-- **alias consistency**: same package ⇒ same qualifier everywhere; different packages ⇒ different qualifiers -/
theorem alias_consistent {tc' : TC} {ops : List (Nat × String)} {ns : List String}
    (hr : runImports TC.empty ops = some (tc', ns)) (i j : Nat)
    (hi : i < ops.length) (hj : j < ops.length) (hi' : i < ns.length) (hj' : j < ns.length) :
    (ops[i]).1 = (ops[j]).1 ↔ ns[i] = ns[j] :=
  alias_consistent_from inv_empty hr i j hi hj hi' hj'

/-! ### each path is imported once -/

theorem keysNodup_empty : KeysNodup TC.empty := by
  simp [KeysNodup, TC.empty]

theorem addImport_keysNodup {tc tc' : TC} {p : Nat} {d n : String} (h : KeysNodup tc)
    (ha : addImport tc p d = some (tc', n)) : KeysNodup tc' := by
  unfold addImport at ha
  split at ha
  · cases ha; exact h
  · rename_i hnone
    have hnm := lookup_none_not_mem_keys _ _ hnone
    split at ha
    · split at ha
      · cases ha
      · cases ha
        show List.Nodup (List.map _ (_ :: _))
        rw [List.map_cons, List.nodup_cons]
        exact ⟨hnm, h⟩
    · cases ha
      show List.Nodup (List.map _ (_ :: _))
      rw [List.map_cons, List.nodup_cons]
      exact ⟨hnm, h⟩

theorem runImports_keysNodup {tc tc' : TC} {ops : List (Nat × String)} {ns : List String} (h : KeysNodup tc)
    (hr : runImports tc ops = some (tc', ns)) : KeysNodup tc' := by
  induction ops generalizing tc ns with
  | nil => simp only [runImports, Option.some.injEq, Prod.mk.injEq] at hr; rw [← hr.1]; exact h
  | cons op rest ih =>
    obtain ⟨p, d⟩ := op
    obtain ⟨tc1, n, ns', ha, hr', _⟩ := runImports_cons hr
    exact ih (addImport_keysNodup h ha) hr'

/-- in every state reachable from `TC.empty` the keys of `imports` are pairwise distinct -/
theorem imports_keys_nodup {tc' : TC} {ops : List (Nat × String)} {ns : List String}
    (hr : runImports TC.empty ops = some (tc', ns)) : KeysNodup tc' :=
  runImports_keysNodup keysNodup_empty hr

theorem importSpecs_keys (lastElem : Nat → String) (tc : TC) :
    (importSpecs lastElem tc).map (·.1) = tc.imports.map (·.1) := by
  simp only [importSpecs, List.map_map]
  apply List.map_congr_left
  intro a _
  rfl

/-- the emitted import specs mention each path once -/
theorem importSpecs_nodup (lastElem : Nat → String) {tc : TC} (h : KeysNodup tc) :
    ((importSpecs lastElem tc).map (·.1)).Nodup := by
  rw [importSpecs_keys]; exact h

/-! ### the sorted specs do not depend on the map iteration order -/

theorem eq_of_nodup_map {α β} (f : α → β) (l : List α) (h : (l.map f).Nodup) {a b : α}
    (ha : a ∈ l) (hb : b ∈ l) (e : f a = f b) : a = b := by
  induction l with
  | nil => cases ha
  | cons x xs ih =>
    rw [List.map_cons, List.nodup_cons] at h
    simp only [List.mem_cons] at ha hb
    rcases ha with rfl | ha
    · rcases hb with rfl | hb
      · rfl
      · exact absurd (e ▸ List.mem_map_of_mem hb) h.1
    · rcases hb with rfl | hb
      · exact absurd (e ▸ List.mem_map_of_mem ha) h.1
      · exact ih h.2 ha hb

theorem sortedSpecs_perm (l : List (Nat × Option String)) : (sortedSpecs l).Perm l :=
  List.mergeSort_perm _ _

theorem sortedSpecs_sorted (l : List (Nat × Option String)) :
    (sortedSpecs l).Pairwise (fun a b => a.1 ≤ b.1) := by
  have := List.pairwise_mergeSort (le := fun (a b : Nat × Option String) => decide (a.1 ≤ b.1))
    (fun a b c hab hbc => by
      simp only [decide_eq_true_eq] at hab hbc ⊢; omega)
    (fun a b => by
      simp only [Bool.or_eq_true, decide_eq_true_eq]; omega) l
  exact this.imp (fun h => by simpa using h)

theorem specs_order_independent {l₁ l₂ : List (Nat × Option String)} (hp : l₁.Perm l₂)
    (hnd : (l₁.map (·.1)).Nodup) : sortedSpecs l₁ = sortedSpecs l₂ := by
  apply List.Perm.eq_of_pairwise (le := fun a b => a.1 ≤ b.1) _ (sortedSpecs_sorted l₁) (sortedSpecs_sorted l₂)
  · exact (sortedSpecs_perm l₁).trans (hp.trans (sortedSpecs_perm l₂).symm)
  · intro a b ha hb hab hba
    have ha' : a ∈ l₁ := (sortedSpecs_perm l₁).mem_iff.mp ha
    have hb' : b ∈ l₁ := hp.mem_iff.mpr ((sortedSpecs_perm l₂).mem_iff.mp hb)
    exact eq_of_nodup_map (·.1) l₁ hnd ha' hb' (by omega)

/-! ### the duplicate-set check -/

theorem foldl_addName_error (f : List String) (e : String) : f.foldl addName (.error e) = .error e := by
  induction f with
  | nil => rfl
  | cons n rest ih => simp only [List.foldl_cons, addName]; exact ih

theorem foldl_addName_ok (f acc a : List String) (h : f.foldl addName (.ok acc) = .ok a) :
    a = acc ++ f ∧ (acc.Nodup → a.Nodup) := by
  induction f generalizing acc with
  | nil =>
    simp only [List.foldl_nil, Except.ok.injEq] at h
    subst h; simp
  | cons n rest ih =>
    simp only [List.foldl_cons, addName] at h
    split at h
    · rw [foldl_addName_error] at h; cases h
    · rename_i hc
      obtain ⟨e, hn⟩ := ih _ h
      refine ⟨by rw [e, List.append_assoc]; rfl, fun hacc => hn ?_⟩
      have hnot : n ∉ acc := by
        intro hm; exact hc (List.contains_iff_mem.mpr hm)
      rw [List.nodup_append]
      refine ⟨hacc, by simp, ?_⟩
      intro x hx y hy
      simp only [List.mem_singleton] at hy
      subst hy
      intro e; subst e; exact hnot hx

theorem foldl_addName_err (f acc : List String) (n : String) (h : f.foldl addName (.ok acc) = .error n) :
    2 ≤ (acc ++ f).count n := by
  induction f generalizing acc with
  | nil => simp only [List.foldl_nil] at h; cases h
  | cons m rest ih =>
    simp only [List.foldl_cons, addName] at h
    split at h
    · rename_i hc
      rw [foldl_addName_error] at h
      have e : m = n := Except.error.inj h
      subst e
      have hm : m ∈ acc := List.contains_iff_mem.mp hc
      have : 1 ≤ acc.count m := List.one_le_count_iff.mpr hm
      rw [List.count_append, List.count_cons_self]
      omega
    · have := ih _ h
      rw [List.append_assoc] at this
      exact this

theorem mergeSets_ok_gen (files : List (List String)) (acc out : List String)
    (h : mergeSets files acc = .ok out) : out = acc ++ files.flatten ∧ (acc.Nodup → out.Nodup) := by
  induction files generalizing acc with
  | nil =>
    simp only [mergeSets, Except.ok.injEq] at h
    subst h; simp
  | cons f fs ih =>
    simp only [mergeSets] at h
    split at h
    · cases h
    · rename_i a hf
      obtain ⟨e1, n1⟩ := foldl_addName_ok f acc a hf
      obtain ⟨e2, n2⟩ := ih a h
      refine ⟨by rw [e2, e1, List.flatten_cons, List.append_assoc], fun hacc => n2 (n1 hacc)⟩

theorem mergeSets_error_gen (files : List (List String)) (acc : List String) (n : String)
    (h : mergeSets files acc = .error n) : 2 ≤ (acc ++ files.flatten).count n := by
  induction files generalizing acc with
  | nil => simp only [mergeSets] at h; cases h
  | cons f fs ih =>
    simp only [mergeSets] at h
    split at h
    · rename_i e hf
      cases h
      have := foldl_addName_err f acc _ hf
      rw [List.flatten_cons, ← List.append_assoc, List.count_append]
      omega
    · rename_i a hf
      obtain ⟨e1, _⟩ := foldl_addName_ok f acc a hf
      have := ih a h
      rw [e1, List.append_assoc] at this
      exact this

/-- success: every set is declared exactly once, and the original order is kept -/
theorem mergeSets_ok {files : List (List String)} {out : List String} (h : mergeSets files [] = .ok out) :
    out = files.flatten ∧ out.Nodup := by
  obtain ⟨e, hn⟩ := mergeSets_ok_gen files [] out h
  exact ⟨by simpa using e, hn List.nodup_nil⟩

/-- failure: the reported name occurs at least twice -/
theorem mergeSets_error_count {files : List (List String)} {n : String} (h : mergeSets files [] = .error n) :
    2 ≤ files.flatten.count n := by
  simpa using mergeSets_error_gen files [] n h

theorem mergeSets_error {files : List (List String)} {n : String} (h : mergeSets files [] = .error n) :
    ¬ files.flatten.Nodup := by
  intro hnd
  have := List.nodup_iff_count.mp hnd n
  have := mergeSets_error_count h
  omega

/-- conversely: pairwise distinct set names are always accepted -/
theorem mergeSets_complete {files : List (List String)} (h : files.flatten.Nodup) :
    ∃ out, mergeSets files [] = .ok out := by
  cases hm : mergeSets files [] with
  | ok out => exact ⟨out, rfl⟩
  | error n => exact absurd h (mergeSets_error hm)

end Imp
