import KV.Signature
import KV.Refuse
import KV.Term
import KV.Join
/-! # C02 — every needed provider is invoked exactly once, unneeded providers never

In the emitted program (`emitted p`, fault-free semantics `T1`) the invocation of the provider of graph node `n`
is the op `T1.Op.enter n args`.

* `enter_iff_node`  : the nodes entered are exactly the provider nodes of the planned graph.
* `enter_once`      : the `enter` of a node occurs at one position of one thread only.
* `calls_exact`     : a provider is entered iff it is `Needed`; two entered nodes never share a provider.
* `run_calls_once`  : a maximal fault-free run executes every op, hence every `enter`, exactly once.
* `run_returns`     : in the final state the main thread's last op is `ret p.b.retParam`, that variable has been
                      written by the `exit` of the return node, whose wired value is the reference value. -/
namespace KV

/-! ## 0. glue -/

/-- the assembly facts of an accepted declaration -/
theorem plan_planOK {provs0 : List PSpec} {ret : Nat} {p : PlanOut} (h : plan provs0 ret = .ok p) :
    PlanOK p.g p.b p.parent p.chains := by
  obtain ⟨hg, hb, hs⟩ := plan_ok h
  have hgw := newGraph2_gwf hg
  have hpf : PoolFacts p.g (topoOrder p.g) p.b.pools := by rw [build2_pools hb]; exact poolFacts_of_build hgw _
  obtain ⟨hsf, hk⟩ := stmtFacts_of_buildStmts2 hpf hs
  exact planOK_of_build2 hgw hb hsf hk

/-- the node lists of the threads of the emitted program -/
abbrev tnodes (p : PlanOut) (t : Nat) : List T1.NodeInfo :=
  T1.threadNodes (p.parent.map (nodeInfo p.b)) (p.chains.map (·.map (nodeInfo p.b))) t

theorem emitted_eq (p : PlanOut) :
    emitted p = T1.emit (p.parent.map (nodeInfo p.b)) (p.chains.map (·.map (nodeInfo p.b))) p.b.retParam := rfl

/-- an emitted `enter n args` is the enter op of the block of `nodeInfo p.b n`, a node of that thread -/
theorem enter_mem_emitted {p : PlanOut} {t n : Nat} {args : List Nat}
    (h : T1.Op.enter n args ∈ T1.thread (emitted p) t) :
    nodeInfo p.b n ∈ tnodes p t ∧ args = (nodeInfo p.b n).args.map (·.1) ∧
      (n ∈ p.parent ∨ ∃ c ∈ p.chains, n ∈ c) := by
  rw [emitted_eq] at h
  obtain ⟨nd, hnd, hb⟩ := T1.block_of_mem h (Or.inl ⟨n, args, rfl⟩)
  obtain ⟨hid, hargs⟩ := T1.enter_mem_block hb
  obtain ⟨m, rfl, hm⟩ := threadNodes_mem hnd
  have hnm : n = m := hid
  subst hnm
  exact ⟨hnd, hargs, hm⟩

/-- a node of a thread is entered in that thread -/
theorem enter_of_node {p : PlanOut} {t n : Nat} (h : nodeInfo p.b n ∈ tnodes p t) :
    T1.Op.enter n ((nodeInfo p.b n).args.map (·.1)) ∈ T1.thread (emitted p) t := by
  rw [emitted_eq]
  refine T1.block_mem_thread h ?_
  show T1.enterOf (nodeInfo p.b n) ∈ T1.block (nodeInfo p.b n)
  simp [T1.block]

/-- members of the parent / chain lists are pool members -/
theorem thread_node_in_pool {p : PlanOut} (hok : PlanOK p.g p.b p.parent p.chains) {n : Nat}
    (hn : n ∈ p.parent ∨ ∃ c ∈ p.chains, n ∈ c) : ∃ q, n ∈ p.b.pools.getD q [] := by
  rcases hn with hn | ⟨c, hc, hn⟩
  · obtain ⟨pi, hpi⟩ := hok.stmts.parentPool
    exact ⟨pi, hpi ▸ hn⟩
  · obtain ⟨ci, hci⟩ := hok.stmts.chainPool c hc
    exact ⟨ci, hci ▸ hn⟩

/-- a pool member is a provider node of the graph -/
theorem pool_node_provider {p : PlanOut} (hok : PlanOK p.g p.b p.parent p.chains) {n q : Nat}
    (hn : n ∈ p.b.pools.getD q []) : n < p.g.nodes.length ∧ (p.g.nodes.getD n default).isArg = false := by
  obtain ⟨st1, h1, hpools, _, _, _⟩ := hok.p1
  rw [← hpools] at hn
  refine ⟨hok.order_lt n ((h1.sub q).subset hn), ?_⟩
  have hpo := h1.poolOf q n hn
  cases hia : (p.g.nodes.getD n default).isArg with
  | false => rfl
  | true =>
    have := h1.argNoPool n hia
    rw [this] at hpo; cases hpo

/-! ## 1. the entered nodes are exactly the provider nodes -/

/-- **Every provider node of the planned graph is emitted, and nothing else is.** -/
theorem enter_iff_node {provs0 : List PSpec} {ret : Nat} {p : PlanOut} (h : plan provs0 ret = .ok p) (n : Nat) :
    (∃ t args, T1.Op.enter n args ∈ T1.thread (emitted p) t) ↔
      (n < p.g.nodes.length ∧ (p.g.nodes.getD n default).isArg = false) := by
  have hok := plan_planOK h
  constructor
  · rintro ⟨t, args, hen⟩
    obtain ⟨_, _, hn⟩ := enter_mem_emitted hen
    obtain ⟨q, hq⟩ := thread_node_in_pool hok hn
    exact pool_node_provider hok hq
  · rintro ⟨hn, hna⟩
    obtain ⟨st1, h1, hpools, _, _, _⟩ := hok.p1
    have hno : n ∈ topoOrder p.g := accepted_all_in_order h n hn
    obtain ⟨q, _, hnq⟩ := h1.placed n hno hna hok.k_pos
    rw [hpools] at hnq
    obtain ⟨t, ht⟩ := mem_thread_of_node (b := p.b) (hok.stmts.cover q n hnq)
    exact ⟨t, _, enter_of_node ht⟩

/-! ## 2. one position of one thread -/

/-- in a flatMap of blocks over a strictly sorted node list, two different positions never hold enters of the
    same node -/
theorem blocks_enter_strict (pos : Nat → Nat) (l : List T1.NodeInfo)
    (hl : l.Pairwise (fun a b => pos a.id < pos b.id)) :
    (l.flatMap T1.block).Pairwise (fun a b => ∀ o x y, a = T1.Op.enter o x → b ≠ T1.Op.enter o y) := by
  rw [List.pairwise_flatMap]
  refine ⟨?_, ?_⟩
  · intro nd _
    simp only [T1.block, T1.waitsOf, T1.closesOf, T1.enterOf, T1.exitOf]
    rw [List.pairwise_append]
    refine ⟨?_, ?_, ?_⟩
    · rw [List.pairwise_map]
      exact List.pairwise_of_forall (fun _ _ o x y h => by cases h)
    · simp only [List.cons_append, List.nil_append, List.pairwise_cons, List.mem_cons, List.mem_map,
        List.mem_filter]
      refine ⟨?_, ?_, ?_⟩
      · intro b hb o x y _ hb2
        rcases hb with rfl | ⟨r, _, rfl⟩ <;> cases hb2
      · intro b _ o x y h; cases h
      · rw [List.pairwise_map]
        exact List.pairwise_of_forall (fun _ _ o x y h => by cases h)
    · intro a ha b _ o x y h
      simp only [List.mem_map, List.mem_filter] at ha
      obtain ⟨z, _, rfl⟩ := ha
      cases h
  · exact List.Pairwise.imp (fun {a b} hab u hu v hv o x y h1 h2 => by
      subst h1; subst h2
      have e1 := (T1.enter_mem_block hu).1
      have e2 := (T1.enter_mem_block hv).1
      rw [← e1, ← e2] at hab
      exact Nat.lt_irrefl _ hab) hl

theorem thread_enter_strict {main : List T1.NodeInfo} {gos : List (List T1.NodeInfo)} {pos : Nat → Nat} {N rv : Nat}
    (hf : T1.PlanFacts main gos pos N) (t : Nat) :
    (T1.thread (T1.emit main gos rv) t).Pairwise
      (fun a b => ∀ o x y, a = T1.Op.enter o x → b ≠ T1.Op.enter o y) := by
  cases t with
  | zero =>
    rw [T1.thread_emit_zero]
    simp only [T1.mainThread]
    rw [List.pairwise_append]
    refine ⟨?_, ?_, ?_⟩
    · exact List.pairwise_of_forall_mem_list (fun a ha b _ o x y h => by
        simp only [T1.spawns, List.mem_map] at ha
        obtain ⟨g, _, rfl⟩ := ha; cases h)
    · rw [List.pairwise_append]
      refine ⟨blocks_enter_strict pos main (hf.sorted 0), ?_, ?_⟩
      · exact List.pairwise_of_forall_mem_list (fun a _ b hb o x y _ h2 => by
          subst h2
          simp only [T1.tailOps, List.mem_append, List.mem_singleton] at hb
          rcases hb with hb | hb
          · split at hb <;> simp at hb
          · cases hb)
      · intro a _ b hb o x y _ h2
        subst h2
        simp only [T1.tailOps, List.mem_append, List.mem_singleton] at hb
        rcases hb with hb | hb
        · split at hb <;> simp at hb
        · cases hb
    · intro a ha b _ o x y h
      simp only [T1.spawns, List.mem_map] at ha
      obtain ⟨g, _, rfl⟩ := ha; cases h
  | succ g =>
    rw [T1.thread_emit_succ]
    exact blocks_enter_strict pos _ (hf.sorted (g + 1))

theorem opAt_lt {P : T1.Prog} {t j : Nat} {op : T1.Op} (h : T1.opAt P t j = some op) :
    j < (T1.thread P t).length := by
  apply Classical.byContradiction; intro hc
  simp [T1.opAt, List.getElem?_eq_none (Nat.le_of_not_lt hc)] at h

/-- **The `enter` of node `n` occurs at exactly one position of exactly one thread** (and with one argument list). -/
theorem enter_once {provs0 : List PSpec} {ret : Nat} {p : PlanOut} (h : plan provs0 ret = .ok p)
    {n t j t' j' : Nat} {a a' : List Nat}
    (h1 : T1.opAt (emitted p) t j = some (.enter n a)) (h2 : T1.opAt (emitted p) t' j' = some (.enter n a')) :
    t = t' ∧ j = j' := by
  have hok := plan_planOK h
  have hpf := planFacts_of_planOK hok
  have hpd := planData_of_planOK hok
  obtain ⟨hnd1, _, _⟩ := enter_mem_emitted (T1.opAt_mem h1)
  obtain ⟨hnd2, _, _⟩ := enter_mem_emitted (T1.opAt_mem h2)
  obtain ⟨htt, _⟩ := hpd.idsDistinct t t' _ _ hnd1 hnd2 rfl
  subst htt
  refine ⟨rfl, ?_⟩
  have hp := thread_enter_strict (rv := p.b.retParam) hpf t
  rw [← emitted_eq] at hp
  rw [List.pairwise_iff_getElem] at hp
  have l1 := opAt_lt h1
  have l2 := opAt_lt h2
  simp only [T1.opAt] at h1 h2
  rw [List.getElem?_eq_getElem l1] at h1
  rw [List.getElem?_eq_getElem l2] at h2
  have a1 := Option.some.inj h1
  have a2 := Option.some.inj h2
  apply Classical.byContradiction; intro hne
  rcases Nat.lt_or_gt_of_ne hne with hlt | hlt
  · exact hp j j' l1 l2 hlt n a a' a1 a2
  · exact hp j' j l2 l1 hlt n a' a a2 a1

/-- the argument list of the `enter` of a node is determined by the node -/
theorem enter_args_unique {provs0 : List PSpec} {ret : Nat} {p : PlanOut} (_h : plan provs0 ret = .ok p)
    {n t t' : Nat} {a a' : List Nat}
    (h1 : T1.Op.enter n a ∈ T1.thread (emitted p) t) (h2 : T1.Op.enter n a' ∈ T1.thread (emitted p) t') : a = a' := by
  obtain ⟨_, e1, _⟩ := enter_mem_emitted h1
  obtain ⟨_, e2, _⟩ := enter_mem_emitted h2
  rw [e1, e2]

/-! ## 4. maximal runs execute everything -/

theorem reach_pc_le {P : T1.Prog} {s : T1.Pcs} (h : T1.Reach P s) : ∀ t, T1.pc s t ≤ (T1.thread P t).length := by
  induction h with
  | init =>
    intro t
    simp [T1.pc, List.getD_eq_getElem?_getD, List.getElem?_replicate]
    split <;> simp
  | @step s t hr he ih =>
    have hlen := T1.reach_length hr
    have htl : t < s.length := by rw [hlen]; exact he.1
    intro u
    by_cases hu : u = t
    · subst hu
      rw [T1.pc_bump_self htl]
      obtain ⟨_, op, hop, _, _⟩ := he
      have := opAt_lt hop
      omega
    · rw [T1.pc_bump_other hu]; exact ih u

/-- **A maximal fault-free run has executed every op of every thread** — in particular every emitted `enter`,
    which by `enter_once` is executed exactly once. -/
theorem run_calls_once {provs0 : List PSpec} {ret : Nat} {p : PlanOut} (h : plan provs0 ret = .ok p)
    {s : T1.Pcs} (hr : T1.Reach (emitted p) s) (hmax : ∀ t, ¬ T1.Enabled (emitted p) s t) :
    ∀ t, T1.pc s t = (T1.thread (emitted p) t).length := by
  intro t
  have hle := reach_pc_le hr t
  apply Classical.byContradiction; intro hne
  have hlt : T1.pc s t < (T1.thread (emitted p) t).length := by omega
  have hop : T1.opAt (emitted p) t (T1.pc s t) = some (T1.thread (emitted p) t)[T1.pc s t] := by
    simp only [T1.opAt]; exact List.getElem?_eq_getElem hlt
  have htl : t < (emitted p).threads.length := T1.thread_nonempty_lt (T1.opAt_mem hop)
  obtain ⟨u, hu⟩ := T1.progress (plan_wf h).1 ⟨t, _, ⟨htl, hop⟩⟩
  exact hmax u hu

/-- the run-time reading of 1, 2 and 4 together: in a final state, for every provider node `n` of the planned graph
    there is exactly one executed position holding an `enter` of `n`; argument nodes have none -/
theorem run_enter_exactly_once {provs0 : List PSpec} {ret : Nat} {p : PlanOut} (h : plan provs0 ret = .ok p)
    {s : T1.Pcs} (hr : T1.Reach (emitted p) s) (hmax : ∀ t, ¬ T1.Enabled (emitted p) s t) (n : Nat) :
    (n < p.g.nodes.length ∧ (p.g.nodes.getD n default).isArg = false →
      ∃ t j a, T1.opAt (emitted p) t j = some (.enter n a) ∧ j < T1.pc s t ∧
        ∀ t' j' a', T1.opAt (emitted p) t' j' = some (.enter n a') → t' = t ∧ j' = j ∧ a' = a) ∧
    (¬ (n < p.g.nodes.length ∧ (p.g.nodes.getD n default).isArg = false) →
      ∀ t j a, T1.opAt (emitted p) t j ≠ some (.enter n a)) := by
  constructor
  · intro hn
    obtain ⟨t, a, hen⟩ := (enter_iff_node h n).mpr hn
    obtain ⟨j, hj⟩ := T1.mem_opAt hen
    refine ⟨t, j, a, hj, ?_, ?_⟩
    · rw [run_calls_once h hr hmax t]; exact opAt_lt hj
    · intro t' j' a' hj'
      obtain ⟨e1, e2⟩ := enter_once h hj' hj
      exact ⟨e1, e2, enter_args_unique h (T1.opAt_mem hj') hen⟩
  · intro hn t j a hj
    exact hn ((enter_iff_node h n).mp ⟨t, a, T1.opAt_mem hj⟩)

/-! ## 3. the entered providers are exactly the needed ones, each through one node -/

/-- the graph of a declaration whose requested type has a supplier is read off the drained BFS state -/
theorem graphOf_bfs {provs : List PSpec} {sup : SupMap} {ret rp ri : Nat} {g : Graph}
    (hg : graphOf provs sup ret = .ok g) (hl : sup.lookup ret = some (rp, ri)) :
    g.nodes = (bfsLoop provs sup (bfsFuel provs) (bfsInit rp)).nodes ∧
    g.edges = (bfsLoop provs sup (bfsFuel provs) (bfsInit rp)).edges ∧
    (bfsLoop provs sup (bfsFuel provs) (bfsInit rp)).queue = [] ∧
    g.provs = provs ∧ g.retNode = 0 ∧ g.retIdx = ri := by
  unfold graphOf at hg
  rw [hl] at hg
  simp only at hg
  split at hg
  · cases hg
  · rename_i hq
    split at hg
    · cases hg
    · simp only [pure, Except.pure] at hg
      cases hg
      refine ⟨rfl, rfl, ?_, rfl, rfl, rfl⟩
      cases hqq : (bfsLoop provs sup (bfsFuel provs) (bfsInit rp)).queue with
      | nil => rfl
      | cons a as => rw [hqq] at hq; simp at hq

/-- every non-root provider node of a BFS state is the memoised node of its provider -/
theorem bfs_nonroot_memo {st : BfsSt} {rp : Nat} (hC : CInv st rp) (hO : OutBack st) {n : Nat}
    (h0 : 0 < n) (hn : n < st.nodes.length) (hna : (st.nodes.getD n default).isArg = false) :
    st.provNode.lookup (st.nodes.getD n default).prov = some n := by
  obtain ⟨e, he, _⟩ := hO n h0 hn
  exact hC.reg n e he hna

/-- the provider of every non-root provider node is needed, through one or more steps, by the root's provider -/
theorem bfs_nonroot_needs {provs : List PSpec} {sup : SupMap} {st : BfsSt} {rp : Nat}
    (hB : BInv provs st none) (hP : EProv provs sup st) (hC : CInv st rp) (hO : OutBack st) :
    ∀ n, 0 < n → n < st.nodes.length → (st.nodes.getD n default).isArg = false →
      Relation.TransGen (Needs provs sup) rp (st.nodes.getD n default).prov := by
  intro n
  induction n using Nat.strongRecOn with
  | _ n ih =>
    intro h0 hn hna
    obtain ⟨e, he, hlt⟩ := hO n h0 hn
    obtain ⟨t, ht, hpo⟩ := hP n e he
    obtain ⟨_, hdv, _, _⟩ := hB.edgeOK n e he
    have hdl := hB.vLt _ hdv
    have hdna : (st.nodes.getD e.dst default).isArg = false := by
      cases hd : (st.nodes.getD e.dst default).isArg with
      | false => rfl
      | true => unfold reqOf at ht; rw [hd] at ht; simp at ht
    have htm : t ∈ (provs.getD (st.nodes.getD e.dst default).prov default).requires := by
      have := List.mem_of_getElem? ht
      unfold reqOf at this; rw [hdna] at this; simpa using this
    have hneeds : Needs provs sup (st.nodes.getD e.dst default).prov (st.nodes.getD n default).prov := by
      rcases hpo with ⟨q, gi, hls, _, hpp, _⟩ | ⟨_, hia, _, _⟩
      · exact ⟨t, htm, gi, by rw [hpp]; exact hls⟩
      · rw [hna] at hia; cases hia
    by_cases hd0 : e.dst = 0
    · have : (st.nodes.getD e.dst default).prov = rp := by rw [hd0, hC.root]
      rw [this] at hneeds
      exact Relation.TransGen.single hneeds
    · exact Relation.TransGen.tail (ih e.dst hlt (by omega) hdl hdna) hneeds

/-- **One node per provider.**  Two provider nodes of the graph of an accepted declaration that carry the same
    provider are the same node: non-root nodes are memoised (`provNode`), and the root's provider cannot be
    rediscovered because that would be a dependency cycle, which `plan` refuses. -/
theorem provider_node_inj {provs0 : List PSpec} {ret : Nat} {p : PlanOut} (h : plan provs0 ret = .ok p)
    {n n' : Nat} (hn : n < p.g.nodes.length) (hn' : n' < p.g.nodes.length)
    (hna : (p.g.nodes.getD n default).isArg = false) (hna' : (p.g.nodes.getD n' default).isArg = false)
    (hpq : (p.g.nodes.getD n default).prov = (p.g.nodes.getD n' default).prov) : n = n' := by
  obtain ⟨provs, sup, hs⟩ := plan_supplierMap h
  obtain ⟨rp, ri, hl, _⟩ := plan_ret_supplied h hs
  have hg := (plan_ok h).1
  rw [newGraph2_of_supplierMap ret hs] at hg
  obtain ⟨hnodes, _, hq, _, _, _⟩ := graphOf_bfs hg hl
  have hsup := supplierMap_supOK hs
  have hB0 := bfsInit_inv provs rp
  have hB := bfsLoop_inv hsup (bfsFuel provs) hB0
  have hP := bfsLoop_prov hsup (bfsFuel provs) hB0 (bfsInit_prov provs sup rp)
  have hC := bfsLoop_cinv hsup (bfsFuel provs) hB0 (bfsInit_cinv rp)
  have hO : OutBack (bfsLoop provs sup (bfsFuel provs) (bfsInit rp)) := by
    apply bfsLoop_outBack hsup (bfsFuel provs) hB0
    intro m h0 hm
    simp [bfsInit] at hm; omega
  rw [hnodes] at hn hn' hna hna' hpq
  generalize bfsLoop provs sup (bfsFuel provs) (bfsInit rp) = st at hB hP hC hO hn hn' hna hna' hpq
  -- the root's provider is not the provider of another node
  have hroot : ∀ m, 0 < m → m < st.nodes.length → (st.nodes.getD m default).isArg = false →
      (st.nodes.getD m default).prov = rp → False := by
    intro m h0 hm hma hmp
    have hcyc := bfs_nonroot_needs hB hP hC hO m h0 hm hma
    rw [hmp] at hcyc
    obtain ⟨e, he⟩ := cycle_refused (provs0 := provs0) (ret := ret) (show expand provs0 = .ok (provs, sup) from hs) hl
      (Reach.refl rp) hcyc
    rw [h] at he; cases he
  by_cases h0 : n = 0
  · by_cases h0' : n' = 0
    · rw [h0, h0']
    · exfalso
      apply hroot n' (by omega) hn' hna'
      rw [← hpq, h0, hC.root]
  · by_cases h0' : n' = 0
    · exfalso
      apply hroot n (by omega) hn hna
      rw [hpq, h0', hC.root]
    · have m1 := bfs_nonroot_memo hC hO (by omega) hn hna
      have m2 := bfs_nonroot_memo hC hO (by omega) hn' hna'
      rw [hpq, m2] at m1
      exact (Option.some.inj m1).symm

/-- **The providers invoked are exactly the needed ones, and each through a single node.**  With the supplier map
    `(provs, sup)` of the declaration: provider index `q` has an emitted `enter` iff `q` is `Needed` for `ret`;
    and two emitted provider nodes with the same provider index are the same node. -/
theorem calls_exact {provs0 provs : List PSpec} {sup : SupMap} {ret : Nat} {p : PlanOut}
    (h : plan provs0 ret = .ok p) (hs : supplierMap provs0 = .ok (provs, sup)) :
    (∀ q, (∃ n t args, T1.Op.enter n args ∈ T1.thread (emitted p) t ∧ (p.g.nodes.getD n default).isArg = false ∧
        (p.g.nodes.getD n default).prov = q) ↔ Needed provs sup ret q) ∧
    (∀ n n' t t' args args', T1.Op.enter n args ∈ T1.thread (emitted p) t →
      T1.Op.enter n' args' ∈ T1.thread (emitted p) t' →
      (p.g.nodes.getD n default).prov = (p.g.nodes.getD n' default).prov → n = n') := by
  obtain ⟨_, hneed⟩ := nodes_are_needed h hs
  constructor
  · intro q
    rw [← hneed q]
    constructor
    · rintro ⟨n, t, args, hen, hna, hpq⟩
      exact ⟨n, ((enter_iff_node h n).mp ⟨t, args, hen⟩).1, hna, hpq⟩
    · rintro ⟨n, hn, hna, hpq⟩
      obtain ⟨t, args, hen⟩ := (enter_iff_node h n).mpr ⟨hn, hna⟩
      exact ⟨n, t, args, hen, hna, hpq⟩
  · intro n n' t t' args args' hen hen' hpq
    obtain ⟨hn, hna⟩ := (enter_iff_node h n).mp ⟨t, args, hen⟩
    obtain ⟨hn', hna'⟩ := (enter_iff_node h n').mp ⟨t', args', hen'⟩
    exact provider_node_inj h hn hn' hna hna' hpq

/-- **A needed provider has exactly one `enter`; an unneeded provider has none.** -/
theorem needed_called_once {provs0 provs : List PSpec} {sup : SupMap} {ret : Nat} {p : PlanOut}
    (h : plan provs0 ret = .ok p) (hs : supplierMap provs0 = .ok (provs, sup)) (q : Nat) :
    (Needed provs sup ret q →
      ∃ n t j a, T1.opAt (emitted p) t j = some (.enter n a) ∧ (p.g.nodes.getD n default).prov = q ∧
        ∀ n' t' j' a', T1.opAt (emitted p) t' j' = some (.enter n' a') → (p.g.nodes.getD n' default).prov = q →
          n' = n ∧ t' = t ∧ j' = j ∧ a' = a) ∧
    (¬ Needed provs sup ret q →
      ∀ n t j a, T1.opAt (emitted p) t j = some (.enter n a) → (p.g.nodes.getD n default).prov ≠ q) := by
  obtain ⟨hex, hinj⟩ := calls_exact h hs
  constructor
  · intro hq
    obtain ⟨n, t, a, hen, _, hpq⟩ := (hex q).mpr hq
    obtain ⟨j, hj⟩ := T1.mem_opAt hen
    refine ⟨n, t, j, a, hj, hpq, ?_⟩
    intro n' t' j' a' hj' hpq'
    have hnn : n' = n := hinj n' n t' t a' a (T1.opAt_mem hj') hen (by rw [hpq, hpq'])
    subst hnn
    obtain ⟨e1, e2⟩ := enter_once h hj' hj
    exact ⟨rfl, e1, e2, enter_args_unique h (T1.opAt_mem hj') hen⟩
  · intro hnq n t j a hj hpq
    apply hnq
    have hen := T1.opAt_mem hj
    exact (hex q).mp ⟨n, t, a, hen, ((enter_iff_node h n).mp ⟨t, a, hen⟩).2, hpq⟩

/-! ## 5. the returned variable -/

theorem build2_ret {g : Graph} {b : BuildOut} (hb : build2 g = .ok b) :
    b.retParam = retParamOf g (bpass1 g (topoOrder g) (maxAntichain g)) ∧
    b.nodeRets = (bpass1 g (topoOrder g) (maxAntichain g)).nodeRets ∧ g.retNode ∈ topoOrder g := by
  simp only [build2] at hb
  split at hb
  · rename_i hc
    cases hb
    exact ⟨rfl, rfl, by simpa using hc⟩
  · cases hb

/-- the `exit` of a node of a thread, with the node's result variables, is in that thread -/
theorem exit_of_node {p : PlanOut} {t n : Nat} (h : nodeInfo p.b n ∈ tnodes p t) :
    T1.Op.exit n (p.b.nodeRets.getD n []) ∈ T1.thread (emitted p) t := by
  rw [emitted_eq]
  have hx := T1.block_mem_thread (rv := p.b.retParam) h (T1.exit_in_block (nodeInfo p.b n))
  have : T1.exitOf (nodeInfo p.b n) = T1.Op.exit n (p.b.nodeRets.getD n []) := by
    simp only [T1.exitOf, nodeInfo, List.map_map]
    congr 1
    exact List.map_id'' (fun _ => rfl) _
  rw [this] at hx
  exact hx

/-- **The returned variable is the one the graph designates**: the return node is a provider node of the graph and
    `p.b.retParam` is its result variable number `p.g.retIdx` — the (node, group) pair `GraphVal` reads. -/
theorem ret_var_wired {provs0 : List PSpec} {ret : Nat} {p : PlanOut} (h : plan provs0 ret = .ok p) :
    p.g.retNode < p.g.nodes.length ∧ (p.g.nodes.getD p.g.retNode default).isArg = false ∧
    (p.b.nodeRets.getD p.g.retNode [])[p.g.retIdx]? = some p.b.retParam := by
  obtain ⟨provs, sup, hs⟩ := plan_supplierMap h
  obtain ⟨rp, ri, hl, _⟩ := plan_ret_supplied h hs
  obtain ⟨hg0, hb, _⟩ := plan_ok h
  have hg := hg0
  rw [newGraph2_of_supplierMap ret hs] at hg
  obtain ⟨hnodes, _, _, hprovs, hretN, hretI⟩ := graphOf_bfs hg hl
  have hsup := supplierMap_supOK hs
  have hroot : p.g.nodes.getD 0 default = { isArg := false, prov := rp } := by
    rw [hnodes]; exact bfsLoop_root provs sup (bfsFuel provs) rp
  obtain ⟨hrp, hnr, hmem⟩ := build2_ret hb
  have hgw := newGraph2_gwf hg0
  obtain ⟨_, hnd, hlt⟩ := topoOrder_sound hgw.toGWF
  have h1 := bpass1_inv (g := p.g) (topoOrder p.g) (maxAntichain p.g) hnd hlt
  rw [hretN] at hmem ⊢
  have hna : (p.g.nodes.getD 0 default).isArg = false := by rw [hroot]
  refine ⟨hlt 0 hmem, hna, ?_⟩
  have hlen := h1.retsLen 0 hmem
  have hia : isArgNode p.g 0 = false := hna
  rw [hia, hroot, hprovs] at hlen
  simp only [Bool.false_eq_true, ↓reduceIte] at hlen
  have hri : p.g.retIdx < (p.b.nodeRets.getD 0 []).length := by
    rw [hnr, hlen, hretI]; exact hsup ret rp ri hl
  rw [List.getElem?_eq_getElem hri, hrp]
  simp only [retParamOf, hretN, hna, Bool.false_eq_true, ↓reduceIte]
  rw [← hnr, getD_eq_getElem' _ _ _ hri]

theorem main_thread_last (p : PlanOut) :
    (T1.thread (emitted p) 0).getLast? = some (.ret p.b.retParam) := by
  rw [emitted_eq, T1.thread_emit_zero]
  simp [T1.mainThread, T1.tailOps]

/-- **The run-time result.**  In every maximal fault-free run of the program emitted for an accepted declaration:
    the main thread's last op is `ret p.b.retParam` and it has been executed; the return node's `exit`, which
    writes the node's result variables, has been executed, and `p.b.retParam` is its result number `p.g.retIdx`;
    so the returned variable has been written (it is not a parameter). -/
theorem run_returns {provs0 : List PSpec} {ret : Nat} {p : PlanOut} (h : plan provs0 ret = .ok p)
    {s : T1.Pcs} (hr : T1.Reach (emitted p) s) (hmax : ∀ t, ¬ T1.Enabled (emitted p) s t) :
    (T1.thread (emitted p) 0).getLast? = some (.ret p.b.retParam) ∧
    0 < T1.pc s 0 ∧ T1.opAt (emitted p) 0 (T1.pc s 0 - 1) = some (.ret p.b.retParam) ∧
    (∃ t j, T1.opAt (emitted p) t j = some (.exit p.g.retNode (p.b.nodeRets.getD p.g.retNode [])) ∧ j < T1.pc s t) ∧
    (p.b.nodeRets.getD p.g.retNode [])[p.g.retIdx]? = some p.b.retParam ∧
    T1.written (emitted p) s p.b.retParam ∧ ¬ isParamOf p.b p.b.retParam := by
  have hfin := run_calls_once h hr hmax
  have hlast := main_thread_last p
  obtain ⟨hrl, hrna, hrv⟩ := ret_var_wired h
  have hok := plan_planOK h
  -- the return node's exit
  obtain ⟨t, a, hen⟩ := (enter_iff_node h p.g.retNode).mpr ⟨hrl, hrna⟩
  obtain ⟨hnd, _, _⟩ := enter_mem_emitted hen
  obtain ⟨j, hj⟩ := T1.mem_opAt (exit_of_node hnd)
  have hjl : j < T1.pc s t := by rw [hfin t]; exact opAt_lt hj
  have hvmem : p.b.retParam ∈ p.b.nodeRets.getD p.g.retNode [] := List.mem_of_getElem? hrv
  have hlen0 : 0 < (T1.thread (emitted p) 0).length := by
    cases hth : T1.thread (emitted p) 0 with
    | nil => rw [hth] at hlast; cases hlast
    | cons x xs => simp
  refine ⟨hlast, by rw [hfin 0]; exact hlen0, ?_, ⟨t, j, hj, hjl⟩, hrv, ⟨t, j, _, _, hj, hvmem, hjl⟩, ?_⟩
  · rw [hfin 0]
    simp only [T1.opAt]
    rw [← List.getLast?_eq_getElem?]; exact hlast
  · obtain ⟨st1, h1, _, hrets, _, params0, h2, _, hpArg, _⟩ := hok.p1
    intro hpar
    have e1 := h2.pisArg p.b.retParam
    simp only at e1
    have e2 := h1.retsArg p.g.retNode p.b.retParam (by rw [hrets]; exact hvmem)
    have : isArgNode p.g p.g.retNode = true := by
      rw [← e2, ← hpArg, ← e1]; exact hpar
    have hc : isArgNode p.g p.g.retNode = false := hrna
    rw [hc] at this; cases this

/-! ## concrete instances -/

/-- the node ids of the `enter` ops of a program, thread by thread -/
def entersOf (P : T1.Prog) : List Nat :=
  P.threads.flatMap (fun th => th.filterMap (fun op => match op with | .enter o _ => some o | _ => none))

/-- the provider indices entered by the program emitted for a declaration -/
def enteredProvs (provs0 : List PSpec) (ret : Nat) : Option (List Nat) :=
  match plan provs0 ret with
  | .ok p => some ((entersOf (emitted p)).map (fun n => (p.g.nodes.getD n default).prov))
  | .error _ => none

/-- `exDecl` (KV/Signature.lean): asking for type 1 invokes provider 0 once and never provider 1 … -/
example : enteredProvs exDecl 1 = some [0] := by decide
/-- … and asking for type 3 invokes provider 1 once and never provider 0 -/
example : enteredProvs exDecl 3 = some [1] := by decide

/-- a diamond with two Async providers and an unneeded provider (4): type 1 needs providers 0,1,2,3 -/
def diamondA : List PSpec :=
  [ { provides := [[1]], requires := [2, 3] }, { provides := [[2]], requires := [4], isAsync := true },
    { provides := [[3]], requires := [4], isAsync := true }, { provides := [[4]], requires := [9] },
    { provides := [[5]], requires := [1] } ]

/-- two threads; every needed provider is entered once (3 and 1 in the main thread, 2 and 0 in the goroutine),
    the unneeded provider 4 never -/
example : enteredProvs diamondA 1 = some [3, 1, 2, 0] := by decide

/-- the hypotheses of the theorems are met by these declarations -/
example : ∃ p, plan diamondA 1 = .ok p := ⟨_, rfl⟩
example : (match plan diamondA 1 with | .ok p => (emitted p).threads.length | .error _ => 0) = 2 := by decide

end KV
#print axioms KV.enter_iff_node
#print axioms KV.enter_once
#print axioms KV.run_calls_once
#print axioms KV.run_enter_exactly_once
#print axioms KV.calls_exact
#print axioms KV.needed_called_once
#print axioms KV.ret_var_wired
#print axioms KV.run_returns
