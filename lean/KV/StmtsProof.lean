import KV.Stmts
import KV.Sync
import KV.Assemble
/-! Prototype (scratch): facts about `buildStmts2`: the main thread is one pool, every other
    non-empty pool becomes exactly one goroutine. -/
namespace KV

structure PoolFacts (g : Graph) (order : List Nat) (pools : List (List Nat)) : Prop where
  nodup : order.Nodup
  lt : ∀ m ∈ order, m < g.nodes.length
  sub : ∀ i, (pools.getD i []).Sublist order
  closed : DepsClosed g order
  placed : 0 < pools.length → ∀ n ∈ order, isArgNode g n = false → ∃ q, q < pools.length ∧ n ∈ pools.getD q []
  syncInit : ∀ i, i < pools.length → pools.getD i [] ≠ [] → isAsyncNode g (firstOf pools i) = false →
    isInitial g pools i = true

structure RInv (g : Graph) (pools : List (List Nat)) (pidx : Nat) (st : RSt) : Prop where
  visLt : ∀ v ∈ st.visited, v < pools.length ∧ pools.getD v [] ≠ []
  visNodup : st.visited.Nodup
  split : ∀ v, v ∈ st.visited ↔ (v ∈ st.parentIdx ∨ v ∈ st.chainIdx)
  procArgs : ∀ d, d < g.nodes.length → isArgNode g d = true → d ∈ st.processed
  procPools : ∀ v ∈ st.visited, ∀ d ∈ pools.getD v [], d ∈ st.processed
  initVisited : ∀ i, i < pools.length → isInitial g pools i = true → i ∈ st.visited
  parentOne : st.parentIdx = [pidx]
  chainOK : (pidx :: st.chainIdx).Nodup

theorem chain_snoc_nodup {pidx i : Nat} {cs visited parentIdx : List Nat}
    (hsplit : ∀ v, v ∈ visited ↔ (v ∈ parentIdx ∨ v ∈ cs)) (hpar : parentIdx = [pidx])
    (hc : (pidx :: cs).Nodup) (hi : i ∉ visited) : (pidx :: (cs ++ [i])).Nodup := by
  have hip : i ≠ pidx := fun e => hi ((hsplit i).mpr (Or.inl (by rw [hpar, e]; simp)))
  have hic : i ∉ cs := fun e => hi ((hsplit i).mpr (Or.inr e))
  rw [List.nodup_cons] at hc ⊢
  refine ⟨?_, ?_⟩
  · intro hm
    simp only [List.mem_append, List.mem_singleton] at hm
    rcases hm with hm | hm
    · exact hc.1 hm
    · exact hip hm.symm
  · rw [List.nodup_append]
    refine ⟨hc.2, by simp, ?_⟩
    intro a ha b hb; simp at hb; subst hb
    intro hab; subst hab; exact hic ha

theorem roundStep_inv {g : Graph} {order : List Nat} {pools : List (List Nat)} {pidx : Nat}
    (hp : PoolFacts g order pools) {st : RSt} (h : RInv g pools pidx st) (i : Nat) (hi : i < pools.length) :
    RInv g pools pidx (roundStep g pools st i) := by
  unfold roundStep
  split
  · exact h
  · rename_i hcond
    simp only [Bool.or_eq_true, not_or, Bool.not_eq_true] at hcond
    obtain ⟨hnv, hne⟩ := hcond
    have hnv' : i ∉ st.visited := by simpa using hnv
    have hne' : pools.getD i [] ≠ [] := by
      intro he; rw [he] at hne; simp at hne
    split
    · split
      · -- async first node: becomes a goroutine
        refine { visLt := ?_, visNodup := ?_, split := ?_, procArgs := ?_, procPools := ?_, initVisited := ?_,
                 parentOne := h.parentOne, chainOK := chain_snoc_nodup h.split h.parentOne h.chainOK hnv' }
        · intro v hv
          simp only [List.mem_append, List.mem_singleton] at hv
          rcases hv with hv | rfl
          · exact h.visLt v hv
          · exact ⟨hi, hne'⟩
        · rw [List.nodup_append]
          refine ⟨h.visNodup, by simp, ?_⟩
          intro a ha b hb; simp at hb; subst hb
          intro hab; subst hab; exact hnv' ha
        · intro v
          simp only [List.mem_append, List.mem_singleton]
          rw [h.split v]
          constructor
          · rintro ((h1 | h1) | h1)
            · exact Or.inl h1
            · exact Or.inr (Or.inl h1)
            · exact Or.inr (Or.inr h1)
          · rintro (h1 | h1 | h1)
            · exact Or.inl (Or.inl h1)
            · exact Or.inl (Or.inr h1)
            · exact Or.inr h1
        · intro d hd hda
          exact List.mem_append_left _ (h.procArgs d hd hda)
        · intro v hv d hd
          simp only [List.mem_append, List.mem_singleton] at hv
          rcases hv with hv | rfl
          · exact List.mem_append_left _ (h.procPools v hv d hd)
          · exact List.mem_append_right _ hd
        · intro j hj hjI
          exact List.mem_append_left _ (h.initVisited j hj hjI)
      · -- sync first node: impossible, such a pool is initial hence already visited
        rename_i hsync
        have hs : isAsyncNode g (firstOf pools i) = false := by simpa using hsync
        exact absurd (h.initVisited i hi (hp.syncInit i hi hne' hs)) hnv'
    · exact h

theorem foldl_roundStep_inv {g : Graph} {order : List Nat} {pools : List (List Nat)} {pidx : Nat}
    (hp : PoolFacts g order pools) (l : List Nat) (hl : ∀ i ∈ l, i < pools.length) {st : RSt}
    (h : RInv g pools pidx st) : RInv g pools pidx (l.foldl (roundStep g pools) st) := by
  induction l generalizing st with
  | nil => exact h
  | cons x xs ih =>
    simp only [List.foldl_cons]
    exact ih (fun i hi => hl i (List.mem_cons_of_mem _ hi)) (roundStep_inv hp h x (hl x (List.mem_cons_self ..)))

theorem round_inv {g : Graph} {order : List Nat} {pools : List (List Nat)} {pidx : Nat}
    (hp : PoolFacts g order pools) {st : RSt} (h : RInv g pools pidx st) :
    RInv g pools pidx (round g pools st) := by
  unfold round
  apply foldl_roundStep_inv hp _ (fun i hi => by simpa using hi)
  exact { visLt := h.visLt, visNodup := h.visNodup, split := h.split, procArgs := h.procArgs,
          procPools := h.procPools, initVisited := h.initVisited, parentOne := h.parentOne, chainOK := h.chainOK }

theorem rounds_inv {g : Graph} {order : List Nat} {pools : List (List Nat)} {pidx : Nat}
    (hp : PoolFacts g order pools) (k : Nat) {st : RSt} (h : RInv g pools pidx st) :
    RInv g pools pidx (rounds g pools k st) := by
  induction k generalizing st with
  | zero => exact h
  | succ k ih =>
    simp only [rounds]
    split
    · exact ih (round_inv hp h)
    · exact round_inv hp h

/-! ### the initial fold -/

/-- `RInv` without the "all initial pools visited" clause -/
structure RInv0 (g : Graph) (pools : List (List Nat)) (pidx : Nat) (st : RSt) : Prop where
  visLt : ∀ v ∈ st.visited, v < pools.length ∧ pools.getD v [] ≠ []
  visNodup : st.visited.Nodup
  split : ∀ v, v ∈ st.visited ↔ (v ∈ st.parentIdx ∨ v ∈ st.chainIdx)
  procArgs : ∀ d, d < g.nodes.length → isArgNode g d = true → d ∈ st.processed
  procPools : ∀ v ∈ st.visited, ∀ d ∈ pools.getD v [], d ∈ st.processed
  parentOne : st.parentIdx = [pidx]
  chainOK : (pidx :: st.chainIdx).Nodup

theorem initStep_inv {g : Graph} {pools : List (List Nat)} {pidx : Nat} {st : RSt}
    (h : RInv0 g pools pidx st) (i : Nat) (hi : i < pools.length) (hne : pools.getD i [] ≠ []) :
    RInv0 g pools pidx (initStep pools st i) ∧ (∀ v ∈ st.visited, v ∈ (initStep pools st i).visited) ∧
      i ∈ (initStep pools st i).visited := by
  unfold initStep
  split
  · rename_i hc
    exact ⟨h, fun v hv => hv, by simpa using hc⟩
  · rename_i hc
    have hnv : i ∉ st.visited := by simpa using hc
    refine ⟨?_, fun v hv => List.mem_append_left _ hv, by simp⟩
    refine { visLt := ?_, visNodup := ?_, split := ?_, procArgs := ?_, procPools := ?_, parentOne := h.parentOne,
             chainOK := chain_snoc_nodup h.split h.parentOne h.chainOK hnv }
    · intro v hv
      simp only [List.mem_append, List.mem_singleton] at hv
      rcases hv with hv | rfl
      · exact h.visLt v hv
      · exact ⟨hi, hne⟩
    · rw [List.nodup_append]
      refine ⟨h.visNodup, by simp, ?_⟩
      intro a ha b hb; simp at hb; subst hb
      intro hab; subst hab; exact hnv ha
    · intro v
      simp only [List.mem_append, List.mem_singleton]
      rw [h.split v]
      constructor
      · rintro ((h1 | h1) | h1)
        · exact Or.inl h1
        · exact Or.inr (Or.inl h1)
        · exact Or.inr (Or.inr h1)
      · rintro (h1 | h1 | h1)
        · exact Or.inl (Or.inl h1)
        · exact Or.inl (Or.inr h1)
        · exact Or.inr h1
    · intro d hd hda
      exact List.mem_append_left _ (h.procArgs d hd hda)
    · intro v hv d hd
      simp only [List.mem_append, List.mem_singleton] at hv
      rcases hv with hv | rfl
      · exact List.mem_append_left _ (h.procPools v hv d hd)
      · exact List.mem_append_right _ hd

theorem foldl_initStep_inv {g : Graph} {pools : List (List Nat)} {pidx : Nat} (l : List Nat)
    (hl : ∀ i ∈ l, i < pools.length ∧ pools.getD i [] ≠ []) {st : RSt} (h : RInv0 g pools pidx st) :
    RInv0 g pools pidx (l.foldl (initStep pools) st) ∧
      (∀ v ∈ st.visited, v ∈ (l.foldl (initStep pools) st).visited) ∧
      (∀ i ∈ l, i ∈ (l.foldl (initStep pools) st).visited) := by
  induction l generalizing st with
  | nil => exact ⟨h, fun v hv => hv, by simp⟩
  | cons x xs ih =>
    simp only [List.foldl_cons]
    obtain ⟨hx1, hx2⟩ := hl x (List.mem_cons_self ..)
    obtain ⟨h1, hmono, hxin⟩ := initStep_inv h x hx1 hx2
    obtain ⟨h2, hmono2, hall⟩ := ih (fun i hi => hl i (List.mem_cons_of_mem _ hi)) h1
    refine ⟨h2, fun v hv => hmono2 v (hmono v hv), ?_⟩
    intro i hi
    simp only [List.mem_cons] at hi
    rcases hi with rfl | hi
    · exact hmono2 _ hxin
    · exact hall i hi

theorem isInitial_nonempty {g : Graph} {pools : List (List Nat)} {i : Nat} (h : isInitial g pools i = true) :
    pools.getD i [] ≠ [] := by
  intro he
  simp only [isInitial, he, List.isEmpty_nil, Bool.not_true, Bool.false_and] at h
  cases h

theorem mem_argNodesOf {g : Graph} {d : Nat} (hd : d < g.nodes.length) (ha : isArgNode g d = true) :
    d ∈ argNodesOf g := by
  simp only [argNodesOf, List.mem_filter, List.mem_range]
  exact ⟨hd, ha⟩

/-- the state before the rounds satisfies the full invariant -/
theorem init_state_inv {g : Graph} {pools : List (List Nat)} (initial : List Nat)
    (hinit : initial = (List.range pools.length).filter (isInitial g pools)) (pidx : Nat) (hpi : pidx ∈ initial) :
    RInv g pools pidx (initial.foldl (initStep pools)
      { visited := [pidx], processed := argNodesOf g ++ pools.getD pidx [], chainIdx := [], parentIdx := [pidx],
        progress := false }) := by
  have hmemI : ∀ i ∈ initial, i < pools.length ∧ isInitial g pools i = true := by
    intro i hi; rw [hinit] at hi; simpa using hi
  have h0 : RInv0 g pools pidx
      { visited := [pidx], processed := argNodesOf g ++ pools.getD pidx [], chainIdx := [], parentIdx := [pidx],
        progress := false } := {
    visLt := by
      intro v hv; simp at hv; subst hv
      exact ⟨(hmemI _ hpi).1, isInitial_nonempty (hmemI _ hpi).2⟩
    visNodup := by simp
    split := by intro v; simp
    procArgs := fun d hd ha => List.mem_append_left _ (mem_argNodesOf hd ha)
    procPools := by
      intro v hv d hd; simp at hv; subst hv
      exact List.mem_append_right _ hd
    parentOne := rfl
    chainOK := by simp }
  obtain ⟨h1, _, hall⟩ := foldl_initStep_inv initial
    (fun i hi => ⟨(hmemI i hi).1, isInitial_nonempty (hmemI i hi).2⟩) h0
  exact { visLt := h1.visLt, visNodup := h1.visNodup, split := h1.split, procArgs := h1.procArgs,
          procPools := h1.procPools, parentOne := h1.parentOne, chainOK := h1.chainOK,
          initVisited := fun i hi hI => hall i (by rw [hinit]; simpa using ⟨hi, hI⟩) }

/-! ### completeness: every non-empty pool is eventually emitted -/

theorem roundStep_cases (g : Graph) (pools : List (List Nat)) (st : RSt) (i : Nat) :
    (roundStep g pools st i = st ∧
      (i ∈ st.visited ∨ pools.getD i [] = [] ∨ depsIn g (firstOf pools i) st.processed = false)) ∨
    ((roundStep g pools st i).progress = true ∧ (roundStep g pools st i).visited = st.visited ++ [i]) := by
  unfold roundStep
  split
  · rename_i hc
    left
    refine ⟨rfl, ?_⟩
    simp only [Bool.or_eq_true] at hc
    rcases hc with hc | hc
    · exact Or.inl (by simpa using hc)
    · exact Or.inr (Or.inl (by simpa using hc))
  · split
    · split
      · exact Or.inr ⟨rfl, rfl⟩
      · exact Or.inr ⟨rfl, rfl⟩
    · rename_i hd
      exact Or.inl ⟨rfl, Or.inr (Or.inr (by simpa using hd))⟩

theorem roundStep_progress_mono (g : Graph) (pools : List (List Nat)) (st : RSt) (i : Nat)
    (h : st.progress = true) : (roundStep g pools st i).progress = true := by
  rcases roundStep_cases g pools st i with ⟨he, _⟩ | ⟨hp, _⟩
  · rw [he]; exact h
  · exact hp

theorem foldl_progress_mono (g : Graph) (pools : List (List Nat)) (l : List Nat) (st : RSt)
    (h : st.progress = true) : (l.foldl (roundStep g pools) st).progress = true := by
  induction l generalizing st with
  | nil => exact h
  | cons x xs ih => exact ih _ (roundStep_progress_mono g pools st x h)

theorem foldl_noprogress (g : Graph) (pools : List (List Nat)) (l : List Nat) (st : RSt)
    (h : (l.foldl (roundStep g pools) st).progress = false) :
    l.foldl (roundStep g pools) st = st ∧
    ∀ i ∈ l, (i ∈ st.visited ∨ pools.getD i [] = [] ∨ depsIn g (firstOf pools i) st.processed = false) := by
  induction l generalizing st with
  | nil => exact ⟨rfl, by simp⟩
  | cons x xs ih =>
    simp only [List.foldl_cons] at h ⊢
    rcases roundStep_cases g pools st x with ⟨he, hx⟩ | ⟨hp, _⟩
    · rw [he] at h ⊢
      obtain ⟨h1, h2⟩ := ih st h
      refine ⟨h1, ?_⟩
      intro i hi
      simp only [List.mem_cons] at hi
      rcases hi with rfl | hi
      · exact hx
      · exact h2 i hi
    · have := foldl_progress_mono g pools xs _ hp
      rw [this] at h; cases h

theorem foldl_visited_grow (g : Graph) (pools : List (List Nat)) (l : List Nat) (st : RSt) :
    st.visited.length ≤ (l.foldl (roundStep g pools) st).visited.length ∧
    ((l.foldl (roundStep g pools) st).progress = true → st.progress = true ∨
      st.visited.length < (l.foldl (roundStep g pools) st).visited.length) := by
  induction l generalizing st with
  | nil => exact ⟨Nat.le_refl _, fun h => Or.inl h⟩
  | cons x xs ih =>
    simp only [List.foldl_cons]
    obtain ⟨h1, h2⟩ := ih (roundStep g pools st x)
    rcases roundStep_cases g pools st x with ⟨he, _⟩ | ⟨hp, hv⟩
    · rw [he] at h1 h2 ⊢; exact ⟨h1, h2⟩
    · have hlen : st.visited.length < (roundStep g pools st x).visited.length := by rw [hv]; simp
      exact ⟨by omega, fun _ => Or.inr (by omega)⟩

theorem head_mem_of_ne_nil {pools : List (List Nat)} {i : Nat} (h : pools.getD i [] ≠ []) :
    firstOf pools i ∈ pools.getD i [] ∧ ∃ rest, pools.getD i [] = firstOf pools i :: rest := by
  unfold firstOf
  cases hp : pools.getD i [] with
  | nil => exact absurd hp h
  | cons x xs => simp

/-- a state in which no unvisited non-empty pool is ready has no unvisited non-empty pool at all -/
theorem stuck_complete {g : Graph} {order : List Nat} {pools : List (List Nat)} {pidx : Nat}
    (hp : PoolFacts g order pools) {st : RSt} (h : RInv g pools pidx st)
    (hstuck : ∀ i, i < pools.length → i ∉ st.visited → pools.getD i [] ≠ [] →
      depsIn g (firstOf pools i) st.processed = false) :
    ∀ i, i < pools.length → pools.getD i [] ≠ [] → i ∈ st.visited := by
  have key : ∀ p i, order.idxOf (firstOf pools i) = p → i < pools.length → pools.getD i [] ≠ [] → i ∈ st.visited := by
    intro p
    induction p using Nat.strongRecOn with
    | _ p ih =>
      intro i hip hi hne
      apply Classical.byContradiction; intro hnv
      have hd := hstuck i hi hnv hne
      -- some dependency of the first node is not processed
      simp only [depsIn, List.all_eq_false] at hd
      obtain ⟨d, hdrev, hdnp⟩ := hd
      have hdnp' : d ∉ st.processed := by simpa using hdnp
      obtain ⟨hfmem, rest, hfcons⟩ := head_mem_of_ne_nil hne
      have hfo : firstOf pools i ∈ order := (hp.sub i).subset hfmem
      obtain ⟨pre, post, hsplit⟩ := List.append_of_mem hfo
      have hdpre : d ∈ pre := hp.closed pre _ post hsplit d hdrev
      have hdo : d ∈ order := by rw [hsplit]; exact List.mem_append_left _ hdpre
      have hdlt := hp.lt d hdo
      cases hda : isArgNode g d with
      | true => exact hdnp' (h.procArgs d hdlt hda)
      | false =>
        obtain ⟨q, hq, hdq⟩ := hp.placed (Nat.lt_of_le_of_lt (Nat.zero_le _) hi) d hdo hda
        have hqne : pools.getD q [] ≠ [] := by intro he; rw [he] at hdq; simp at hdq
        by_cases hqv : q ∈ st.visited
        · exact hdnp' (h.procPools q hqv d hdq)
        · -- q is an unvisited non-empty pool whose first node is earlier than ours: contradiction with the IH
          obtain ⟨_, restq, hqcons⟩ := head_mem_of_ne_nil hqne
          have hle : order.idxOf (firstOf pools q) ≤ order.idxOf d := by
            rw [hqcons] at hdq
            simp only [List.mem_cons] at hdq
            rcases hdq with rfl | hdt
            · exact Nat.le_refl _
            · have hpw := sublist_pairwise_idxOf hp.nodup (hp.sub q)
              rw [hqcons] at hpw
              exact Nat.le_of_lt ((List.pairwise_cons.mp hpw).1 d hdt)
          have hlt : order.idxOf d < order.idxOf (firstOf pools i) := idxOf_lt_of_mem_pre hp.nodup hsplit hdpre
          exact hqv (ih (order.idxOf (firstOf pools q)) (by omega) q rfl hq hqne)
  intro i hi hne
  exact key _ i rfl hi hne

theorem visited_length_le {g : Graph} {pools : List (List Nat)} {pidx : Nat} {st : RSt}
    (h : RInv g pools pidx st) : st.visited.length ≤ pools.length := by
  have := List.Nodup.length_le_of_subset h.visNodup (l₂ := List.range pools.length)
    (fun v hv => by simpa using (h.visLt v hv).1)
  simpa using this

theorem rounds_complete {g : Graph} {order : List Nat} {pools : List (List Nat)} {pidx : Nat}
    (hp : PoolFacts g order pools) (k : Nat) {st : RSt} (h : RInv g pools pidx st)
    (hk : pools.length < st.visited.length + k) :
    ∀ i, i < pools.length → pools.getD i [] ≠ [] → i ∈ (rounds g pools k st).visited := by
  induction k generalizing st with
  | zero =>
    have := visited_length_le h
    omega
  | succ k ih =>
    simp only [rounds]
    have hr := round_inv hp h
    split
    · rename_i hprog
      apply ih hr
      have hg := (foldl_visited_grow g pools (List.range pools.length) { st with progress := false }).2
      have : (round g pools st).progress = true := hprog
      unfold round at this ⊢
      rcases hg this with h0 | hlt
      · cases h0
      · have : ({ st with progress := false } : RSt).visited = st.visited := rfl
        rw [this] at hlt
        omega
    · rename_i hprog
      have hnp : (round g pools st).progress = false := by simpa using hprog
      unfold round at hnp
      obtain ⟨heq, hall⟩ := foldl_noprogress g pools _ _ hnp
      apply stuck_complete hp hr
      intro i hi hnv hne
      have hvis : (round g pools st).visited = st.visited := by unfold round; rw [heq]
      have hproc : (round g pools st).processed = st.processed := by unfold round; rw [heq]
      rw [hvis] at hnv
      rw [hproc]
      rcases hall i (by simpa using hi) with h1 | h1 | h1
      · exact absurd h1 hnv
      · exact absurd h1 hne
      · exact h1

/-- **`buildStmts` facts**: the main thread is exactly one pool, goroutines are pools, and every node of
    every pool is emitted. -/
theorem stmtFacts_of_buildStmts2 {g : Graph} {order : List Nat} {pools : List (List Nat)}
    (hp : PoolFacts g order pools) {parent : List Nat} {chains : List (List Nat)}
    (hb : buildStmts2 g pools = .ok (parent, chains)) :
    StmtFacts g pools parent chains ∧ 0 < pools.length := by
  simp only [buildStmts2] at hb
  split at hb
  · cases hb
  · rename_i st hst
    cases hb
    simp only [stmtsState] at hst
    split at hst
    · cases hst
    · rename_i hne
      -- the parent pool index is one of the initial pools
      generalize hinit : (List.range pools.length).filter (isInitial g pools) = initial at hst hne
      have hne' : initial ≠ [] := by intro he; rw [he] at hne; simp at hne
      generalize hpidx : (initial.find? (fun i => !isAsyncNode g (firstOf pools i))).getD (initial.headD 0) = pidx at hst
      have hpi : pidx ∈ initial := by
        rw [← hpidx]
        cases hf : initial.find? (fun i => !isAsyncNode g (firstOf pools i)) with
        | some x => simpa using List.mem_of_find?_eq_some hf
        | none =>
          cases initial with
          | nil => exact absurd rfl hne'
          | cons a as => simp
      have hpilt : pidx < pools.length := by
        have : pidx ∈ (List.range pools.length).filter (isInitial g pools) := by rw [hinit]; exact hpi
        simpa using (List.mem_filter.mp this).1
      have h1 := init_state_inv (g := g) (pools := pools) initial hinit.symm pidx hpi
      cases hst
      have hfin := rounds_inv hp (pools.length + 1) h1
      have hcomp := rounds_complete hp (pools.length + 1) h1 (by omega)
      refine ⟨{ parentPool := ?_, chainPool := ?_, cover := ?_,
                idx := ⟨pidx, _, by rw [hfin.parentOne]; simp, rfl, hfin.chainOK⟩ }, by omega⟩
      · refine ⟨pidx, ?_⟩
        rw [hfin.parentOne]; simp
      · intro c hc
        simp only [List.mem_map] at hc
        obtain ⟨ci, _, rfl⟩ := hc
        exact ⟨ci, rfl⟩
      · intro p n hn
        have hpne : pools.getD p [] ≠ [] := by intro he; rw [he] at hn; simp at hn
        have hpl : p < pools.length := by
          apply Classical.byContradiction; intro hc
          have : pools[p]? = none := by simp; omega
          simp [List.getD_eq_getElem?_getD, this] at hn
        have hv := hcomp p hpl hpne
        rcases (hfin.split p).mp hv with h | h
        · left
          rw [hfin.parentOne] at h ⊢
          simp at h; subst h; simpa using hn
        · right
          exact ⟨pools.getD p [], List.mem_map_of_mem h, hn⟩

end KV
