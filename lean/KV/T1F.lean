/-! Prototype (scratch): Tier 1 with provider failures, errgroup and cancellation. -/
namespace T1F

inductive Op where
  | wait  (o : Nat) (c : Nat) (ctxAware : Bool)
  | enter (o : Nat) (args : List Nat)
  | exit  (o : Nat) (rets : List Nat) (fallible : Bool)
  | close (o : Nat) (c : Nat)
  | spawn (g : Nat)
  | egwait
  | ret (v : Nat)
deriving DecidableEq, Repr

inductive Err where
  | prov (o : Nat)
  | ctx
deriving DecidableEq, Repr

structure Prog where
  threads : List (List Op)       -- thread 0 is main
  retErr : Bool                  -- the injector has an error result

/-- how a thread ended -/
inductive Fin where
  | ok
  | err (e : Err)
deriving DecidableEq, Repr

structure St where
  pcs : List Nat
  fin : List (Option Fin)        -- none = still running
  egErr : Option Err
  egCanc : Bool
  callerCanc : Bool
  result : Option (Option Err)   -- main's return: some none = value, some (some e) = error

def thread (P : Prog) (t : Nat) : List Op := P.threads.getD t []
def opAt (P : Prog) (t j : Nat) : Option Op := (thread P t)[j]?
def pc (s : St) (t : Nat) : Nat := s.pcs.getD t 0
def finOf (s : St) (t : Nat) : Option Fin := s.fin.getD t none
def running (s : St) (t : Nat) : Prop := finOf s t = none
def ctxDone (s : St) : Bool := s.callerCanc || s.egCanc

def closed (P : Prog) (s : St) (c : Nat) : Prop :=
  ∃ t j o, opAt P t j = some (.close o c) ∧ j < pc s t
def spawned (P : Prog) (s : St) (g : Nat) : Prop :=
  g = 0 ∨ ∃ j, opAt P 0 j = some (.spawn g) ∧ j < pc s 0
def written (P : Prog) (s : St) (v : Nat) : Prop :=
  ∃ t j o rets f, opAt P t j = some (.exit o rets f) ∧ v ∈ rets ∧ j < pc s t

def advance (s : St) (t : Nat) : St := { s with pcs := s.pcs.set t (pc s t + 1) }

/-- thread `t` ends with outcome `f`; a goroutine error is recorded by the errgroup (first error wins, cancels) -/
def finish (s : St) (t : Nat) (f : Fin) : St :=
  let s1 := { s with fin := s.fin.set t (some f) }
  match t, f with
  | 0, .ok => s1
  | 0, .err e => { s1 with result := some (some e) }
  | _ + 1, .ok => s1
  | _ + 1, .err e => if s.egErr.isNone then { s1 with egErr := some e, egCanc := true } else s1

/-- environment: which providers fail -/
structure Env where
  fails : Nat → Bool

inductive Step (P : Prog) (env : Env) : St → St → Prop
  | waitOk {s t o c k} : t < P.threads.length → running s t → spawned P s t →
      opAt P t (pc s t) = some (.wait o c k) → closed P s c → Step P env s (advance s t)
  | waitCtx {s t o c} : t < P.threads.length → running s t → spawned P s t →
      opAt P t (pc s t) = some (.wait o c true) → ctxDone s = true → Step P env s (finish s t (.err .ctx))
  | enter {s t o args} : t < P.threads.length → running s t → spawned P s t →
      opAt P t (pc s t) = some (.enter o args) → Step P env s (advance s t)
  | exitOk {s t o rets f} : t < P.threads.length → running s t → spawned P s t →
      opAt P t (pc s t) = some (.exit o rets f) → (f && env.fails o) = false → Step P env s (advance s t)
  | exitFail {s t o rets} : t < P.threads.length → running s t → spawned P s t →
      opAt P t (pc s t) = some (.exit o rets true) → env.fails o = true → Step P env s (finish s t (.err (.prov o)))
  | close {s t o c} : t < P.threads.length → running s t → spawned P s t →
      opAt P t (pc s t) = some (.close o c) → Step P env s (advance s t)
  | spawn {s g} : running s 0 → opAt P 0 (pc s 0) = some (.spawn g) → Step P env s (advance s 0)
  | egwait {s} : running s 0 → opAt P 0 (pc s 0) = some .egwait →
      (∀ g, 0 < g → g < P.threads.length → finOf s g ≠ none) →
      Step P env s { (advance s 0) with egCanc := true }
  | ret {s v} : running s 0 → opAt P 0 (pc s 0) = some (.ret v) →
      Step P env s
        { (finish s 0 .ok) with result := some (if P.retErr then s.egErr else none) }
  | goEnd {s t} : 0 < t → t < P.threads.length → running s t → spawned P s t →
      opAt P t (pc s t) = none → Step P env s (finish s t .ok)
  | cancel {s} : Step P env s { s with callerCanc := true }

def init (P : Prog) : St :=
  { pcs := List.replicate P.threads.length 0, fin := List.replicate P.threads.length none,
    egErr := none, egCanc := false, callerCanc := false, result := none }

inductive Reach (P : Prog) (env : Env) : St → Prop
  | init : Reach P env (init P)
  | step {s s'} : Reach P env s → Step P env s s' → Reach P env s'

/-! ### monotonicity: program counters only grow, `closed` and `written` persist -/

theorem pc_advance_self {s : St} {t : Nat} (h : t < s.pcs.length) : pc (advance s t) t = pc s t + 1 := by
  simp [pc, advance, List.getD_eq_getElem?_getD, h]

theorem pc_advance_other {s : St} {t u : Nat} (h : u ≠ t) : pc (advance s t) u = pc s u := by
  simp [pc, advance, List.getD_eq_getElem?_getD, Ne.symm h]

theorem pc_le_advance (s : St) (t u : Nat) : pc s u ≤ pc (advance s t) u := by
  by_cases h : u = t
  · subst h
    by_cases hl : u < s.pcs.length
    · rw [pc_advance_self hl]; omega
    · have : s.pcs[u]? = none := by simp at hl; simp [hl]
      simp [pc, advance, List.getD_eq_getElem?_getD, this]
  · rw [pc_advance_other h]; exact Nat.le_refl _

theorem pc_finish (s : St) (t u : Nat) (f : Fin) : pc (finish s t f) u = pc s u := by
  unfold finish pc
  cases t <;> cases f <;> simp only <;> (try split) <;> rfl

theorem step_pc_mono {P : Prog} {env : Env} {s s' : St} (h : Step P env s s') (u : Nat) : pc s u ≤ pc s' u := by
  cases h with
  | waitOk => exact pc_le_advance _ _ _
  | waitCtx => rw [pc_finish]; exact Nat.le_refl _
  | enter => exact pc_le_advance _ _ _
  | exitOk => exact pc_le_advance _ _ _
  | exitFail => rw [pc_finish]; exact Nat.le_refl _
  | close => exact pc_le_advance _ _ _
  | spawn => exact pc_le_advance _ _ _
  | egwait => exact pc_le_advance _ _ _
  | ret => exact (pc_finish _ _ _ _).symm ▸ Nat.le_refl _
  | goEnd => rw [pc_finish]; exact Nat.le_refl _
  | cancel => exact Nat.le_refl _

theorem closed_mono {P : Prog} {env : Env} {s s' : St} (h : Step P env s s') {c : Nat} (hc : closed P s c) :
    closed P s' c := by
  obtain ⟨t, j, o, h1, h2⟩ := hc
  exact ⟨t, j, o, h1, Nat.lt_of_lt_of_le h2 (step_pc_mono h t)⟩

theorem written_mono {P : Prog} {env : Env} {s s' : St} (h : Step P env s s') {v : Nat} (hw : written P s v) :
    written P s' v := by
  obtain ⟨t, j, o, rets, f, h1, h2, h3⟩ := hw
  exact ⟨t, j, o, rets, f, h1, h2, Nat.lt_of_lt_of_le h3 (step_pc_mono h t)⟩

/-! ### executed waits were closed -/

def InvA (P : Prog) (s : St) : Prop :=
  ∀ t j o c k, j < pc s t → opAt P t j = some (.wait o c k) → closed P s c

theorem init_pc (P : Prog) (t : Nat) : pc (init P) t = 0 := by
  simp only [pc, init, List.getD_eq_getElem?_getD, List.getElem?_replicate]
  split <;> rfl

/-- an advancing step of thread `t` at an op that is not a wait, or a wait whose channel is closed -/
theorem invA_advance {P : Prog} {s : St} {t : Nat} (h : InvA P s) (hl : t < s.pcs.length)
    (hop : ∀ o c k, opAt P t (pc s t) = some (.wait o c k) → closed P s c) : InvA P (advance s t) := by
  intro u j o c k hj hw
  have hmono : ∀ c, closed P s c → closed P (advance s t) c := by
    intro c ⟨t', j', o', h1, h2⟩
    exact ⟨t', j', o', h1, Nat.lt_of_lt_of_le h2 (pc_le_advance s t t')⟩
  by_cases hu : u = t
  · subst hu
    rw [pc_advance_self hl] at hj
    by_cases hjl : j < pc s u
    · exact hmono c (h u j o c k hjl hw)
    · have : j = pc s u := by omega
      subst this
      exact hmono c (hop o c k hw)
  · rw [pc_advance_other hu] at hj
    exact hmono c (h u j o c k hj hw)

theorem invA_samepcs {P : Prog} {s s' : St} (h : InvA P s) (hp : ∀ u, pc s' u = pc s u) : InvA P s' := by
  intro u j o c k hj hw
  rw [hp u] at hj
  obtain ⟨t', j', o', h1, h2⟩ := h u j o c k hj hw
  exact ⟨t', j', o', h1, by rw [hp t']; exact h2⟩

structure Shape (P : Prog) (s : St) : Prop where
  lenP : s.pcs.length = P.threads.length
  lenF : s.fin.length = P.threads.length

theorem finish_pcs (s : St) (t : Nat) (f : Fin) : (finish s t f).pcs = s.pcs := by
  unfold finish
  cases t <;> cases f <;> simp only <;> (try split) <;> rfl

theorem finish_fin_len (s : St) (t : Nat) (f : Fin) : (finish s t f).fin.length = s.fin.length := by
  unfold finish
  cases t <;> cases f <;> simp only <;> (try split) <;> simp

theorem shape_reach {P : Prog} {env : Env} {s : St} (h : Reach P env s) : Shape P s := by
  induction h with
  | init => exact ⟨by simp [init], by simp [init]⟩
  | step _ hs ih =>
    obtain ⟨h1, h2⟩ := ih
    cases hs <;> first
      | exact ⟨by simp [advance, h1], h2⟩
      | exact ⟨by rw [finish_pcs]; exact h1, by rw [finish_fin_len]; exact h2⟩
      | exact ⟨h1, h2⟩
      | exact ⟨by simp [advance, h1], by simpa using h2⟩
      | exact ⟨by simp [finish_pcs, h1], by simp [finish_fin_len, h2]⟩

theorem zero_lt_of_opAt {P : Prog} {j : Nat} {op : Op} (h : opAt P 0 j = some op) : 0 < P.threads.length := by
  apply Classical.byContradiction; intro hc
  have hnone : P.threads[0]? = none := by
    rw [List.getElem?_eq_none]; omega
  have : thread P 0 = [] := by simp [thread, List.getD_eq_getElem?_getD, hnone]
  simp [opAt, this] at h

theorem invA_reach {P : Prog} {env : Env} {s : St} (h : Reach P env s) : InvA P s := by
  induction h with
  | init =>
    intro t j o c k hj
    rw [init_pc] at hj; omega
  | @step s s' hr hs ih =>
    have hsh := shape_reach hr
    cases hs with
    | @waitOk t o c k htl _ _ hop hcl =>
      apply invA_advance ih (by rw [hsh.lenP]; exact htl)
      intro o' c' k' h'
      rw [hop] at h'; cases h'; exact hcl
    | waitCtx => exact invA_samepcs ih (fun u => pc_finish _ _ u _)
    | @enter t o args htl _ _ hop =>
      apply invA_advance ih (by rw [hsh.lenP]; exact htl)
      intro o' c' k' h'; rw [hop] at h'; cases h'
    | @exitOk t o rets f htl _ _ hop _ =>
      apply invA_advance ih (by rw [hsh.lenP]; exact htl)
      intro o' c' k' h'; rw [hop] at h'; cases h'
    | exitFail => exact invA_samepcs ih (fun u => pc_finish _ _ u _)
    | @close t o c htl _ _ hop =>
      apply invA_advance ih (by rw [hsh.lenP]; exact htl)
      intro o' c' k' h'; rw [hop] at h'; cases h'
    | @spawn g _ hop =>
      have h0 : 0 < s.pcs.length := by rw [hsh.lenP]; exact zero_lt_of_opAt hop
      apply invA_advance ih h0
      intro o' c' k' h'; rw [hop] at h'; cases h'
    | @egwait _ hop _ =>
      have h0 : 0 < s.pcs.length := by rw [hsh.lenP]; exact zero_lt_of_opAt hop
      have := invA_advance ih h0 (by intro o' c' k' h'; rw [hop] at h'; cases h')
      exact invA_samepcs this (fun u => rfl)
    | ret => exact invA_samepcs ih (fun u => by show pc _ u = _; unfold pc; rw [show ({ (finish s 0 .ok) with result := _ } : St).pcs = (finish s 0 .ok).pcs from rfl, finish_pcs])
    | goEnd => exact invA_samepcs ih (fun u => pc_finish _ _ u _)
    | cancel => exact invA_samepcs ih (fun u => rfl)

/-! ### rank certificate, flags -/

theorem opAt_mem {P : Prog} {t j : Nat} {op : Op} (h : opAt P t j = some op) : op ∈ thread P t :=
  List.mem_of_getElem? h

theorem mem_opAt {P : Prog} {t : Nat} {op : Op} (h : op ∈ thread P t) : ∃ j, opAt P t j = some op := by
  obtain ⟨j, hj, hget⟩ := List.getElem_of_mem h
  exact ⟨j, by simp [opAt, hj, hget]⟩

theorem thread_lt_of_mem {P : Prog} {t : Nat} {op : Op} (h : op ∈ thread P t) : t < P.threads.length := by
  apply Classical.byContradiction; intro hc
  have hnone : P.threads[t]? = none := by rw [List.getElem?_eq_none]; omega
  have : thread P t = [] := by simp [thread, List.getD_eq_getElem?_getD, hnone]
  simp [this] at h

structure WF (P : Prog) (rank : Op → Nat) : Prop where
  sorted : ∀ t, (thread P t).Pairwise (fun a b => rank a ≤ rank b)
  waitClose : ∀ t o c k, Op.wait o c k ∈ thread P t →
    ∃ t' o', Op.close o' c ∈ thread P t' ∧ rank (.close o' c) < rank (.wait o c k)
  spawnBefore : ∀ g, 0 < g → g < P.threads.length →
    Op.spawn g ∈ thread P 0 ∧ (∀ op ∈ thread P g, rank (.spawn g) < rank op) ∧ rank (.spawn g) < rank .egwait
  egwaitAfter : ∀ g, 0 < g → ∀ op ∈ thread P g, rank op < rank .egwait
  mainOnly : ∀ t op, op ∈ thread P t → (op = .egwait ∨ (∃ v, op = .ret v) ∨ (∃ g, op = .spawn g)) → t = 0
  /-- every wait that can block forever is ctx-aware (this is W5 together with `retErr`) -/
  waitsCtx : ∀ t o c k, Op.wait o c k ∈ thread P t → k = true

theorem rank_le_of_idx_le {P : Prog} {rank : Op → Nat} (hw : WF P rank) {t i j : Nat} {a b : Op}
    (ha : opAt P t i = some a) (hb : opAt P t j = some b) (hij : i ≤ j) : rank a ≤ rank b := by
  by_cases h : i = j
  · subst h; rw [ha] at hb; cases hb; exact Nat.le_refl _
  · have hlt : i < j := by omega
    have hs := hw.sorted t
    rw [List.pairwise_iff_getElem] at hs
    simp only [opAt] at ha hb
    have hi : i < (thread P t).length := by
      apply Classical.byContradiction; intro hc
      simp [List.getElem?_eq_none (Nat.le_of_not_lt hc)] at ha
    have hj : j < (thread P t).length := by
      apply Classical.byContradiction; intro hc
      simp [List.getElem?_eq_none (Nat.le_of_not_lt hc)] at hb
    have := hs i j hi hj hlt
    rw [List.getElem?_eq_getElem hi] at ha
    rw [List.getElem?_eq_getElem hj] at hb
    cases ha; cases hb; exact this

theorem idx_lt_of_rank_lt {P : Prog} {rank : Op → Nat} (hw : WF P rank) {t i j : Nat} {a b : Op}
    (ha : opAt P t i = some a) (hb : opAt P t j = some b) (hr : rank a < rank b) : i < j := by
  apply Classical.byContradiction; intro hc
  have := rank_le_of_idx_le hw hb ha (by omega)
  omega

/-- an op of thread `t` not yet executed: the op at the pc exists and has smaller-or-equal rank -/
theorem pending_le {P : Prog} {rank : Op → Nat} (hw : WF P rank) {s : St} {t j : Nat} {b : Op}
    (hb : opAt P t j = some b) (hj : ¬ j < pc s t) : ∃ a, opAt P t (pc s t) = some a ∧ rank a ≤ rank b := by
  have hjl : j < (thread P t).length := by
    apply Classical.byContradiction; intro hc
    simp [opAt, List.getElem?_eq_none (Nat.le_of_not_lt hc)] at hb
  have hpl : pc s t < (thread P t).length := by omega
  have hpa : opAt P t (pc s t) = some (thread P t)[pc s t] := by
    simp only [opAt]; exact List.getElem?_eq_getElem hpl
  exact ⟨_, hpa, rank_le_of_idx_le hw hpa hb (by omega)⟩

/-! ### bookkeeping invariants about finished threads and the errgroup -/

structure InvB (P : Prog) (s : St) : Prop where
  okEnd : ∀ t, 0 < t → finOf s t = some .ok → opAt P t (pc s t) = none
  errCanc : ∀ t e, 0 < t → finOf s t = some (.err e) → s.egCanc = true ∧ s.egErr ≠ none
  mainRes : finOf s 0 ≠ none → s.result ≠ none
  errSetCanc : s.egErr ≠ none → s.egCanc = true

theorem finOf_advance (s : St) (t u : Nat) : finOf (advance s t) u = finOf s u := rfl

theorem finish_fin (s : St) (t : Nat) (f : Fin) : (finish s t f).fin = s.fin.set t (some f) := by
  unfold finish
  cases t <;> cases f <;> simp only <;> (try split) <;> rfl

theorem finOf_finish_self (s : St) (t : Nat) (f : Fin) (h : t < s.fin.length) : finOf (finish s t f) t = some f := by
  simp only [finOf, finish_fin, List.getD_eq_getElem?_getD, List.getElem?_set_self h, Option.getD_some]

theorem finOf_finish_other (s : St) (t u : Nat) (f : Fin) (h : u ≠ t) : finOf (finish s t f) u = finOf s u := by
  simp only [finOf, finish_fin, List.getD_eq_getElem?_getD, List.getElem?_set_ne (Ne.symm h)]

theorem finish_eg (s : St) (t : Nat) (f : Fin) :
    (s.egCanc = true → (finish s t f).egCanc = true) ∧
    (s.egErr ≠ none → (finish s t f).egErr = s.egErr) ∧
    ((finish s t f).egErr ≠ none → s.egErr ≠ none ∨ (finish s t f).egCanc = true) ∧
    (0 < t → ∀ e, f = .err e → (finish s t f).egErr ≠ none ∧ (s.egErr = none → (finish s t f).egCanc = true)) := by
  unfold finish
  cases t with
  | zero => cases f <;> simp <;> exact fun h => Or.inl h
  | succ k =>
    cases f with
    | ok => simp; exact fun h => Or.inl h
    | err e =>
      simp only
      split
      · rename_i hn
        simp at hn
        simp [hn]
      · rename_i hn
        simp at hn
        refine ⟨fun h => h, fun _ => rfl, fun h => Or.inl h, fun _ e' _ => ⟨?_, fun h => absurd h ?_⟩⟩
        · intro h; rw [h] at hn; simp at hn
        · intro h; rw [h] at hn; simp at hn

theorem finish_result_succ (s : St) (k : Nat) (f : Fin) : (finish s (k + 1) f).result = s.result := by
  unfold finish
  cases f <;> simp only <;> (try split) <;> rfl

/-- a state that differs from `s` by one advancing step of a running thread keeps `InvB` -/
theorem invB_advance {P : Prog} {s : St} {t : Nat} (h : InvB P s) (hrun : running s t) : InvB P (advance s t) where
  okEnd := by
    intro u hu hf
    have hut : u ≠ t := by
      intro e; subst e
      rw [finOf_advance] at hf
      rw [running] at hrun; rw [hrun] at hf; cases hf
    rw [pc_advance_other hut]
    exact h.okEnd u hu hf
  errCanc := fun u e hu hf => h.errCanc u e hu hf
  mainRes := h.mainRes
  errSetCanc := h.errSetCanc

theorem invB_finish {P : Prog} {s : St} {t : Nat} {f : Fin} (h : InvB P s) (hl : t < s.fin.length)
    (hok : f = .ok → 0 < t → opAt P t (pc s t) = none)
    (hres : t = 0 → (finish s t f).result ≠ none) : InvB P (finish s t f) where
  okEnd := by
    intro u hu hf
    rw [pc_finish]
    by_cases hut : u = t
    · subst hut
      rw [finOf_finish_self _ _ _ hl] at hf
      exact hok (Option.some.inj hf) hu
    · rw [finOf_finish_other _ _ _ _ hut] at hf
      exact h.okEnd u hu hf
  errCanc := by
    intro u e hu hf
    obtain ⟨e1, e2, e3, e4⟩ := finish_eg s t f
    by_cases hut : u = t
    · subst hut
      rw [finOf_finish_self _ _ _ hl] at hf
      have hfe : f = .err e := Option.some.inj hf
      obtain ⟨a, b⟩ := e4 hu e hfe
      refine ⟨?_, a⟩
      by_cases hn : s.egErr = none
      · exact b hn
      · exact e1 (h.errSetCanc hn)
    · rw [finOf_finish_other _ _ _ _ hut] at hf
      obtain ⟨a, b⟩ := h.errCanc u e hu hf
      exact ⟨e1 a, by rw [e2 b]; exact b⟩
  mainRes := by
    intro hf
    cases t with
    | zero => exact hres rfl
    | succ k =>
      rw [finOf_finish_other _ _ _ _ (by omega)] at hf
      rw [finish_result_succ]
      exact h.mainRes hf
  errSetCanc := by
    intro hne
    obtain ⟨e1, e2, e3, e4⟩ := finish_eg s t f
    rcases e3 hne with h1 | h1
    · exact e1 (h.errSetCanc h1)
    · exact h1

/-- the three `InvB` clauses that do not mention `result`, for a finishing step -/
theorem invB_finish_fields {P : Prog} {s : St} {t : Nat} {f : Fin} (h : InvB P s) (hl : t < s.fin.length)
    (hok : f = .ok → 0 < t → opAt P t (pc s t) = none) :
    (∀ u, 0 < u → finOf (finish s t f) u = some .ok → opAt P u (pc (finish s t f) u) = none) ∧
    (∀ u e, 0 < u → finOf (finish s t f) u = some (.err e) → (finish s t f).egCanc = true ∧ (finish s t f).egErr ≠ none) ∧
    ((finish s t f).egErr ≠ none → (finish s t f).egCanc = true) := by
  refine ⟨?_, ?_, ?_⟩
  · intro u hu hf
    rw [pc_finish]
    by_cases hut : u = t
    · subst hut
      rw [finOf_finish_self _ _ _ hl] at hf
      exact hok (Option.some.inj hf) hu
    · rw [finOf_finish_other _ _ _ _ hut] at hf
      exact h.okEnd u hu hf
  · intro u e hu hf
    obtain ⟨e1, e2, e3, e4⟩ := finish_eg s t f
    by_cases hut : u = t
    · subst hut
      rw [finOf_finish_self _ _ _ hl] at hf
      have hfe : f = .err e := Option.some.inj hf
      obtain ⟨a, b⟩ := e4 hu e hfe
      refine ⟨?_, a⟩
      by_cases hn : s.egErr = none
      · exact b hn
      · exact e1 (h.errSetCanc hn)
    · rw [finOf_finish_other _ _ _ _ hut] at hf
      obtain ⟨a, b⟩ := h.errCanc u e hu hf
      exact ⟨e1 a, by rw [e2 b]; exact b⟩
  · intro hne
    obtain ⟨e1, e2, e3, e4⟩ := finish_eg s t f
    rcases e3 hne with h1 | h1
    · exact e1 (h.errSetCanc h1)
    · exact h1

theorem invB_reach {P : Prog} {env : Env} {s : St} (h : Reach P env s) : InvB P s := by
  induction h with
  | init =>
    refine { okEnd := ?_, errCanc := ?_, mainRes := ?_, errSetCanc := ?_ }
    · intro t _ hf
      simp only [finOf, init, List.getD_eq_getElem?_getD, List.getElem?_replicate] at hf
      split at hf <;> simp at hf
    · intro t e _ hf
      simp only [finOf, init, List.getD_eq_getElem?_getD, List.getElem?_replicate] at hf
      split at hf <;> simp at hf
    · intro hf
      simp only [finOf, init, List.getD_eq_getElem?_getD, List.getElem?_replicate] at hf
      split at hf <;> simp at hf
    · intro hne; simp [init] at hne
  | @step s s' hr hs ih =>
    have hsh := shape_reach hr
    cases hs with
    | waitOk _ hrun => exact invB_advance ih hrun
    | @waitCtx t o c htl hrun _ hop _ =>
      apply invB_finish ih (by rw [hsh.lenF]; exact htl) (fun h _ => by cases h)
      intro ht; subst ht
      simp [finish]
    | enter _ hrun => exact invB_advance ih hrun
    | exitOk _ hrun => exact invB_advance ih hrun
    | @exitFail t o rets htl hrun _ hop _ =>
      apply invB_finish ih (by rw [hsh.lenF]; exact htl) (fun h _ => by cases h)
      intro ht; subst ht
      simp [finish]
    | close _ hrun => exact invB_advance ih hrun
    | spawn hrun => exact invB_advance ih hrun
    | egwait hrun hop _ =>
      have h1 := invB_advance ih hrun
      exact { okEnd := h1.okEnd, errCanc := fun u e hu hf => ⟨rfl, (h1.errCanc u e hu hf).2⟩,
              mainRes := h1.mainRes, errSetCanc := fun _ => rfl }
    | @ret v hrun hop =>
      have h0 : 0 < s.fin.length := by rw [hsh.lenF]; exact zero_lt_of_opAt hop
      obtain ⟨a, b, c⟩ := invB_finish_fields (f := .ok) ih h0 (fun _ h => absurd h (Nat.lt_irrefl 0))
      exact { okEnd := a, errCanc := b, mainRes := fun _ => by simp, errSetCanc := c }
    | @goEnd t ht0 htl hrun _ hop =>
      apply invB_finish ih (by rw [hsh.lenF]; exact htl) (fun _ _ => hop)
      intro ht; omega
    | cancel =>
      exact { okEnd := ih.okEnd, errCanc := ih.errCanc, mainRes := ih.mainRes, errSetCanc := ih.errSetCanc }

/-! ### progress while the injector has not returned (all waits ctx-aware) -/

def Moved (s s' : St) : Prop :=
  (∃ t, pc s' t = pc s t + 1) ∨ (∃ t, finOf s t = none ∧ finOf s' t ≠ none)

def Progress (P : Prog) (env : Env) (s : St) : Prop := ∃ s', Step P env s s' ∧ Moved s s'

theorem moved_advance {s : St} {t : Nat} (h : t < s.pcs.length) : Moved s (advance s t) :=
  Or.inl ⟨t, pc_advance_self h⟩

theorem moved_finish {s : St} {t : Nat} {f : Fin} (h : t < s.fin.length) (hr : running s t) :
    Moved s (finish s t f) :=
  Or.inr ⟨t, hr, by rw [finOf_finish_self _ _ _ h]; simp⟩

theorem progress_core {P : Prog} {env : Env} {rank : Op → Nat} (hw : WF P rank) {s : St}
    (hsh : Shape P s) (hB : InvB P s) (hmain : running s 0) :
    ∀ n t op, t < P.threads.length → running s t → opAt P t (pc s t) = some op → rank op = n → Progress P env s := by
  intro n
  induction n using Nat.strongRecOn with
  | _ n ih =>
    intro t op htl hrun hop hn
    have htP : t < s.pcs.length := by rw [hsh.lenP]; exact htl
    have htF : t < s.fin.length := by rw [hsh.lenF]; exact htl
    have h0l : 0 < P.threads.length := Nat.lt_of_le_of_lt (Nat.zero_le _) htl
    by_cases hsp : spawned P s t
    · cases op with
      | wait o c k =>
        have hk : k = true := hw.waitsCtx t o c k (opAt_mem hop)
        subst hk
        by_cases hcl : closed P s c
        · exact ⟨_, Step.waitOk htl hrun hsp hop hcl, moved_advance htP⟩
        · by_cases hcd : ctxDone s = true
          · exact ⟨_, Step.waitCtx htl hrun hsp hop hcd, moved_finish htF hrun⟩
          · -- blocked: look at the closer
            obtain ⟨t', o', hclm, hrk⟩ := hw.waitClose t o c true (opAt_mem hop)
            obtain ⟨j', hj'⟩ := mem_opAt hclm
            have hnot : ¬ j' < pc s t' := fun h => hcl ⟨t', j', o', hj', h⟩
            obtain ⟨a, ha, hle⟩ := pending_le hw hj' hnot
            have ht'l := thread_lt_of_mem hclm
            cases hf : finOf s t' with
            | none => exact ih (rank a) (by omega) t' a ht'l hf ha rfl
            | some f =>
              have ht'0 : 0 < t' := by
                apply Classical.byContradiction; intro hc
                have : t' = 0 := by omega
                subst this
                rw [running] at hmain; rw [hmain] at hf; cases hf
              cases f with
              | ok => have := hB.okEnd t' ht'0 hf; rw [this] at ha; cases ha
              | err e =>
                have := (hB.errCanc t' e ht'0 hf).1
                exfalso; apply hcd
                simp [ctxDone, this]
      | enter o args => exact ⟨_, Step.enter htl hrun hsp hop, moved_advance htP⟩
      | exit o rets f =>
        by_cases hfail : (f && env.fails o) = true
        · simp only [Bool.and_eq_true] at hfail
          obtain ⟨hf, hfo⟩ := hfail
          subst hf
          exact ⟨_, Step.exitFail htl hrun hsp hop hfo, moved_finish htF hrun⟩
        · exact ⟨_, Step.exitOk htl hrun hsp hop (by simpa using hfail), moved_advance htP⟩
      | close o c => exact ⟨_, Step.close htl hrun hsp hop, moved_advance htP⟩
      | spawn g =>
        have ht0 : t = 0 := hw.mainOnly t _ (opAt_mem hop) (Or.inr (Or.inr ⟨g, rfl⟩))
        subst ht0
        exact ⟨_, Step.spawn hrun hop, moved_advance htP⟩
      | ret v =>
        have ht0 : t = 0 := hw.mainOnly t _ (opAt_mem hop) (Or.inr (Or.inl ⟨v, rfl⟩))
        subst ht0
        refine ⟨_, Step.ret hrun hop, Or.inr ⟨0, hrun, ?_⟩⟩
        show finOf { (finish s 0 .ok) with result := _ } 0 ≠ none
        have : finOf { (finish s 0 .ok) with result := some (if P.retErr then s.egErr else none) } 0 = finOf (finish s 0 .ok) 0 := rfl
        rw [this, finOf_finish_self _ _ _ htF]; simp
      | egwait =>
        have ht0 : t = 0 := hw.mainOnly t _ (opAt_mem hop) (Or.inl rfl)
        subst ht0
        by_cases hall : ∀ g, 0 < g → g < P.threads.length → finOf s g ≠ none
        · exact ⟨_, Step.egwait hrun hop hall, Or.inl ⟨0, by
            show pc { (advance s 0) with egCanc := true } 0 = _
            exact pc_advance_self htP⟩⟩
        · have : ∃ g, 0 < g ∧ g < P.threads.length ∧ finOf s g = none := by
            apply Classical.byContradiction; intro hc
            apply hall
            intro g h1 h2 h3
            exact hc ⟨g, h1, h2, h3⟩
          obtain ⟨g, hg0, hgl, hgf⟩ := this
          obtain ⟨hsm, hrkg, hrke⟩ := hw.spawnBefore g hg0 hgl
          have hgsp : spawned P s g := by
            apply Classical.byContradiction; intro hns
            obtain ⟨j, hj⟩ := mem_opAt hsm
            have hnot : ¬ j < pc s 0 := fun h => hns (Or.inr ⟨j, hj, h⟩)
            have := rank_le_of_idx_le hw hop hj (by omega)
            omega
          cases hgo : opAt P g (pc s g) with
          | some b =>
            have := hw.egwaitAfter g hg0 b (opAt_mem hgo)
            exact ih (rank b) (by omega) g b hgl hgf hgo rfl
          | none =>
            have hgF : g < s.fin.length := by rw [hsh.lenF]; exact hgl
            exact ⟨_, Step.goEnd hg0 hgl hgf hgsp hgo, moved_finish hgF hgf⟩
    · -- not spawned: the main thread still has the spawn ahead of it
      have ht0 : 0 < t := by
        apply Classical.byContradiction; intro h
        have : t = 0 := by omega
        exact hsp (Or.inl this)
      obtain ⟨hsm, hrkg, _⟩ := hw.spawnBefore t ht0 htl
      obtain ⟨j, hj⟩ := mem_opAt hsm
      have hnot : ¬ j < pc s 0 := fun h => hsp (Or.inr ⟨j, hj, h⟩)
      obtain ⟨a, ha, hle⟩ := pending_le hw hj hnot
      have := hrkg op (opAt_mem hop)
      exact ih (rank a) (by omega) 0 a h0l hmain ha rfl

/-! ### the main thread always has an op to execute while it has not returned -/

def InvC (P : Prog) (s : St) : Prop :=
  running s 0 → ∀ j v, j < pc s 0 → opAt P 0 j ≠ some (.ret v)

theorem invC_advance {P : Prog} {s : St} {t : Nat} (h : InvC P s) (hl : t < s.pcs.length)
    (hop : t = 0 → ∀ v, opAt P 0 (pc s 0) ≠ some (.ret v)) : InvC P (advance s t) := by
  intro hrun j v hj
  have hrun' : running s 0 := hrun
  by_cases ht : t = 0
  · subst ht
    rw [pc_advance_self hl] at hj
    by_cases hjl : j < pc s 0
    · exact h hrun' j v hjl
    · have : j = pc s 0 := by omega
      subst this; exact hop rfl v
  · rw [pc_advance_other (Ne.symm ht)] at hj
    exact h hrun' j v hj

theorem invC_finish {P : Prog} {s : St} {t : Nat} {f : Fin} (h : InvC P s) (hl : t < s.fin.length) :
    InvC P (finish s t f) := by
  intro hrun j v hj
  rw [pc_finish] at hj
  by_cases ht : t = 0
  · subst ht
    rw [running, finOf_finish_self _ _ _ hl] at hrun; cases hrun
  · rw [running, finOf_finish_other _ _ _ _ (Ne.symm ht)] at hrun
    exact h hrun j v hj

theorem invC_reach {P : Prog} {env : Env} {s : St} (h : Reach P env s) : InvC P s := by
  induction h with
  | init => intro _ j v hj; rw [init_pc] at hj; omega
  | @step s s' hr hs ih =>
    have hsh := shape_reach hr
    cases hs with
    | @waitOk t o c k htl _ _ hop _ =>
      exact invC_advance ih (by rw [hsh.lenP]; exact htl) (fun h v => by subst h; rw [hop]; simp)
    | @waitCtx t o c htl _ _ _ _ => exact invC_finish ih (by rw [hsh.lenF]; exact htl)
    | @enter t o args htl _ _ hop =>
      exact invC_advance ih (by rw [hsh.lenP]; exact htl) (fun h v => by subst h; rw [hop]; simp)
    | @exitOk t o rets f htl _ _ hop _ =>
      exact invC_advance ih (by rw [hsh.lenP]; exact htl) (fun h v => by subst h; rw [hop]; simp)
    | @exitFail t o rets htl _ _ _ _ => exact invC_finish ih (by rw [hsh.lenF]; exact htl)
    | @close t o c htl _ _ hop =>
      exact invC_advance ih (by rw [hsh.lenP]; exact htl) (fun h v => by subst h; rw [hop]; simp)
    | @spawn g _ hop =>
      exact invC_advance ih (by rw [hsh.lenP]; exact zero_lt_of_opAt hop) (fun _ v => by rw [hop]; simp)
    | @egwait _ hop _ =>
      have := invC_advance ih (by rw [hsh.lenP]; exact zero_lt_of_opAt hop) (fun _ v => by rw [hop]; simp)
      exact this
    | @ret v _ hop =>
      intro hrun
      have h0 : 0 < s.fin.length := by rw [hsh.lenF]; exact zero_lt_of_opAt hop
      have : finOf { (finish s 0 .ok) with result := some (if P.retErr then s.egErr else none) } 0
          = finOf (finish s 0 .ok) 0 := rfl
      rw [running, this, finOf_finish_self _ _ _ h0] at hrun; cases hrun
    | @goEnd t _ htl _ _ _ => exact invC_finish ih (by rw [hsh.lenF]; exact htl)
    | cancel => exact ih

/-- the main thread is non-empty and ends with `ret` -/
structure MainShape (P : Prog) : Prop where
  nonempty : 0 < P.threads.length
  lastRet : ∃ v, opAt P 0 ((thread P 0).length - 1) = some (.ret v)

/-- **C07 (with an error result) / C06 termination, prototype**: as long as the injector has not returned,
    some thread can move — whatever the providers do and whenever the caller cancels. -/
theorem main_never_stuck {P : Prog} {env : Env} {rank : Op → Nat} (hw : WF P rank) (hm : MainShape P)
    {s : St} (hr : Reach P env s) (hmain : running s 0) : Progress P env s := by
  have hsh := shape_reach hr
  have hB := invB_reach hr
  have hC := invC_reach hr hmain
  obtain ⟨v, hv⟩ := hm.lastRet
  have hlen : 0 < (thread P 0).length := by
    apply Classical.byContradiction; intro hc
    simp [opAt, List.getElem?_eq_none (Nat.le_of_not_lt (by omega : ¬ (thread P 0).length - 1 < (thread P 0).length))] at hv
  -- the pc of main is still inside the thread, otherwise the final `ret` would have been executed
  have hpc : pc s 0 < (thread P 0).length := by
    apply Classical.byContradiction; intro hc
    exact hC ((thread P 0).length - 1) v (by omega) hv
  have hop : opAt P 0 (pc s 0) = some (thread P 0)[pc s 0] := by
    simp only [opAt]; exact List.getElem?_eq_getElem hpc
  exact progress_core hw hsh hB hmain _ 0 _ hm.nonempty hmain hop rfl

/-! ### what the injector returns -/

def egwaitDone (P : Prog) (s : St) : Prop := ∃ j, j < pc s 0 ∧ opAt P 0 j = some .egwait

/-- where an error value can come from -/
def ErrOrigin (P : Prog) (env : Env) (s : St) (e : Err) : Prop :=
  match e with
  | .prov o => env.fails o = true
  | .ctx => s.callerCanc = true ∨ finOf s 0 = some (.err .ctx)

structure InvR (P : Prog) (env : Env) (s : St) : Prop where
  /-- once `eg.Wait` has been passed every goroutine has finished -/
  joined : egwaitDone P s → ∀ g, 0 < g → g < P.threads.length → finOf s g ≠ none
  /-- the derived context is cancelled only by a goroutine error, by `eg.Wait`, (or by the caller) -/
  cancWhy : s.egCanc = true → s.egErr ≠ none ∨ egwaitDone P s
  /-- the errgroup's error is a provider failure, or a ctx error caused by the caller -/
  egOrigin : ∀ e, s.egErr = some e → (match e with | .prov o => env.fails o = true | .ctx => s.callerCanc = true)
  /-- a value result means: `ret` executed, no goroutine error was recorded if the signature has `error` -/
  resVal : s.result = some none → finOf s 0 = some .ok ∧
    (∀ g, 0 < g → g < P.threads.length → finOf s g ≠ none) ∧ (P.retErr = true → s.egErr = none)
  /-- an error result is a failed provider, or ctx (caller cancelled, or the main thread left through a ctx-aware wait) -/
  resErr : ∀ e, s.result = some (some e) → ErrOrigin P env s e

theorem fin_mono {P : Prog} {env : Env} {s s' : St} (h : Step P env s s') (hsh : Shape P s) (u : Nat)
    (hu : finOf s u ≠ none) : finOf s' u ≠ none := by
  have hfin : ∀ t f, running s t → t < P.threads.length → finOf (finish s t f) u ≠ none := by
    intro t f hrun htl
    by_cases hut : u = t
    · subst hut; rw [running] at hrun; exact absurd hrun hu
    · rw [finOf_finish_other _ _ _ _ hut]; exact hu
  cases h with
  | waitOk => exact hu
  | waitCtx htl hrun => exact hfin _ _ hrun htl
  | enter => exact hu
  | exitOk => exact hu
  | exitFail htl hrun => exact hfin _ _ hrun htl
  | close => exact hu
  | spawn => exact hu
  | egwait => exact hu
  | ret hrun hop => exact hfin 0 .ok hrun (zero_lt_of_opAt hop)
  | goEnd _ htl hrun => exact hfin _ _ hrun htl
  | cancel => exact hu

theorem egwaitDone_mono {P : Prog} {env : Env} {s s' : St} (h : Step P env s s') (hd : egwaitDone P s) :
    egwaitDone P s' := by
  obtain ⟨j, hj, hop⟩ := hd
  exact ⟨j, Nat.lt_of_lt_of_le hj (step_pc_mono h 0), hop⟩

/-- `ret` comes after `eg.Wait` whenever goroutines exist -/
def RetShape (P : Prog) : Prop :=
  1 < P.threads.length → ∀ j v, opAt P 0 j = some (.ret v) → ∃ i, i < j ∧ opAt P 0 i = some .egwait

theorem egwaitDone_advance_inv {P : Prog} {s : St} {t : Nat} (hl : t < s.pcs.length)
    (hop : t = 0 → opAt P 0 (pc s 0) ≠ some .egwait) (hd : egwaitDone P (advance s t)) : egwaitDone P s := by
  obtain ⟨j, hj, hopj⟩ := hd
  by_cases ht : t = 0
  · subst ht
    rw [pc_advance_self hl] at hj
    by_cases hjl : j < pc s 0
    · exact ⟨j, hjl, hopj⟩
    · have : j = pc s 0 := by omega
      subst this; exact absurd hopj (hop rfl)
  · rw [pc_advance_other (Ne.symm ht)] at hj
    exact ⟨j, hj, hopj⟩

theorem invR_advance {P : Prog} {env : Env} {s : St} {t : Nat} (h : InvR P env s) (hl : t < s.pcs.length)
    (hop : t = 0 → opAt P 0 (pc s 0) ≠ some .egwait) : InvR P env (advance s t) where
  joined := fun hd g h1 h2 => h.joined (egwaitDone_advance_inv hl hop hd) g h1 h2
  cancWhy := by
    intro hc
    rcases h.cancWhy hc with h1 | ⟨j, hj, hopj⟩
    · exact Or.inl h1
    · exact Or.inr ⟨j, Nat.lt_of_lt_of_le hj (pc_le_advance s t 0), hopj⟩
  egOrigin := h.egOrigin
  resVal := h.resVal
  resErr := h.resErr

theorem egwaitDone_finish {P : Prog} {s : St} {t : Nat} {f : Fin} :
    egwaitDone P (finish s t f) ↔ egwaitDone P s := by
  simp only [egwaitDone, pc_finish]

theorem finish_callerCanc (s : St) (t : Nat) (f : Fin) : (finish s t f).callerCanc = s.callerCanc := by
  unfold finish
  cases t <;> cases f <;> simp only <;> (try split) <;> rfl

theorem finish_main (s : St) (f : Fin) :
    (finish s 0 f).egErr = s.egErr ∧ (finish s 0 f).egCanc = s.egCanc ∧
    (finish s 0 f).result = (match f with | .ok => s.result | .err e => some (some e)) := by
  unfold finish
  cases f <;> simp

/-- a goroutine (`t > 0`) finishes with outcome `f` -/
theorem invR_finish_go {P : Prog} {env : Env} {s : St} {k : Nat} {f : Fin} (h : InvR P env s) (hsh : Shape P s)
    (hrun : running s (k + 1)) (htl : k + 1 < P.threads.length)
    (horigin : ∀ e, f = .err e → s.egErr = none →
      (match e with | .prov o => env.fails o = true | .ctx => s.callerCanc = true)) :
    InvR P env (finish s (k + 1) f) := by
  have hF : k + 1 < s.fin.length := by rw [hsh.lenF]; exact htl
  obtain ⟨e1, e2, e3, e4⟩ := finish_eg s (k + 1) f
  have hnotjoined : ¬ egwaitDone P s := fun hd => h.joined hd (k + 1) (by omega) htl hrun
  have hresnone : s.result ≠ some none := by
    intro hr
    exact (h.resVal hr).2.1 (k + 1) (by omega) htl hrun
  refine { joined := ?_, cancWhy := ?_, egOrigin := ?_, resVal := ?_, resErr := ?_ }
  · intro hd; exact absurd (egwaitDone_finish.mp hd) hnotjoined
  · intro hc
    by_cases hn : s.egErr = none
    · -- eg fields changed only if f is an error
      by_cases hsc : s.egCanc = true
      · rcases h.cancWhy hsc with h1 | h1
        · exact absurd hn h1
        · exact absurd h1 hnotjoined
      · left
        cases f with
        | ok => exfalso; apply hsc; simpa [finish] using hc
        | err e => exact (e4 (by omega) e rfl).1
    · left; rw [e2 hn]; exact hn
  · intro e he
    by_cases hn : s.egErr = none
    · cases f with
      | ok => simp [finish, hn] at he
      | err e' =>
        have : (finish s (k + 1) (.err e')).egErr = some e' := by simp [finish, hn]
        rw [this] at he; cases he
        have := horigin e rfl hn
        cases e with
        | prov o => exact this
        | ctx => rw [finish_callerCanc]; exact this
    · rw [e2 hn] at he
      have := h.egOrigin e he
      cases e with
      | prov o => exact this
      | ctx => rw [finish_callerCanc]; exact this
  · intro hr
    rw [finish_result_succ] at hr
    exact absurd hr hresnone
  · intro e hr
    rw [finish_result_succ] at hr
    have := h.resErr e hr
    cases e with
    | prov o => exact this
    | ctx =>
      simp only [ErrOrigin] at this ⊢
      rw [finish_callerCanc, finOf_finish_other _ _ _ _ (by omega)]
      exact this

/-- the main thread leaves with an error (failed provider, or ctx-aware wait) -/
theorem invR_finish_main_err {P : Prog} {env : Env} {s : St} {e : Err} (h : InvR P env s) (hsh : Shape P s)
    (h0 : 0 < P.threads.length) (horigin : ∀ o, e = .prov o → env.fails o = true) :
    InvR P env (finish s 0 (.err e)) := by
  have hF : 0 < s.fin.length := by rw [hsh.lenF]; exact h0
  obtain ⟨m1, m2, m3⟩ := finish_main s (.err e)
  refine { joined := ?_, cancWhy := ?_, egOrigin := ?_, resVal := ?_, resErr := ?_ }
  · intro hd g hg hgl
    rw [finOf_finish_other _ _ _ _ (by omega)]
    exact h.joined (egwaitDone_finish.mp hd) g hg hgl
  · intro hc
    rw [m2] at hc
    rcases h.cancWhy hc with h1 | h1
    · exact Or.inl (by rw [m1]; exact h1)
    · exact Or.inr (egwaitDone_finish.mpr h1)
  · intro e' he
    rw [m1] at he
    have := h.egOrigin e' he
    cases e' with
    | prov o => exact this
    | ctx => rw [finish_callerCanc]; exact this
  · intro hr; rw [m3] at hr; cases hr
  · intro e' hr
    rw [m3] at hr
    cases hr
    cases e with
    | prov o => exact horigin o rfl
    | ctx => exact Or.inr (finOf_finish_self _ _ _ hF)

theorem invR_reach {P : Prog} {env : Env} (hrs : RetShape P) {s : St} (h : Reach P env s) : InvR P env s := by
  induction h with
  | init =>
    refine { joined := ?_, cancWhy := ?_, egOrigin := ?_, resVal := ?_, resErr := ?_ }
    · intro ⟨j, hj, _⟩; rw [init_pc] at hj; omega
    · intro hc; simp [init] at hc
    · intro e he; simp [init] at he
    · intro hr; simp [init] at hr
    · intro e hr; simp [init] at hr
  | @step s s' hr hs ih =>
    have hsh := shape_reach hr
    cases hs with
    | @waitOk t o c k htl _ _ hop _ =>
      exact invR_advance ih (by rw [hsh.lenP]; exact htl) (fun h => by subst h; rw [hop]; simp)
    | @waitCtx t o c htl hrun _ hop hcd =>
      cases t with
      | zero => exact invR_finish_main_err ih hsh htl (fun o h => by cases h)
      | succ k =>
        apply invR_finish_go ih hsh hrun htl
        intro e he hn
        cases he
        -- the context is done although no error was recorded and eg.Wait was not passed: the caller cancelled
        show s.callerCanc = true
        cases hcc : s.callerCanc with
        | true => rfl
        | false =>
          have hcanc : s.egCanc = true := by simpa [ctxDone, hcc] using hcd
          rcases ih.cancWhy hcanc with h1 | h1
          · exact absurd hn h1
          · exact absurd hrun (ih.joined h1 (k + 1) (by omega) htl)
    | @enter t o args htl _ _ hop =>
      exact invR_advance ih (by rw [hsh.lenP]; exact htl) (fun h => by subst h; rw [hop]; simp)
    | @exitOk t o rets f htl _ _ hop _ =>
      exact invR_advance ih (by rw [hsh.lenP]; exact htl) (fun h => by subst h; rw [hop]; simp)
    | @exitFail t o rets htl hrun _ hop hfo =>
      cases t with
      | zero => exact invR_finish_main_err ih hsh htl (fun o' h => by cases h; exact hfo)
      | succ k =>
        apply invR_finish_go ih hsh hrun htl
        intro e he _
        cases he; exact hfo
    | @close t o c htl _ _ hop =>
      exact invR_advance ih (by rw [hsh.lenP]; exact htl) (fun h => by subst h; rw [hop]; simp)
    | @spawn g _ hop =>
      exact invR_advance ih (by rw [hsh.lenP]; exact zero_lt_of_opAt hop) (fun _ => by rw [hop]; simp)
    | @egwait hrun hop hall =>
      have h0P : 0 < s.pcs.length := by rw [hsh.lenP]; exact zero_lt_of_opAt hop
      refine { joined := fun _ g hg hgl => hall g hg hgl, cancWhy := ?_, egOrigin := ih.egOrigin, resVal := ih.resVal,
               resErr := ih.resErr }
      intro _
      exact Or.inr ⟨pc s 0, by show pc s 0 < pc (advance s 0) 0; rw [pc_advance_self h0P]; omega, hop⟩
    | @ret v hrun hop =>
      have h0 := zero_lt_of_opAt hop
      have hF : 0 < s.fin.length := by rw [hsh.lenF]; exact h0
      obtain ⟨m1, m2, m3⟩ := finish_main s .ok
      refine { joined := ?_, cancWhy := ?_, egOrigin := ?_, resVal := ?_, resErr := ?_ }
      · intro hd g hg hgl
        show finOf (finish s 0 .ok) g ≠ none
        rw [finOf_finish_other _ _ _ _ (by omega)]
        exact ih.joined (egwaitDone_finish.mp hd) g hg hgl
      · intro hc
        change (finish s 0 .ok).egCanc = true at hc
        rw [m2] at hc
        rcases ih.cancWhy hc with h1 | h1
        · exact Or.inl (by show (finish s 0 .ok).egErr ≠ none; rw [m1]; exact h1)
        · exact Or.inr (egwaitDone_finish.mpr h1)
      · intro e he
        change (finish s 0 .ok).egErr = some e at he
        rw [m1] at he
        have := ih.egOrigin e he
        cases e with
        | prov o => exact this
        | ctx => show (finish s 0 .ok).callerCanc = true; rw [finish_callerCanc]; exact this
      · intro hres
        change some (if P.retErr then s.egErr else none) = some none at hres
        refine ⟨by show finOf (finish s 0 .ok) 0 = some .ok; exact finOf_finish_self _ _ _ hF, ?_, ?_⟩
        · intro g hg hgl
          show finOf (finish s 0 .ok) g ≠ none
          rw [finOf_finish_other _ _ _ _ (by omega)]
          obtain ⟨i, hi, hopi⟩ := hrs (by omega) (pc s 0) v hop
          exact ih.joined ⟨i, hi, hopi⟩ g hg hgl
        · intro hre
          show (finish s 0 .ok).egErr = none
          rw [m1]
          rw [hre] at hres
          simpa using hres
      · intro e hres
        change some (if P.retErr then s.egErr else none) = some (some e) at hres
        have hre : P.retErr = true ∧ s.egErr = some e := by
          cases hp : P.retErr with
          | true => rw [hp] at hres; simp at hres; exact ⟨rfl, hres⟩
          | false => rw [hp] at hres; simp at hres
        have := ih.egOrigin e hre.2
        cases e with
        | prov o => exact this
        | ctx => exact Or.inl (by show (finish s 0 .ok).callerCanc = true; rw [finish_callerCanc]; exact this)
    | @goEnd t ht0 htl hrun _ hop =>
      cases t with
      | zero => omega
      | succ k => exact invR_finish_go ih hsh hrun htl (fun e he => by cases he)
    | cancel =>
      refine { joined := ih.joined, cancWhy := ih.cancWhy, egOrigin := ?_, resVal := ih.resVal, resErr := ?_ }
      · intro e he
        have := ih.egOrigin e he
        cases e with
        | prov o => exact this
        | ctx => rfl
      · intro e hres
        have := ih.resErr e hres
        cases e with
        | prov o => exact this
        | ctx => exact Or.inl rfl

/-- **C06 clause 1 (prototype)**: if the injector returns a value although its signature has an error result,
    then no thread ended with an error — i.e. a provider failure always surfaces as a non-nil error. -/
theorem value_means_no_error {P : Prog} {env : Env} (hrs : RetShape P) (hre : P.retErr = true) {s : St}
    (h : Reach P env s) (hres : s.result = some none) : ∀ t e, t < P.threads.length → finOf s t ≠ some (.err e) := by
  have hR := invR_reach hrs h
  have hB := invB_reach h
  obtain ⟨h0, hall, hnone⟩ := hR.resVal hres
  intro t e htl hf
  cases t with
  | zero => rw [h0] at hf; cases hf
  | succ k => exact (hB.errCanc (k + 1) e (by omega) hf).2 (hnone hre)

/-- **C06 clause 2, partial (prototype)**: an error result is the error of a provider that failed, unless the
    caller cancelled or the main thread itself left through a ctx-aware wait (the known-finding site K6). -/
theorem error_is_provider_error {P : Prog} {env : Env} (hrs : RetShape P) {s : St}
    (h : Reach P env s) {e : Err} (hres : s.result = some (some e)) (hq : s.callerCanc = false)
    (hk6 : finOf s 0 ≠ some (.err .ctx)) : ∃ o, e = .prov o ∧ env.fails o = true := by
  have := (invR_reach hrs h).resErr e hres
  cases e with
  | prov o => exact ⟨o, rfl, this⟩
  | ctx =>
    rcases this with h1 | h1
    · rw [hq] at h1; cases h1
    · exact absurd h1 hk6

/-! ### C06 clause 3 / C01 under failures: a provider is entered only after all its producers returned -/

structure WFData (P : Prog) (rank : Op → Nat) (isParam : Nat → Prop) : Prop where
  reads : ∀ t o args v, Op.enter o args ∈ thread P t → v ∈ args → ¬ isParam v →
    ∃ t' o' rets f, Op.exit o' rets f ∈ thread P t' ∧ v ∈ rets ∧
      ((t' = t ∧ rank (.exit o' rets f) < rank (.enter o args)) ∨
       (∃ ow k, Op.wait ow v k ∈ thread P t ∧ rank (.wait ow v k) < rank (.enter o args)) ∧
        (∃ oc, Op.close oc v ∈ thread P t' ∧ rank (.exit o' rets f) < rank (.close oc v)))
  closeUnique : ∀ c t o t' o', Op.close o c ∈ thread P t → Op.close o' c ∈ thread P t' → t = t' ∧ o = o'

/-- whatever fails and whenever the caller cancels: when a provider is about to be entered, every
    non-parameter input has been written, i.e. its producer returned **successfully** (a failing exit does not
    advance the counter). Hence no provider depending on a failed one is ever invoked. -/
theorem enter_after_writes {P : Prog} {env : Env} {rank : Op → Nat} {isParam : Nat → Prop}
    (hw : WF P rank) (hd : WFData P rank isParam) {s : St} (hr : Reach P env s)
    {t o : Nat} {args : List Nat} {v : Nat}
    (hop : opAt P t (pc s t) = some (.enter o args)) (hv : v ∈ args) (hnp : ¬ isParam v) :
    written P s v := by
  obtain ⟨t', o', rets, f, hex, hvr, hcase⟩ := hd.reads t o args v (opAt_mem hop) hv hnp
  obtain ⟨i, hi⟩ := mem_opAt hex
  rcases hcase with ⟨ht, hrk⟩ | ⟨⟨ow, k, hwt, hrw⟩, ⟨oc, hcl, hrc⟩⟩
  · subst ht
    exact ⟨t', i, o', rets, f, hi, hvr, idx_lt_of_rank_lt hw hi hop hrk⟩
  · obtain ⟨jw, hjw⟩ := mem_opAt hwt
    have hjw_lt : jw < pc s t := idx_lt_of_rank_lt hw hjw hop hrw
    obtain ⟨t'', kk, oc', hk, hklt⟩ := invA_reach hr t jw ow v k hjw_lt hjw
    obtain ⟨h1, h2⟩ := hd.closeUnique v t' oc t'' oc' hcl (opAt_mem hk)
    subst h1; subst h2
    have : i < kk := idx_lt_of_rank_lt hw hi hk hrc
    exact ⟨t', i, o', rets, f, hi, hvr, by omega⟩

/-- **C07 (error-returning injectors), result clause (prototype)**: if a value is returned, every goroutine ran
    all its ops (so everything the value depends on was actually constructed). -/
theorem value_means_complete {P : Prog} {env : Env} (hrs : RetShape P) (hre : P.retErr = true) {s : St}
    (h : Reach P env s) (hres : s.result = some none) :
    ∀ t, 0 < t → t < P.threads.length → ∀ j op, opAt P t j = some op → j < pc s t := by
  have hR := invR_reach hrs h
  have hB := invB_reach h
  obtain ⟨_, hall, _⟩ := hR.resVal hres
  intro t ht htl j op hop
  have hne := value_means_no_error hrs hre h hres t
  cases hf : finOf s t with
  | none => exact absurd hf (hall t ht htl)
  | some f =>
    cases f with
    | err e => exact absurd hf (hne e htl)
    | ok =>
      have hend := hB.okEnd t ht hf
      apply Classical.byContradiction; intro hc
      have hj : j < (thread P t).length := by
        apply Classical.byContradiction; intro hcc
        simp [opAt, List.getElem?_eq_none (Nat.le_of_not_lt hcc)] at hop
      have : pc s t < (thread P t).length := by omega
      simp [opAt, List.getElem?_eq_getElem this] at hend

/-- **C08, partial (prototype)**: once the derived context is done (the caller cancelled, a goroutine failed, or
    `eg.Wait` was passed — in particular after the main thread left through a ctx-aware wait), every goroutine
    that is still running and spawned can take a step by itself; with the step bound this means none stays
    blocked. (What is *not* covered is exactly the known finding: a main-thread provider error returns without
    cancelling.) -/
theorem goroutine_moves_when_ctx_done {P : Prog} {env : Env} {rank : Op → Nat} (hw : WF P rank) {s : St}
    (hsh : Shape P s) (hcd : ctxDone s = true) {t : Nat} (ht0 : 0 < t) (htl : t < P.threads.length)
    (hrun : running s t) (hsp : spawned P s t) : Progress P env s := by
  have htP : t < s.pcs.length := by rw [hsh.lenP]; exact htl
  have htF : t < s.fin.length := by rw [hsh.lenF]; exact htl
  cases hop : opAt P t (pc s t) with
  | none => exact ⟨_, Step.goEnd ht0 htl hrun hsp hop, moved_finish htF hrun⟩
  | some op =>
    cases op with
    | wait o c k =>
      have hk : k = true := hw.waitsCtx t o c k (opAt_mem hop)
      subst hk
      exact ⟨_, Step.waitCtx htl hrun hsp hop hcd, moved_finish htF hrun⟩
    | enter o args => exact ⟨_, Step.enter htl hrun hsp hop, moved_advance htP⟩
    | exit o rets f =>
      by_cases hfail : (f && env.fails o) = true
      · simp only [Bool.and_eq_true] at hfail
        obtain ⟨hf, hfo⟩ := hfail
        subst hf
        exact ⟨_, Step.exitFail htl hrun hsp hop hfo, moved_finish htF hrun⟩
      · exact ⟨_, Step.exitOk htl hrun hsp hop (by simpa using hfail), moved_advance htP⟩
    | close o c => exact ⟨_, Step.close htl hrun hsp hop, moved_advance htP⟩
    | spawn g =>
      have := hw.mainOnly t _ (opAt_mem hop) (Or.inr (Or.inr ⟨g, rfl⟩)); omega
    | egwait =>
      have := hw.mainOnly t _ (opAt_mem hop) (Or.inl rfl); omega
    | ret v =>
      have := hw.mainOnly t _ (opAt_mem hop) (Or.inr (Or.inl ⟨v, rfl⟩)); omega

end T1F
