import KV.Stmts
import KV.VarPool
import KV.Imports
import KV.Generated.Reserved
/-! Canonical dumps of the executable models, as printed by the line-protocol driver and compared with the
    implementation's dumps.  Definitions only.

    `plan` is the composition the Tier 2 theorems are about (`newGraph2`, `build2`, `buildStmts2`). -/
namespace KV

structure PlanOut where
  g : Graph
  b : BuildOut
  parent : List Nat
  chains : List (List Nat)

def plan (provs : List PSpec) (ret : Nat) : Except PlanErr PlanOut := do
  let g ← newGraph2 provs ret
  let b ← build2 g
  let (parent, chains) ← buildStmts2 g b.pools
  pure { g := g, b := b, parent := parent, chains := chains }

def hasAsyncNodes (g : Graph) : Bool := (List.range g.nodes.length).any (isAsyncNode g)

/-- type key of `context.Context` in the abstract declarations -/
def ctxTy : Nat := 0

def argTypes (p : PlanOut) : List Nat :=
  p.b.args.map (fun pi => (p.g.nodes.getD (p.b.params.getD pi default).node default).ty)

/-- `injectContextArg`: with an Async provider among the nodes, `context.Context` is the first parameter
    (an existing one is moved, otherwise one is added) -/
def sigArgs (p : PlanOut) : List Nat :=
  if hasAsyncNodes p.g then ctxTy :: (argTypes p).erase ctxTy else argTypes p

def planDumpX (provs : List PSpec) (ret : Nat) : String :=
  match plan provs ret with
  | .error e => s!"ERR {errStr e}"
  | .ok p =>
    let thr := fun (l : List Nat) => " ".intercalate (l.map (dumpCall true p.g p.b))
    let rp := p.b.params.getD p.b.retParam default
    let retS := if rp.isArg then s!"a{rp.node}:{(p.g.nodes.getD rp.node default).ty}" else s!"v{rp.node}.{rp.group}"
    s!"OK async={hasAsyncNodes p.g} err={p.b.isErr} args={sigArgs p} main=[{thr p.parent}] go=[{" | ".intercalate (p.chains.map thr)}] ret={retS}"

/-! ### end-to-end form: what `harness/extract` recovers from the emitted `*_band.go` text -/

/-- declaration-level identity of a value: argument by type key, provider result by declaration index and
    result group, field read by field name -/
def valueIdE (g : Graph) (b : BuildOut) (pidx : Nat) : String :=
  let p := b.params.getD pidx default
  let nd := g.nodes.getD p.node default
  if nd.isArg then s!"A{nd.ty}"
  else
    let spec := g.provs.getD nd.prov default
    if spec.kind == 2 then s!"F.{spec.fieldName}" else s!"P{spec.decl}.{p.group}"

/-- one emitted statement: waits (`w` plain receive, `W` select with ctx.Done), call, error check (`!`), closes (`c`) -/
def dumpCallE (g : Graph) (b : BuildOut) (ctxAware : Bool) (n : Nat) : String :=
  let nd := g.nodes.getD n default
  let spec := g.provs.getD nd.prov default
  let argS := (b.nodeArgs.getD n []).map (fun a =>
    let p := b.params.getD a.param default
    let waited := a.isWait && p.withChan && spec.kind != 2
    s!"{valueIdE g b a.param}{if waited then (if ctxAware then "^W" else "^w") else ""}")
  let retS := (b.nodeRets.getD n []).map (fun r =>
    let p := b.params.getD r default
    s!"{if p.refs == 0 then "_" else "r"}{if p.withChan then "c" else ""}")
  let head := if spec.kind == 2 then s!"F.{spec.fieldName}" else s!"P{spec.decl}"
  s!"{head}({",".intercalate argS})->({",".intercalate retS}){if spec.isErr then "!" else ""}"

def planDumpE (provs : List PSpec) (ret : Nat) : String :=
  match plan provs ret with
  | .error e => s!"ERR {errStr e}"
  | .ok p =>
    let hasCtx := hasAsyncNodes p.g
    let thr := fun (ctxAware : Bool) (l : List Nat) => " ".intercalate (l.map (dumpCallE p.g p.b ctxAware))
    let eg := if p.chains.isEmpty then "none" else if p.b.isErr then "check" else "ignore"
    s!"OK err={p.b.isErr} args={sigArgs p} main=[{thr (hasCtx && p.b.isErr) p.parent}] go=[{" | ".intercalate (p.chains.map (thr hasCtx))}] ret={valueIdE p.g p.b p.b.retParam} egwait={eg}"

end KV

namespace VP

def isUpperAscii (c : Char) : Bool := 'A' ≤ c && c ≤ 'Z'

/-- `strings.ToLowerCamel`: lower-case the leading run of upper-case letters (ASCII identifiers) -/
def toLowerCamel (s : String) : String :=
  let cs := s.toList
  let up := cs.takeWhile isUpperAscii
  String.ofList (up.map Char.toLower ++ cs.drop up.length)

/-- the pool `NewVarPool` starts from, regenerated from const.go -/
def seedPool : Pool := (Gen.predeclared ++ Gen.keywords ++ Gen.generatorLocals).foldl (fun p k => setCount p k 1) []

inductive Req where
  | name (base : String)        -- GetName(base)
  | ofType (tyName : String)    -- Get(named type)
  | chanOf (tyName : String)    -- GetChannel(named type)

def Req.base : Req → String
  | .name b => b
  | .ofType t => toLowerCamel t
  | .chanOf t => toLowerCamel t ++ "Ch"

end VP
