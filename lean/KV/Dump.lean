import KV.Stmts
import KV.VarPool
import KV.Imports
import KV.Generated.Reserved
/-! Canonical dumps of the executable models, as printed by the line-protocol driver and compared with the
    implementation's dumps.  Definitions only.

    `plan` is the composition the Tier 2 theorems are about (`newGraph2`, `build2`, `buildStmts2`). -/
namespace KV

structure PlanOut where
  g : Graph
  b : BuildOut
  parent : List Nat
  chains : List (List Nat)

def plan (provs : List PSpec) (ret : Nat) : Except PlanErr PlanOut := do
  let g ← newGraph2 provs ret
  let b ← build2 g
  let (parent, chains) ← buildStmts2 g b.pools
  pure { g := g, b := b, parent := parent, chains := chains }

def hasAsyncNodes (g : Graph) : Bool := (List.range g.nodes.length).any (isAsyncNode g)

/-- type key of `context.Context` in the abstract declarations -/
def ctxTy : Nat := 0

def argTypes (p : PlanOut) : List Nat :=
  p.b.args.map (fun pi => (p.g.nodes.getD (p.b.params.getD pi default).node default).ty)

/-- `injectContextArg`: with an Async provider among the nodes, `context.Context` is the first parameter
    (an existing one is moved, otherwise one is added) -/
def sigArgs (p : PlanOut) : List Nat :=
  if hasAsyncNodes p.g then ctxTy :: (argTypes p).erase ctxTy else argTypes p

def planDumpX (provs : List PSpec) (ret : Nat) : String :=
  match plan provs ret with
  | .error e => s!"ERR {errStr e}"
  | .ok p =>
    let thr := fun (l : List Nat) => " ".intercalate (l.map (dumpCall true p.g p.b))
    let rp := p.b.params.getD p.b.retParam default
    let retS := if rp.isArg then s!"a{rp.node}:{(p.g.nodes.getD rp.node default).ty}" else s!"v{rp.node}.{rp.group}"
    s!"OK async={hasAsyncNodes p.g} err={p.b.isErr} args={sigArgs p} main=[{thr p.parent}] go=[{" | ".intercalate (p.chains.map thr)}] ret={retS}"

end KV

namespace VP

def isUpperAscii (c : Char) : Bool := 'A' ≤ c && c ≤ 'Z'

/-- `strings.ToLowerCamel`: lower-case the leading run of upper-case letters (ASCII identifiers) -/
def toLowerCamel (s : String) : String :=
  let cs := s.toList
  let up := cs.takeWhile isUpperAscii
  String.ofList (up.map Char.toLower ++ cs.drop up.length)

/-- the pool `NewVarPool` starts from, regenerated from const.go -/
def seedPool : Pool := (Gen.predeclared ++ Gen.keywords).foldl (fun p k => setCount p k 1) []

inductive Req where
  | name (base : String)        -- GetName(base)
  | ofType (tyName : String)    -- Get(named type)
  | chanOf (tyName : String)    -- GetChannel(named type)

def Req.base : Req → String
  | .name b => b
  | .ofType t => toLowerCamel t
  | .chanOf t => toLowerCamel t ++ "Ch"

end VP
