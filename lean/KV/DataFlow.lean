import KV.Top
/-! Prototype (scratch): C01 for every accepted declaration — plan facts ⇒ `T1.PlanData` ⇒ ordering and
    race freedom of the emitted program. -/
namespace KV

def isParamOf (b : BuildOut) (v : Nat) : Prop := (b.params.getD v default).isArg = true

/-- a node of thread `t` lies in the pool whose index is the `t`-th entry of `pi :: cis` -/
theorem thread_pool {b : BuildOut} {pi : Nat} {cis : List Nat} {t : Nat} {nd : T1.NodeInfo}
    (h : nd ∈ T1.threadNodes ((b.pools.getD pi []).map (nodeInfo b))
      ((cis.map (b.pools.getD · [])).map (·.map (nodeInfo b))) t) :
    ∃ n q, nd = nodeInfo b n ∧ (pi :: cis)[t]? = some q ∧ n ∈ b.pools.getD q [] := by
  cases t with
  | zero =>
    simp only [T1.threadNodes, List.mem_map] at h
    obtain ⟨n, hn, rfl⟩ := h
    exact ⟨n, pi, rfl, rfl, hn⟩
  | succ gI =>
    simp only [T1.threadNodes, List.getD_eq_getElem?_getD, List.getElem?_map] at h
    cases hc : cis[gI]? with
    | none => simp [hc] at h
    | some q =>
      simp only [hc, Option.map_some, Option.getD_some, List.mem_map] at h
      obtain ⟨n, hn, rfl⟩ := h
      exact ⟨n, q, rfl, by simpa using hc, hn⟩

theorem thread_of_pool {b : BuildOut} {pi : Nat} {cis : List Nat} {t q n : Nat}
    (hq : (pi :: cis)[t]? = some q) (hn : n ∈ b.pools.getD q []) :
    nodeInfo b n ∈ T1.threadNodes ((b.pools.getD pi []).map (nodeInfo b))
      ((cis.map (b.pools.getD · [])).map (·.map (nodeInfo b))) t := by
  cases t with
  | zero =>
    simp only [List.getElem?_cons_zero, Option.some.injEq] at hq
    subst hq
    simp only [T1.threadNodes]
    exact List.mem_map_of_mem hn
  | succ gI =>
    simp only [List.getElem?_cons_succ] at hq
    simp only [T1.threadNodes, List.getD_eq_getElem?_getD, List.getElem?_map, hq, Option.map_some,
      Option.getD_some]
    exact List.mem_map_of_mem hn

theorem planData_of_planOK {g : Graph} {b : BuildOut} {parent : List Nat} {chains : List (List Nat)}
    (hp : PlanOK g b parent chains) :
    T1.PlanData (parent.map (nodeInfo b)) (chains.map (·.map (nodeInfo b))) (posOf (topoOrder g)) (isParamOf b) := by
  obtain ⟨st1, h1, hpools, hrets, hnpool, params0, h2, hplen, hpArg, hpNode⟩ := hp.p1
  obtain ⟨pi, cis, hpar, hch, hnd⟩ := hp.stmts.idx
  subst hpar; subst hch
  -- which pool a node is in is determined by nodePool
  have hpoolOf : ∀ q n, n ∈ b.pools.getD q [] → b.nodePool.getD n none = some q := by
    intro q n hn; rw [← hnpool]; exact h1.poolOf q n (by rw [hpools]; exact hn)
  have hinOrder : ∀ q n, n ∈ b.pools.getD q [] → n ∈ topoOrder g := by
    intro q n hn; exact (h1.sub q).subset (by rw [hpools]; exact hn)
  have htidx : ∀ (t t' q : Nat), (pi :: cis)[t]? = some q → (pi :: cis)[t']? = some q → t = t' := by
    intro t t' q h h'
    have hlt : t < (pi :: cis).length := by
      apply Classical.byContradiction; intro hc
      rw [List.getElem?_eq_none (Nat.le_of_not_lt hc)] at h; cases h
    exact (List.getElem?_inj hlt hnd).mp (h.trans h'.symm)
  have hparamEq : ∀ v, (b.params.getD v default).isArg = (st1.params.getD v default).isArg := by
    intro v
    have := h2.pisArg v
    simp only at this
    rw [this, hpArg]
  have hparamNode : ∀ v, (b.params.getD v default).node = (st1.params.getD v default).node := by
    intro v
    have := h2.pnode v
    simp only at this
    rw [this, hpNode]
  refine { idsDistinct := ?_, retsOwner := ?_, reads := ?_ }
  · intro t t' nd nd' hnd1 hnd2 hid
    obtain ⟨n, q, rfl, hq, hn⟩ := thread_pool hnd1
    obtain ⟨n', q', rfl, hq', hn'⟩ := thread_pool hnd2
    have hnn : n = n' := hid
    subst hnn
    have := (hpoolOf q n hn).symm.trans (hpoolOf q' n hn')
    cases this
    exact ⟨htidx t t' q hq hq', rfl⟩
  · intro t t' nd nd' v bb bb' hnd1 hnd2 hr hr'
    obtain ⟨n, q, rfl, hq, hn⟩ := thread_pool hnd1
    obtain ⟨n', q', rfl, hq', hn'⟩ := thread_pool hnd2
    simp only [nodeInfo, List.mem_map] at hr hr'
    obtain ⟨r, hrm, hre⟩ := hr
    obtain ⟨r', hrm', hre'⟩ := hr'
    have e1 : r = v := (Prod.mk.inj hre).1
    have e2 : r' = v := (Prod.mk.inj hre').1
    subst e1
    rw [e2] at hrm'
    have o1 := h1.retsOwner n r (by rw [hrets]; exact hrm)
    have o2 := h1.retsOwner n' r (by rw [hrets]; exact hrm')
    show n = n'
    rw [← o1, ← o2]
  · intro t nd hndt v w hvw hnp
    obtain ⟨m, qm, rfl, hqm, hmq⟩ := thread_pool hndt
    have hmo := hinOrder qm m hmq
    have hml := hp.order_lt m hmo
    simp only [nodeInfo, List.mem_map] at hvw
    obtain ⟨a, ha, hav⟩ := hvw
    have hav1 : a.param = v := (Prod.mk.inj hav).1
    have hav2 : (a.isWait && (b.params.getD a.param default).withChan) = w := (Prod.mk.inj hav).2
    obtain ⟨i, hil, hget⟩ := List.getElem_of_mem ha
    have hslots : (b.nodeArgs.getD m []).length = nodeSlots g m := h2.slotLen m hml
    have hirev : i < (g.rev.getD m []).length := by
      rw [← hp.gwf.slotsEq m hml, ← hslots]; exact hil
    obtain ⟨pre, post, hsplit⟩ := List.append_of_mem hmo
    obtain ⟨n, hnpre, e, he, hed, hes⟩ := hp.order_sound pre m post hsplit i hirev
    have hno : n ∈ topoOrder g := by rw [hsplit]; exact List.mem_append_left _ hnpre
    have hpair : (n, e) ∈ edgePairs g (topoOrder g) := by
      simp only [edgePairs, List.mem_flatMap, List.mem_map]
      exact ⟨n, hno, e, he, rfl⟩
    obtain ⟨y, hy, hyd, hys, hval⟩ := h2.written (n, e) hpair (by simpa [hed] using hml)
      (by simp only [hed, hes]; rw [← hslots]; exact hil)
    simp only [edgePairs, List.mem_flatMap, List.mem_map] at hy
    obtain ⟨n', hn'o, e', he', rfl⟩ := hy
    obtain ⟨hnn, hee⟩ := hp.gwf.edgeUnique n n' e e' he he' hyd.symm hys.symm
    subst hnn; subst hee
    have hentry : a = argVal st1 n e := by
      simp only [hed, hes] at hval
      have : (b.nodeArgs.getD m []).getD i dfltArg = a := by
        rw [getD_eq_getElem' _ _ _ hil]; exact hget
      rw [← this]; exact hval
    have hv' : v = (b.nodeRets.getD n []).getD e.src 0 := by
      rw [← hav1, hentry]; simp only [argVal, hrets]
    have hnl := hp.order_lt n hno
    have hsrc := hp.gwf.srcLt n e he hnl
    have hlen := h1.retsLen n hno
    rw [hrets] at hlen
    have hsrc' : e.src < (b.nodeRets.getD n []).length := by rw [hlen]; exact hsrc
    have hvmem : v ∈ b.nodeRets.getD n [] := by
      rw [hv', getD_eq_getElem' _ _ _ hsrc']
      exact List.getElem_mem hsrc'
    -- n is a provider, since v is not a parameter
    have hnArg : isArgNode g n = false := by
      have h3 := h1.retsArg n v (by rw [hrets]; exact hvmem)
      cases hia : isArgNode g n with
      | false => rfl
      | true =>
        exfalso; apply hnp
        show (b.params.getD v default).isArg = true
        rw [hparamEq, h3, hia]
    obtain ⟨qn, hqk, hnq⟩ := h1.placed n hno hnArg hp.k_pos
    rw [hpools] at hnq
    have hpos : posOf (topoOrder g) n < posOf (topoOrder g) m := idxOf_lt_of_mem_pre hp.order_nodup hsplit hnpre
    have hretmem : (v, (b.params.getD v default).withChan) ∈ (nodeInfo b n).rets := by
      simp only [nodeInfo, List.mem_map]; exact ⟨v, hvmem, rfl⟩
    -- same pool or different pool?
    have hwait : a.isWait = shouldWaitB st1 n m := by rw [hentry]; simp only [argVal, hed]
    have hpn : st1.nodePool.getD n none = some qn := by rw [hnpool]; exact hpoolOf qn n hnq
    have hpm : st1.nodePool.getD m none = some qm := by rw [hnpool]; exact hpoolOf qm m hmq
    by_cases hsame : qn = qm
    · -- same pool ⇒ same thread
      subst hsame
      exact ⟨t, nodeInfo b n, _, thread_of_pool hqm hnq, hretmem, hpos, Or.inl rfl⟩
    · -- different pool ⇒ waited, and the variable has a channel
      have hsw : shouldWaitB st1 n m = true := by
        simp only [shouldWaitB, hpn, hpm]
        simp [hsame]
      -- the thread of pool qn
      have hqnIdx : ∃ t' : Nat, (pi :: cis)[t']? = some qn := by
        rcases hp.stmts.cover qn n hnq with hnp' | ⟨c, hc, hnc⟩
        · -- n ∈ parent = pools[pi] ⇒ qn = pi
          have := (hpoolOf pi n hnp').symm.trans (hpoolOf qn n hnq)
          cases this
          exact ⟨0, rfl⟩
        · simp only [List.mem_map] at hc
          obtain ⟨ci, hci, rfl⟩ := hc
          have := (hpoolOf ci n hnc).symm.trans (hpoolOf qn n hnq)
          cases this
          obtain ⟨gI, hgl, hgget⟩ := List.getElem_of_mem hci
          exact ⟨gI + 1, by simp [List.getElem?_eq_getElem hgl, hgget]⟩
      obtain ⟨t', ht'⟩ := hqnIdx
      have hvlt : v < params0.length := by
        rw [hplen]; exact h1.retsLt n v (by rw [hrets]; exact hvmem)
      have hvna : (params0.getD v default).isArg = false := by
        rw [hpArg, h1.retsArg n v (by rw [hrets]; exact hvmem)]; exact hnArg
      have hchan := h2.chan (n, e) hpair (by simpa [hed] using hsw)
        (by simp only [argVal]; rw [hrets, ← hv']; exact hvlt)
        (by simp only [argVal]; rw [hrets, ← hv']; exact hvna)
      have hwc : (b.params.getD v default).withChan = true := by
        simp only [argVal] at hchan
        rw [hrets, ← hv'] at hchan
        exact hchan
      refine ⟨t', nodeInfo b n, _, thread_of_pool ht' hnq, hretmem, hpos, Or.inr ⟨?_, hwc⟩⟩
      rw [← hav2, hav1, hwc, hwait, hsw]; rfl

/-- **C01 (prototype), ordering**: in every reachable state of the program emitted for an accepted declaration,
    a provider about to be entered has all its non-parameter inputs already written by their producers. -/
theorem kessoku_enter_after_writes {provs0 : List PSpec} {ret : Nat} {g : Graph} {b : BuildOut}
    {parent : List Nat} {chains : List (List Nat)}
    (hg : newGraph2 provs0 ret = .ok g) (hb : build2 g = .ok b)
    (hs : buildStmts2 g b.pools = .ok (parent, chains))
    {s : T1.Pcs} (hr : T1.Reach (emitPlan b parent chains) s)
    {t o : Nat} {args : List Nat} {v : Nat}
    (hop : T1.opAt (emitPlan b parent chains) t (T1.pc s t) = some (.enter o args)) (hv : v ∈ args)
    (hnp : ¬ isParamOf b v) : T1.written (emitPlan b parent chains) s v := by
  have hgw := newGraph2_gwf hg
  have hpf : PoolFacts g (topoOrder g) b.pools := by rw [build2_pools hb]; exact poolFacts_of_build hgw _
  obtain ⟨hsf, hk⟩ := stmtFacts_of_buildStmts2 hpf hs
  have hok := planOK_of_build2 hgw hb hsf hk
  exact T1.enter_after_writes (T1.emit_wf (planFacts_of_planOK hok))
    (T1.emit_wfdata (planFacts_of_planOK hok) (planData_of_planOK hok)) hr hop hv hnp

/-- **C01 (prototype), race freedom**: no reachable state has one thread about to read a variable and
    another thread about to write it. -/
theorem kessoku_no_race {provs0 : List PSpec} {ret : Nat} {g : Graph} {b : BuildOut}
    {parent : List Nat} {chains : List (List Nat)}
    (hg : newGraph2 provs0 ret = .ok g) (hb : build2 g = .ok b)
    (hs : buildStmts2 g b.pools = .ok (parent, chains))
    {s : T1.Pcs} (hr : T1.Reach (emitPlan b parent chains) s)
    {t t' o o' : Nat} {args rets : List Nat} {v : Nat}
    (hrd : T1.opAt (emitPlan b parent chains) t (T1.pc s t) = some (.enter o args)) (hv : v ∈ args)
    (hnp : ¬ isParamOf b v)
    (hwr : T1.opAt (emitPlan b parent chains) t' (T1.pc s t') = some (.exit o' rets)) (hv' : v ∈ rets) : False := by
  have hgw := newGraph2_gwf hg
  have hpf : PoolFacts g (topoOrder g) b.pools := by rw [build2_pools hb]; exact poolFacts_of_build hgw _
  obtain ⟨hsf, hk⟩ := stmtFacts_of_buildStmts2 hpf hs
  have hok := planOK_of_build2 hgw hb hsf hk
  exact T1.no_race (T1.emit_wf (planFacts_of_planOK hok))
    (T1.emit_wfdata (planFacts_of_planOK hok) (planData_of_planOK hok)) hr hrd hv hnp hwr hv'

end KV
