import KV.Calls
/-! # C02 (stretch) — the value returned by the emitted program is the value wired by the graph

`KV.Calls` shows that the emitted program enters every provider node exactly once and returns the variable
`p.b.retParam`, result number `p.g.retIdx` of the `exit` of node `p.g.retNode`.  The micro-op semantics `T1` carries
no values, so here the contents of the variables are described symbolically (`VarVal`, Herbrand terms as in
`KV.Eval`): a parameter holds the caller's argument, and the `exit n rets` that follows `enter n args` stores in
`rets[gi]` the provider of `n` (result group `gi`) applied to the contents of `args`.  This reading is justified by
C01/C02 (`T1.WFData.singleWriter`, `C02_reads_written`): every variable has one writer and is read after it is
written, under every schedule.

* `enter_args_wired` : slot `i` of an emitted `enter m args` is the result variable `e.src` of the producer node
  the graph wires to slot `i` of `m`.
* `varVal_sound`     : contents of result variable `gi` of node `n` = the value `NVal` the graph wires out of `(n, gi)`.
* `returned_value`   : the returned variable has exactly one content, and it is `GraphVal p.g`, the reference
  evaluation `Eval` of the requested type. -/
namespace KV

/-! ## result variables of a node are pairwise distinct -/

/-- first pass of `Build`: result variable number `gi` of a node is a parameter record of group `gi` -/
structure P1Grp (st : P1St) : Prop where
  retsLt : ∀ n v, v ∈ st.nodeRets.getD n [] → v < st.params.length
  grp : ∀ n gi v, (st.nodeRets.getD n [])[gi]? = some v → (st.params.getD v default).group = gi

theorem getD_set_cases {α} (l : List α) (i j : Nat) (a d : α) :
    (l.set i a).getD j d = l.getD j d ∨ (j = i ∧ (l.set i a).getD j d = a) := by
  by_cases hji : j = i
  · by_cases hl : i < l.length
    · right; subst hji; exact ⟨rfl, getD_set_self _ _ _ _ hl⟩
    · left; rw [List.set_eq_of_length_le (Nat.le_of_not_lt hl)]
  · left; exact getD_set_other _ _ _ _ _ hji

theorem p1Init_grp (g : Graph) (k : Nat) : P1Grp (p1Init g k) := by
  have hnil : ∀ n, (p1Init g k).nodeRets.getD n [] = [] := by
    intro n
    simp only [p1Init, List.getD_eq_getElem?_getD, List.getElem?_replicate]
    split <;> rfl
  refine ⟨?_, ?_⟩
  · intro n v hv; rw [hnil] at hv; simp at hv
  · intro n gi v hv; rw [hnil] at hv; simp at hv

theorem p1Step_grp {g : Graph} {st : P1St} (n : Nat) (h : P1Grp st) : P1Grp (p1Step g st n) := by
  unfold p1Step
  by_cases harg : (g.nodes.getD n default).isArg = true
  · simp only [harg, ↓reduceIte]
    refine ⟨?_, ?_⟩
    · intro n' v hv
      simp only [List.length_append, List.length_singleton]
      rcases getD_set_cases st.nodeRets n n' [st.params.length] [] with hc | ⟨_, hc⟩
      · rw [hc] at hv; have := h.retsLt n' v hv; omega
      · rw [hc] at hv; simp at hv; omega
    · intro n' gi v hv
      rcases getD_set_cases st.nodeRets n n' [st.params.length] [] with hc | ⟨_, hc⟩
      · rw [hc] at hv
        have hlt := h.retsLt n' v (List.mem_of_getElem? hv)
        rw [getD_append_left _ _ _ _ hlt]
        exact h.grp n' gi v hv
      · rw [hc] at hv
        cases gi with
        | zero =>
          simp only [List.getElem?_cons_zero, Option.some.injEq] at hv
          subst hv
          rw [getD_append_right_new]
        | succ k => simp at hv
  · have harg' : (g.nodes.getD n default).isArg = false := by simpa using harg
    simp only [harg', Bool.false_eq_true, ↓reduceIte]
    generalize (g.provs.getD (g.nodes.getD n default).prov default).provides.length = ng
    refine ⟨?_, ?_⟩
    · intro n' v hv
      simp only [List.length_append, List.length_map, List.length_range]
      rcases getD_set_cases st.nodeRets n n' ((List.range ng).map (· + st.params.length)) [] with hc | ⟨_, hc⟩
      · rw [hc] at hv; have := h.retsLt n' v hv; omega
      · rw [hc] at hv
        simp only [List.mem_map, List.mem_range] at hv
        obtain ⟨a, ha, rfl⟩ := hv
        omega
    · intro n' gi v hv
      rcases getD_set_cases st.nodeRets n n' ((List.range ng).map (· + st.params.length)) [] with hc | ⟨_, hc⟩
      · rw [hc] at hv
        have hlt := h.retsLt n' v (List.mem_of_getElem? hv)
        rw [getD_append_left _ _ _ _ hlt]
        exact h.grp n' gi v hv
      · rw [hc] at hv
        have hgl : gi < ng := by
          apply Classical.byContradiction; intro hcc
          rw [List.getElem?_eq_none (by simp; omega)] at hv; cases hv
        have hgl' : gi < (List.range ng).length := by simpa using hgl
        rw [List.getElem?_map, List.getElem?_eq_getElem hgl', List.getElem_range] at hv
        simp only [Option.map_some, Option.some.injEq] at hv
        subst hv
        rw [List.getD_eq_getElem?_getD, List.getElem?_append_right (by omega)]
        have hsub : gi + st.params.length - st.params.length = gi := by omega
        rw [hsub, List.getElem?_map, List.getElem?_eq_getElem hgl', List.getElem_range]
        rfl

theorem bpass1_grp (g : Graph) (order : List Nat) (k : Nat) : P1Grp (bpass1 g order k) := by
  unfold bpass1
  generalize hst : p1Init g k = st
  have hI : P1Grp st := hst ▸ p1Init_grp g k
  clear hst
  induction order generalizing st with
  | nil => exact hI
  | cons x xs ih => exact ih _ (p1Step_grp x hI)

/-- a variable is result number `gi` of at most one (node, group) pair -/
theorem nodeRets_inj {provs0 : List PSpec} {ret : Nat} {p : PlanOut} (h : plan provs0 ret = .ok p)
    {n n' gi gi' v : Nat} (h1 : (p.b.nodeRets.getD n [])[gi]? = some v)
    (h2 : (p.b.nodeRets.getD n' [])[gi']? = some v) : n = n' ∧ gi = gi' := by
  obtain ⟨_, hb, _⟩ := plan_ok h
  obtain ⟨_, hnr, _⟩ := build2_ret hb
  have hG := bpass1_grp p.g (topoOrder p.g) (maxAntichain p.g)
  have hok := plan_planOK h
  obtain ⟨st1, hp1, _, hrets, _, _⟩ := hok.p1
  refine ⟨?_, ?_⟩
  · have o1 := hp1.retsOwner n v (by rw [hrets]; exact List.mem_of_getElem? h1)
    have o2 := hp1.retsOwner n' v (by rw [hrets]; exact List.mem_of_getElem? h2)
    rw [← o1, ← o2]
  · rw [hnr] at h1 h2
    rw [← hG.grp n gi v h1, ← hG.grp n' gi' v h2]

/-! ## the arguments of an emitted call are the variables the graph wires to its slots -/

theorem enter_args_wired {provs0 : List PSpec} {ret : Nat} {p : PlanOut} (h : plan provs0 ret = .ok p)
    {t m : Nat} {args : List Nat} (hen : T1.Op.enter m args ∈ T1.thread (emitted p) t) :
    m ∈ topoOrder p.g ∧ args.length = (greqs p.g m).length ∧
    ∀ i a, args[i]? = some a → ∃ n e, n ∈ topoOrder p.g ∧
      posOf (topoOrder p.g) n < posOf (topoOrder p.g) m ∧ e ∈ p.g.edges.getD n [] ∧ e.dst = m ∧ e.slot = i ∧
      (p.b.nodeRets.getD n [])[e.src]? = some a := by
  have hok := plan_planOK h
  obtain ⟨_, hargs, hm⟩ := enter_mem_emitted hen
  obtain ⟨q, hq⟩ := thread_node_in_pool hok hm
  obtain ⟨st1, h1, hpools, hrets, hnpool, params0, h2, hplen, hpArg, hpNode⟩ := hok.p1
  have hmo : m ∈ topoOrder p.g := (h1.sub q).subset (by rw [hpools]; exact hq)
  have hml := hok.order_lt m hmo
  have hargs' : args = (p.b.nodeArgs.getD m []).map (·.param) := by
    rw [hargs]; simp only [nodeInfo, List.map_map]; rfl
  have hslots : (p.b.nodeArgs.getD m []).length = nodeSlots p.g m := h2.slotLen m hml
  have hrevlen : nodeSlots p.g m = (p.g.rev.getD m []).length := hok.gwf.slotsEq m hml
  refine ⟨hmo, ?_, ?_⟩
  · rw [hargs', List.length_map, hslots, hrevlen, greqs_length hok.gwf.toGWF hml]
  · intro i a hia
    have hil : i < (p.b.nodeArgs.getD m []).length := by
      apply Classical.byContradiction; intro hc
      rw [hargs', List.getElem?_map, List.getElem?_eq_none (Nat.le_of_not_lt hc)] at hia
      cases hia
    have ha : a = ((p.b.nodeArgs.getD m []).getD i dfltArg).param := by
      rw [hargs', List.getElem?_map, List.getElem?_eq_getElem hil] at hia
      rw [getD_eq_getElem' _ _ _ hil]
      exact (Option.some.inj hia).symm
    have hirev : i < (p.g.rev.getD m []).length := by rw [← hrevlen, ← hslots]; exact hil
    obtain ⟨pre, post, hsplit⟩ := List.append_of_mem hmo
    obtain ⟨n, hnpre, e, he, hed, hes⟩ := hok.order_sound pre m post hsplit i hirev
    have hno : n ∈ topoOrder p.g := by rw [hsplit]; exact List.mem_append_left _ hnpre
    have hpair : (n, e) ∈ edgePairs p.g (topoOrder p.g) := by
      simp only [edgePairs, List.mem_flatMap, List.mem_map]
      exact ⟨n, hno, e, he, rfl⟩
    obtain ⟨y, hy, hyd, hys, hval⟩ := h2.written (n, e) hpair (by simpa [hed] using hml)
      (by simp only [hed, hes]; rw [← hslots]; exact hil)
    simp only [edgePairs, List.mem_flatMap, List.mem_map] at hy
    obtain ⟨n', hn'o, e', he', rfl⟩ := hy
    obtain ⟨hnn, hee⟩ := hok.gwf.edgeUnique n n' e e' he he' hyd.symm hys.symm
    subst hnn; subst hee
    simp only [hed, hes] at hval
    have hv' : a = (p.b.nodeRets.getD n []).getD e.src 0 := by
      rw [ha]
      have : ((p.b.nodeArgs.getD m []).getD i dfltArg) = argVal st1 n e := hval
      rw [this]; simp only [argVal, hrets]
    have hnl := hok.order_lt n hno
    have hsrc := hok.gwf.srcLt n e he hnl
    have hlen := h1.retsLen n hno
    rw [hrets] at hlen
    have hsrc' : e.src < (p.b.nodeRets.getD n []).length := by rw [hlen]; exact hsrc
    refine ⟨n, e, hno, idxOf_lt_of_mem_pre hok.order_nodup hsplit hnpre, he, hed, hes, ?_⟩
    rw [List.getElem?_eq_getElem hsrc', hv', getD_eq_getElem' _ _ _ hsrc']

/-! ## symbolic contents of the variables -/

mutual
/-- `VarVal p v x`: after a complete run of the emitted program, variable `v` holds `x` -/
inductive VarVal (p : PlanOut) : Nat → Val → Prop
  /-- a parameter of the injector holds the caller's argument of its type -/
  | param {v : Nat} : (p.b.params.getD v default).isArg = true →
      VarVal p v (.arg (p.g.nodes.getD (p.b.params.getD v default).node default).ty)
  /-- `enter n args … exit n rets` in one thread: `rets[gi]` holds result group `gi` of the provider of `n`
      applied to the contents of `args` -/
  | call {n t gi v : Nat} {args rets : List Nat} {vs : List Val} :
      T1.Op.enter n args ∈ T1.thread (emitted p) t → T1.Op.exit n rets ∈ T1.thread (emitted p) t →
      VarVals p args vs → rets[gi]? = some v → VarVal p v (.app (p.g.nodes.getD n default).prov gi vs)
inductive VarVals (p : PlanOut) : List Nat → List Val → Prop
  | nil : VarVals p [] []
  | cons {a : Nat} {as : List Nat} {x : Val} {xs : List Val} :
      VarVal p a x → VarVals p as xs → VarVals p (a :: as) (x :: xs)
end

/-- the variables `as` are the ones the graph wires to slots `i, i+1, …` of node `m` -/
def WiredFrom (p : PlanOut) (m i : Nat) (as : List Nat) : Prop :=
  as.length + i = (greqs p.g m).length ∧
  ∀ k a, as[k]? = some a → ∃ n e, n ∈ topoOrder p.g ∧ e ∈ p.g.edges.getD n [] ∧ e.dst = m ∧ e.slot = i + k ∧
    (p.b.nodeRets.getD n [])[e.src]? = some a

theorem wiredFrom_tail {p : PlanOut} {m i a : Nat} {as : List Nat} (h : WiredFrom p m i (a :: as)) :
    WiredFrom p m (i + 1) as := by
  refine ⟨by have := h.1; simp only [List.length_cons] at this; omega, ?_⟩
  intro k b hb
  obtain ⟨n, e, h1, h2, h3, h4, h5⟩ := h.2 (k + 1) b (by simpa using hb)
  exact ⟨n, e, h1, h2, h3, by omega, h5⟩

/-- the exit op of an emitted node carries the node's result variables -/
theorem exit_rets {p : PlanOut} {t n : Nat} {rets : List Nat}
    (h : T1.Op.exit n rets ∈ T1.thread (emitted p) t) : rets = p.b.nodeRets.getD n [] := by
  rw [emitted_eq] at h
  obtain ⟨nd, hnd, hb⟩ := T1.block_of_mem h (Or.inr (Or.inl ⟨n, rets, rfl⟩))
  obtain ⟨hid, hr⟩ := T1.exit_mem_block hb
  obtain ⟨m, rfl, _⟩ := threadNodes_mem hnd
  have hnm : n = m := hid
  subst hnm
  rw [hr]
  simp only [nodeInfo, List.map_map]
  exact List.map_id'' (fun _ => rfl) _

mutual
/-- **The contents of result variable `gi` of node `n` is the value the graph wires out of `(n, gi)`.** -/
theorem varVal_sound {provs0 : List PSpec} {ret : Nat} {p : PlanOut} (h : plan provs0 ret = .ok p) :
    ∀ {v : Nat} {x : Val}, VarVal p v x → ∀ n gi, n ∈ topoOrder p.g → (p.b.nodeRets.getD n [])[gi]? = some v →
      NVal p.g.nodes p.g.edges (greqs p.g) n gi x
  | v, _, .param hpar, n, gi, hno, hv => by
    have hok := plan_planOK h
    obtain ⟨st1, h1, _, hrets, _, params0, h2, _, hpArg, hpNode⟩ := hok.p1
    have hvm : v ∈ st1.nodeRets.getD n [] := by rw [hrets]; exact List.mem_of_getElem? hv
    have e1 := h2.pisArg v
    have e2 := h2.pnode v
    simp only at e1 e2
    have hia : isArgNode p.g n = true := by
      rw [← h1.retsArg n v hvm, ← hpArg, ← e1]; exact hpar
    have hnode : (p.b.params.getD v default).node = n := by
      rw [e2, hpNode]; exact h1.retsOwner n v hvm
    have hlen := h1.retsLen n hno
    rw [hia, hrets] at hlen
    simp only [↓reduceIte] at hlen
    have hgi : gi = 0 := by
      have : gi < (p.b.nodeRets.getD n []).length := by
        apply Classical.byContradiction; intro hc
        rw [List.getElem?_eq_none (Nat.le_of_not_lt hc)] at hv; cases hv
      omega
    rw [hnode, hgi]
    exact NVal.arg hia
  | v, _, .call (n := n') (t := t) (gi := gi') (args := args) (rets := rets) (vs := vs) hen hex hvs hr, n, gi, hno, hv => by
    have hrets := exit_rets hex
    rw [hrets] at hr
    obtain ⟨hnn, hgg⟩ := nodeRets_inj h hv hr
    subst hnn; subst hgg
    obtain ⟨_, hna⟩ := (enter_iff_node h n).mp ⟨t, args, hen⟩
    obtain ⟨_, hlen, hw⟩ := enter_args_wired h hen
    have hwired : WiredFrom p n 0 args := by
      refine ⟨by omega, ?_⟩
      intro k a hka
      obtain ⟨n2, e, h1, _, h3, h4, h5, h6⟩ := hw k a hka
      exact ⟨n2, e, h1, h3, h4, by omega, h6⟩
    exact NVal.app hna (varVals_sound h hvs n 0 hwired)

theorem varVals_sound {provs0 : List PSpec} {ret : Nat} {p : PlanOut} (h : plan provs0 ret = .ok p) :
    ∀ {as : List Nat} {xs : List Val}, VarVals p as xs → ∀ m i, WiredFrom p m i as →
      NSlots p.g.nodes p.g.edges (greqs p.g) m i xs
  | _, _, .nil, m, i, hw => by
    apply NSlots.done
    have := hw.1
    simp only [List.length_nil] at this
    omega
  | _, _, .cons (a := a) (as := as) (x := x) (xs := xs) hx hxs, m, i, hw => by
    obtain ⟨n, e, hno, he, hed, hes, hv⟩ := hw.2 0 a (by simp)
    have hil : i < (greqs p.g m).length := by
      have := hw.1; simp only [List.length_cons] at this; omega
    exact NSlots.slot hil he hed (by omega) (varVal_sound h hx n e.src hno hv)
      (varVals_sound h hxs m (i + 1) (wiredFrom_tail hw))
end

/-! ## every result variable has a content -/

theorem varVals_exist {p : PlanOut} : ∀ (as : List Nat), (∀ a ∈ as, ∃ x, VarVal p a x) → ∃ xs, VarVals p as xs
  | [], _ => ⟨[], .nil⟩
  | a :: as, hall => by
    obtain ⟨x, hx⟩ := hall a (List.mem_cons_self ..)
    obtain ⟨xs, hxs⟩ := varVals_exist as (fun b hb => hall b (List.mem_cons_of_mem _ hb))
    exact ⟨x :: xs, .cons hx hxs⟩

theorem varVal_exists {provs0 : List PSpec} {ret : Nat} {p : PlanOut} (h : plan provs0 ret = .ok p) :
    ∀ (k n : Nat), posOf (topoOrder p.g) n = k → n ∈ topoOrder p.g → ∀ (gi v : Nat), (p.b.nodeRets.getD n [])[gi]? = some v →
      ∃ x, VarVal p v x := by
  intro k
  induction k using Nat.strongRecOn with
  | _ k ih =>
    intro n hk hno gi v hv
    have hok := plan_planOK h
    obtain ⟨st1, h1, _, hrets, _, params0, h2, _, hpArg, _⟩ := hok.p1
    have hvm : v ∈ st1.nodeRets.getD n [] := by rw [hrets]; exact List.mem_of_getElem? hv
    cases hia : isArgNode p.g n with
    | true =>
      have e1 := h2.pisArg v
      simp only at e1
      have : (p.b.params.getD v default).isArg = true := by
        rw [e1, hpArg, h1.retsArg n v hvm]; exact hia
      exact ⟨_, VarVal.param this⟩
    | false =>
      obtain ⟨t, args, hen⟩ := (enter_iff_node h n).mpr ⟨hok.order_lt n hno, hia⟩
      obtain ⟨hnd, _, _⟩ := enter_mem_emitted hen
      have hex := exit_of_node hnd
      obtain ⟨_, _, hw⟩ := enter_args_wired h hen
      have hall : ∀ a ∈ args, ∃ x, VarVal p a x := by
        intro a ha
        obtain ⟨i, hil, hget⟩ := List.getElem_of_mem ha
        obtain ⟨n2, e, hn2, hpos, _, _, _, hv2⟩ := hw i a (by rw [List.getElem?_eq_getElem hil, hget])
        exact ih _ (hk ▸ hpos) n2 rfl hn2 e.src a hv2
      obtain ⟨vs, hvs⟩ := varVals_exist args hall
      exact ⟨_, VarVal.call hen hex hvs hv⟩

/-! ## the value returned -/

/-- **The emitted program returns the value wired by the graph, which is the reference value.**  For an accepted
    declaration the returned variable `p.b.retParam` has exactly one symbolic content; it is the value `GraphVal`
    wires out of the return node, i.e. the (unique) reference evaluation of the requested type. -/
theorem returned_value {provs0 provs : List PSpec} {sup : SupMap} {ret : Nat} {p : PlanOut}
    (h : plan provs0 ret = .ok p) (hs : supplierMap provs0 = .ok (provs, sup)) :
    ∃ x, VarVal p p.b.retParam x ∧ GraphVal p.g x ∧ Eval provs sup ret x ∧
      ∀ x', VarVal p p.b.retParam x' → x' = x := by
  obtain ⟨_, _, hrv⟩ := ret_var_wired h
  obtain ⟨_, hb, _⟩ := plan_ok h
  obtain ⟨_, _, hmem⟩ := build2_ret hb
  obtain ⟨x, hx⟩ := varVal_exists h _ p.g.retNode rfl hmem p.g.retIdx p.b.retParam hrv
  obtain ⟨v, hgv, hev, huniq, _⟩ := plan_value_spec h hs
  have hsound : ∀ x', VarVal p p.b.retParam x' → GraphVal p.g x' :=
    fun x' hx' => varVal_sound h hx' p.g.retNode p.g.retIdx hmem hrv
  have hxv : x = v := huniq x (hsound x hx)
  subst hxv
  exact ⟨x, hx, hgv, hev, fun x' hx' => huniq x' (hsound x' hx')⟩

/-! ## a concrete instance -/

/-- for `exDecl` and type 1 the emitted injector returns provider 0 applied to the caller's argument of type 2 -/
example : ∃ p, plan exDecl 1 = .ok p ∧ VarVal p p.b.retParam (.app 0 0 [.arg 2]) := by
  refine ⟨_, rfl, ?_⟩
  have hs : supplierMap exDecl = .ok (exDecl, [(1, (0, 0)), (3, (1, 0))]) := rfl
  obtain ⟨x, hx, _, hev, _⟩ := returned_value (provs0 := exDecl) (ret := 1) rfl hs
  have href : Eval exDecl [(1, (0, 0)), (3, (1, 0))] 1 (.app 0 0 [.arg 2]) :=
    Eval.app (p := 0) (gi := 0) rfl (EvalL.cons (Eval.arg rfl) EvalL.nil)
  rw [eval_unique href hev]
  exact hx

end KV
#print axioms KV.nodeRets_inj
#print axioms KV.enter_args_wired
#print axioms KV.varVal_sound
#print axioms KV.returned_value
