import KV.Pass1
/-! Prototype (scratch): a pool whose first node is synchronous has only argument dependencies
    (so it is an *initial* pool and the main thread is exactly one pool). -/
namespace KV

def SyncFirst (g : Graph) (st : P1St) : Prop :=
  ∀ i n rest, st.pools.getD i [] = n :: rest → isAsyncNode g n = false →
    ∀ d ∈ g.rev.getD n [], isArgNode g d = true

theorem p1Init_sync (g : Graph) (k : Nat) : SyncFirst g (p1Init g k) := by
  intro i n rest h
  have : (p1Init g k).pools.getD i [] = [] := by
    simp only [p1Init, List.getD_eq_getElem?_getD, List.getElem?_replicate]
    split <;> rfl
  rw [this] at h; cases h

theorem p1Step_sync {g : Graph} {k : Nat} {done : List Nat} {st : P1St} {n : Nat}
    (h : P1Inv g k done st) (hs : SyncFirst g st)
    (hdeps : ∀ d ∈ g.rev.getD n [], d ∈ done) : SyncFirst g (p1Step g st n) := by
  unfold p1Step
  by_cases ha : (g.nodes.getD n default).isArg = true
  · simp only [ha, ↓reduceIte]
    exact hs
  · simp only [ha, Bool.false_eq_true, ↓reduceIte]
    have hnA : isArgNode g n = false := by simpa [isArgNode] using ha
    intro i m rest hpool hsync
    show ∀ d ∈ g.rev.getD m [], isArgNode g d = true
    change (listModify st.pools (findOptimalPool2 g n st.pools st.poolProv) (· ++ [n])).getD i [] = m :: rest at hpool
    by_cases hip : i = findOptimalPool2 g n st.pools st.poolProv
    · by_cases hpl : i < st.pools.length
      · rw [hip] at hpool
        rw [getD_listModify_self _ _ _ _ (hip ▸ hpl)] at hpool
        cases hold : st.pools.getD (findOptimalPool2 g n st.pools st.poolProv) [] with
        | cons x xs =>
          -- head unchanged
          rw [hold] at hpool
          simp only [List.cons_append] at hpool
          have hmx : m = x := by injection hpool with h1 _; exact h1.symm
          subst hmx
          exact hs _ m xs hold hsync
        | nil =>
          -- n opened an empty pool: it is the head
          rw [hold] at hpool
          simp only [List.nil_append] at hpool
          have hmn : m = n := by injection hpool with h1 _; exact h1.symm
          subst hmn
          have hsn : isAsyncNode g m = false := hsync
          rcases findOptimalPool2_sync g m st.pools st.poolProv hsn with hne | hall
          · rw [hold] at hne; simp at hne
          · -- every pool is empty, so no provider has been placed: everything done is an argument
            intro d hd
            have hdd := hdeps d hd
            cases hda : isArgNode g d with
            | true => rfl
            | false =>
              have hk : 0 < k := by rw [← h.lenPools]; exact Nat.lt_of_le_of_lt (Nat.zero_le _) hpl
              obtain ⟨q, hq, hdq⟩ := h.placed d hdd hda hk
              have := hall q (by rw [h.lenPools]; exact hq)
              cases hqq : st.pools.getD q [] with
              | nil => rw [hqq] at hdq; simp at hdq
              | cons y ys => rw [hqq] at this; simp at this
      · rw [listModify_oob _ _ _ (hip ▸ hpl)] at hpool
        exact hs i m rest hpool hsync
    · rw [getD_listModify_other _ _ _ _ _ hip] at hpool
      exact hs i m rest hpool hsync

/-- dependencies of every node of the order occur before it -/
def DepsClosed (g : Graph) (order : List Nat) : Prop :=
  ∀ pre m post, order = pre ++ m :: post → ∀ d ∈ g.rev.getD m [], d ∈ pre

theorem foldl_p1_sync {g : Graph} {k : Nat} (l : List Nat) (done : List Nat) (st : P1St)
    (h : P1Inv g k done st) (hs : SyncFirst g st) (hnd : (done ++ l).Nodup)
    (hlt : ∀ m ∈ l, m < g.nodes.length)
    (hdeps : ∀ xs x ys, l = xs ++ x :: ys → ∀ d ∈ g.rev.getD x [], d ∈ done ++ xs) :
    SyncFirst g (l.foldl (p1Step g) st) := by
  induction l generalizing done st with
  | nil => exact hs
  | cons x xs ih =>
    simp only [List.foldl_cons]
    have hx : x ∉ done := by
      intro hxd
      exact (List.nodup_append.mp hnd).2.2 x hxd x (List.mem_cons_self ..) rfl
    have h1 := p1Step_inv h hx (hlt x (List.mem_cons_self ..))
    have hs1 := p1Step_sync h hs (fun d hd => by simpa using hdeps [] x xs rfl d hd)
    apply ih (done ++ [x]) _ h1 hs1 (by simpa [List.append_assoc] using hnd)
      (fun m hm => hlt m (List.mem_cons_of_mem _ hm))
    intro ys y zs hsplit d hd
    have := hdeps (x :: ys) y zs (by rw [hsplit]; rfl) d hd
    simpa [List.append_assoc] using this

theorem bpass1_sync {g : Graph} (order : List Nat) (k : Nat) (hnd : order.Nodup)
    (hlt : ∀ m ∈ order, m < g.nodes.length) (hdc : DepsClosed g order) :
    SyncFirst g (bpass1 g order k) := by
  unfold bpass1
  apply foldl_p1_sync order [] (p1Init g k) (p1Init_inv g k) (p1Init_sync g k) (by simpa using hnd) hlt
  intro xs x ys hsplit d hd
  simpa using hdc xs x ys hsplit d hd

end KV
