import KV.EmitF
import KV.PlanLemmas
/-! The program the generator emits for an accepted declaration, **with** the failure / cancellation flags
    (`T1F.Prog`), and Tier 2 for the `T1F` semantics: for every `plan provs ret = .ok p`,
    `T1F.WFData`, `T1F.MainShape`, `T1F.RetShape` hold unconditionally and `T1F.WF` holds exactly when every
    wait is ctx-aware (`AllWaitsCtxAware p`, a decidable predicate on `PlanOut`). -/
namespace KV

/-- an `exit` is fallible iff the node's provider returns `error` -/
def fallibleOf (p : PlanOut) (n : Nat) : Bool :=
  (p.g.provs.getD (p.g.nodes.getD n default).prov default).isErr

/-- the flags of the real generator:
    a wait is ctx-aware iff the injector has a context parameter (`hasAsyncNodes p.g`) and
    (the wait is in a goroutine or the injector returns `error`); `retErr = p.b.isErr`. -/
def planFlags (p : PlanOut) : T1F.Flags :=
  { fallible := fallibleOf p
    ctxMain := hasAsyncNodes p.g && p.b.isErr
    ctxGo := hasAsyncNodes p.g
    retErr := p.b.isErr }

/-- the abstract program emitted for an accepted declaration, failure semantics -/
def emittedF (p : PlanOut) : T1F.Prog :=
  T1F.emitF (planFlags p) (p.parent.map (nodeInfo p.b)) (p.chains.map (·.map (nodeInfo p.b))) p.b.retParam

/-- **the two emissions cannot drift apart**: forgetting the flags gives the fault-free emission -/
theorem eraseFlags_emittedF (p : PlanOut) : T1F.eraseFlags (emittedF p) = emitted p :=
  T1F.eraseFlags_emitF _ _ _ _

theorem emittedF_retErr (p : PlanOut) : (emittedF p).retErr = p.b.isErr := rfl

theorem emittedF_length (p : PlanOut) : (emittedF p).threads.length = p.chains.length + 1 := by
  simp only [emittedF, T1F.emitF_length, List.length_map]

/-- rank certificate: Kahn position of the owning node (flags do not matter) -/
def rankOfPlanF (p : PlanOut) : T1F.Op → Nat := fun op => rankOfPlan p (T1F.eraseOp op)

/-- the flags of the exits are the providers' `isErr` -/
theorem emittedF_exit_flag {p : PlanOut} {t o : Nat} {rets : List Nat} {f : Bool}
    (h : T1F.Op.exit o rets f ∈ T1F.thread (emittedF p) t) : f = fallibleOf p o := by
  rcases T1F.mem_thread_emitF h with ⟨nd, _, hb⟩ | ⟨_, h1 | h1⟩
  · rcases T1F.mem_blockF hb with ⟨v, _, he⟩ | he | he | ⟨v, _, he⟩
    · cases he
    · cases he
    · simp only [T1F.exitOfF] at he; cases he; rfl
    · cases he
  · simp only [T1F.spawnsF, List.mem_map] at h1
    obtain ⟨g, _, hg⟩ := h1; cases hg
  · simp only [T1F.tailOpsF, List.mem_append, List.mem_singleton] at h1
    rcases h1 with h1 | h1
    · split at h1 <;> simp at h1
    · cases h1

/-- the flags of the waits: main thread `hasAsyncNodes ∧ isErr`, goroutines `hasAsyncNodes` -/
theorem emittedF_wait_flag {p : PlanOut} {t o c : Nat} {k : Bool}
    (h : T1F.Op.wait o c k ∈ T1F.thread (emittedF p) t) :
    k = (if t = 0 then hasAsyncNodes p.g && p.b.isErr else hasAsyncNodes p.g) := by
  have hk : k = (planFlags p).ctxOf t := T1F.emitF_wait_flag h
  cases t with
  | zero => exact hk
  | succ g => exact hk

/-! ### the side condition -/

/-- the main thread contains a wait -/
def mainHasWait (p : PlanOut) : Bool :=
  p.parent.any (fun n => (nodeInfo p.b n).args.any (·.2))

/-- some goroutine contains a wait -/
def goHasWait (p : PlanOut) : Bool :=
  p.chains.any (fun c => c.any (fun n => (nodeInfo p.b n).args.any (·.2)))

/-- **every wait of the emitted code is ctx-aware** (decidable, on the plan):
    the main thread has no wait unless the injector has a context parameter and returns `error`;
    no goroutine has a wait unless the injector has a context parameter. -/
def AllWaitsCtxAware (p : PlanOut) : Bool :=
  ((hasAsyncNodes p.g && p.b.isErr) || !mainHasWait p) && (hasAsyncNodes p.g || !goHasWait p)

/-- the weaker half: the waits of the goroutines are ctx-aware -/
def GoWaitsCtxAware (p : PlanOut) : Bool := hasAsyncNodes p.g || !goHasWait p

theorem goWaits_of_allWaits {p : PlanOut} (h : AllWaitsCtxAware p = true) : GoWaitsCtxAware p = true := by
  simp only [AllWaitsCtxAware, Bool.and_eq_true] at h
  exact h.2

theorem hasWait_zero (p : PlanOut) :
    T1F.hasWait (p.parent.map (nodeInfo p.b)) (p.chains.map (·.map (nodeInfo p.b))) 0 = mainHasWait p := by
  simp only [T1F.hasWait, T1.threadNodes, mainHasWait, List.any_map]
  rfl

theorem goHasWait_of_hasWait_succ {p : PlanOut} {g : Nat}
    (h : T1F.hasWait (p.parent.map (nodeInfo p.b)) (p.chains.map (·.map (nodeInfo p.b))) (g + 1) = true) :
    goHasWait p = true := by
  simp only [T1F.hasWait, T1.threadNodes, List.getD_eq_getElem?_getD, List.getElem?_map] at h
  cases hc : p.chains[g]? with
  | none => simp [hc] at h
  | some c =>
    simp only [hc, Option.map_some, Option.getD_some, List.any_map] at h
    simp only [goHasWait, List.any_eq_true]
    exact ⟨c, List.mem_of_getElem? hc, by simpa [List.any_eq_true] using h⟩

theorem hasWait_succ_of_goHasWait {p : PlanOut} (h : goHasWait p = true) :
    ∃ g, T1F.hasWait (p.parent.map (nodeInfo p.b)) (p.chains.map (·.map (nodeInfo p.b))) (g + 1) = true := by
  simp only [goHasWait, List.any_eq_true] at h
  obtain ⟨c, hc, hn⟩ := h
  obtain ⟨g, hgl, hget⟩ := List.getElem_of_mem hc
  refine ⟨g, ?_⟩
  simp only [T1F.hasWait, T1.threadNodes, List.getD_eq_getElem?_getD, List.getElem?_map,
    List.getElem?_eq_getElem hgl, Option.map_some, Option.getD_some, hget, List.any_map]
  simpa [List.any_eq_true] using hn

/-- `AllWaitsCtxAware` is **exactly** the field `waitsCtx` of `T1F.WF` for the emitted program (so it is the
    weakest hypothesis under which `T1F.WF (emittedF p)` can hold). -/
theorem allWaitsCtxAware_iff (p : PlanOut) :
    AllWaitsCtxAware p = true ↔
      ∀ t o c k, T1F.Op.wait o c k ∈ T1F.thread (emittedF p) t → k = true := by
  unfold emittedF
  rw [T1F.emitF_waitsCtx_iff]
  constructor
  · intro h t ht
    simp only [AllWaitsCtxAware, Bool.and_eq_true, Bool.or_eq_true, Bool.not_eq_true'] at h
    cases t with
    | zero =>
      rw [hasWait_zero] at ht
      rcases h.1 with h1 | h1
      · simpa [T1F.Flags.ctxOf, planFlags] using h1
      · rw [h1] at ht; cases ht
    | succ g =>
      have hg := goHasWait_of_hasWait_succ ht
      rcases h.2 with h1 | h1
      · exact h1
      · rw [h1] at hg; cases hg
  · intro h
    simp only [AllWaitsCtxAware, Bool.and_eq_true, Bool.or_eq_true, Bool.not_eq_true']
    refine ⟨?_, ?_⟩
    · cases hm : mainHasWait p with
      | false => exact Or.inr rfl
      | true =>
        left
        have := h 0 (by rw [hasWait_zero]; exact hm)
        simpa [T1F.Flags.ctxOf, planFlags] using this
    · cases hm : goHasWait p with
      | false => exact Or.inr rfl
      | true =>
        left
        obtain ⟨g, hg⟩ := hasWait_succ_of_goHasWait hm
        exact h (g + 1) hg

/-- the side condition as phrased in the task: (the injector returns `error`, or the main thread has no wait)
    and the injector has a context parameter. -/
theorem allWaitsCtxAware_of_async {p : PlanOut} (hasync : hasAsyncNodes p.g = true)
    (hmain : p.b.isErr = true ∨ mainHasWait p = false) : AllWaitsCtxAware p = true := by
  simp only [AllWaitsCtxAware, hasync, Bool.true_and, Bool.true_or, Bool.and_true, Bool.or_eq_true,
    Bool.not_eq_true']
  exact hmain

/-- … or there is no wait at all -/
theorem allWaitsCtxAware_of_no_wait {p : PlanOut} (hmain : mainHasWait p = false) (hgo : goHasWait p = false) :
    AllWaitsCtxAware p = true := by
  simp [AllWaitsCtxAware, hmain, hgo]

/-! ### without goroutines there is no wait -/

/-- a waited argument is produced in another pool; with no goroutine every placed node is in the parent pool -/
theorem no_wait_of_no_chains {g : Graph} {b : BuildOut} {parent : List Nat} (hp : PlanOK g b parent [])
    {m : Nat} (hm : m ∈ parent) {v : Nat} : (v, true) ∉ (nodeInfo b m).args := by
  intro hv
  obtain ⟨st1, h1, hpools, hrets, hnpool, params0, h2, hplen, hpArg, hpNode⟩ := hp.p1
  obtain ⟨pi, hpi⟩ := hp.stmts.parentPool
  have hmpool : m ∈ st1.pools.getD pi [] := by rw [hpools, ← hpi]; exact hm
  have hmo : m ∈ topoOrder g := (h1.sub pi).subset hmpool
  have hml := hp.order_lt m hmo
  simp only [nodeInfo, List.mem_map] at hv
  obtain ⟨a, ha, hav⟩ := hv
  have hav1 : a.param = v := (Prod.mk.inj hav).1
  have hav2 : (a.isWait && (b.params.getD a.param default).withChan) = true := (Prod.mk.inj hav).2
  obtain ⟨i, hil, hget⟩ := List.getElem_of_mem ha
  have hslots : (b.nodeArgs.getD m []).length = nodeSlots g m := h2.slotLen m hml
  have hirev : i < (g.rev.getD m []).length := by
    rw [← hp.gwf.slotsEq m hml, ← hslots]; exact hil
  obtain ⟨pre, post, hsplit⟩ := List.append_of_mem hmo
  obtain ⟨n, hnpre, e, he, hed, hes⟩ := hp.order_sound pre m post hsplit i hirev
  have hno : n ∈ topoOrder g := by rw [hsplit]; exact List.mem_append_left _ hnpre
  have hpair : (n, e) ∈ edgePairs g (topoOrder g) := by
    simp only [edgePairs, List.mem_flatMap, List.mem_map]
    exact ⟨n, hno, e, he, rfl⟩
  obtain ⟨y, hy, hyd, hys, hval⟩ := h2.written (n, e) hpair (by simpa [hed] using hml)
    (by simp only [hed, hes]; rw [← hslots]; exact hil)
  simp only [edgePairs, List.mem_flatMap, List.mem_map] at hy
  obtain ⟨n', hn'o, e', he', rfl⟩ := hy
  obtain ⟨hnn, hee⟩ := hp.gwf.edgeUnique n n' e e' he he' hyd.symm hys.symm
  subst hnn; subst hee
  have hentry : a = argVal st1 n e := by
    simp only [hed, hes] at hval
    have : (b.nodeArgs.getD m []).getD i dfltArg = a := by
      rw [getD_eq_getElem' _ _ _ hil]; exact hget
    rw [← this]; exact hval
  have hv' : v = (b.nodeRets.getD n []).getD e.src 0 := by
    rw [← hav1, hentry]; simp only [argVal, hrets]
  have hw : a.isWait = true ∧ (b.params.getD v default).withChan = true := by
    rw [hav1] at hav2
    simpa only [Bool.and_eq_true] using hav2
  have hnl := hp.order_lt n hno
  have hsrc := hp.gwf.srcLt n e he hnl
  have hlen := h1.retsLen n hno
  rw [hrets] at hlen
  have hsrc' : e.src < (b.nodeRets.getD n []).length := by rw [hlen]; exact hsrc
  have hvmem : v ∈ b.nodeRets.getD n [] := by
    rw [hv', getD_eq_getElem' _ _ _ hsrc']
    exact List.getElem_mem hsrc'
  -- the producer is a provider node (its result has a channel), hence placed in a pool, hence in the parent
  have hnArg : isArgNode g n = false := by
    have h3 := h1.retsArg n v (by rw [hrets]; exact hvmem)
    have h4 : (b.params.getD v default).isArg = (params0.getD v default).isArg := h2.pisArg v
    have h5 := hpArg v
    cases hia : isArgNode g n with
    | false => rfl
    | true =>
      have : (b.params.getD v default).isArg = true := by rw [h4, h5, h3, hia]
      have := hp.argNoChan v this
      rw [hw.2] at this; cases this
  obtain ⟨q, _, hnq⟩ := h1.placed n hno hnArg hp.k_pos
  have hnparent : n ∈ parent := by
    rcases hp.stmts.cover q n (by rw [← hpools]; exact hnq) with h | ⟨c, hc, _⟩
    · exact h
    · cases hc
  have hnpool : n ∈ st1.pools.getD pi [] := by rw [hpools, ← hpi]; exact hnparent
  -- same pool ⇒ not waited
  have hsw : shouldWaitB st1 n m = false := by
    simp only [shouldWaitB, h1.poolOf pi n hnpool, h1.poolOf pi m hmpool]
    simp
  have : a.isWait = shouldWaitB st1 n m := by rw [hentry]; simp only [argVal, hed]
  rw [this, hsw] at hw
  cases hw.1

/-- an accepted declaration without goroutines has no wait in its main thread -/
theorem plan_no_chains_no_wait {provs : List PSpec} {ret : Nat} {p : PlanOut} (h : plan provs ret = .ok p)
    (hc : p.chains = []) : mainHasWait p = false ∧ goHasWait p = false := by
  obtain ⟨hg, hb, hs⟩ := plan_ok h
  have hgw := newGraph2_gwf hg
  have hpf : PoolFacts p.g (topoOrder p.g) p.b.pools := by rw [build2_pools hb]; exact poolFacts_of_build hgw _
  obtain ⟨hsf, hk⟩ := stmtFacts_of_buildStmts2 hpf hs
  have hok := planOK_of_build2 hgw hb hsf hk
  rw [hc] at hok
  refine ⟨?_, by simp [goHasWait, hc]⟩
  cases hm : mainHasWait p with
  | false => rfl
  | true =>
    exfalso
    simp only [mainHasWait, List.any_eq_true] at hm
    obtain ⟨m, hmp, ⟨v, w⟩, hvw, hw⟩ := hm
    simp only at hw
    subst hw
    exact no_wait_of_no_chains hok hmp hvw

/-- **the side condition exactly as phrased in the task** implies `AllWaitsCtxAware`:
    (`isErr` or the main thread has no wait) and (`hasAsyncNodes` or there is no goroutine). -/
theorem allWaitsCtxAware_of_side {provs : List PSpec} {ret : Nat} {p : PlanOut} (h : plan provs ret = .ok p)
    (hmain : p.b.isErr = true ∨ mainHasWait p = false) (hgo : hasAsyncNodes p.g = true ∨ p.chains = []) :
    AllWaitsCtxAware p = true := by
  rcases hgo with hasync | hc
  · exact allWaitsCtxAware_of_async hasync hmain
  · obtain ⟨h1, h2⟩ := plan_no_chains_no_wait h hc
    exact allWaitsCtxAware_of_no_wait h1 h2

/-! ### Tier 2 for the failure semantics -/

theorem plan_mainShape (p : PlanOut) : T1F.MainShape (emittedF p) := T1F.emitF_mainShape _ _ _ _

theorem plan_retShape (p : PlanOut) : T1F.RetShape (emittedF p) := T1F.emitF_retShape _ _ _ _

theorem plan_mainOnly (p : PlanOut) : ∀ t op, op ∈ T1F.thread (emittedF p) t →
    (op = .egwait ∨ (∃ v, op = .ret v) ∨ (∃ g, op = .spawn g)) → t = 0 := T1F.emitF_mainOnly _ _ _ _

/-- data-flow well-formedness of the flagged emission, for every accepted declaration (no side condition) -/
theorem plan_wfdataF {provs : List PSpec} {ret : Nat} {p : PlanOut} (h : plan provs ret = .ok p) :
    T1F.WFData (emittedF p) (rankOfPlanF p) (isParamOf p.b) := by
  have hd := (plan_wf h).2
  rw [← eraseFlags_emittedF] at hd
  exact T1F.wfdata_of_erase hd

/-- rank-sortedness of the threads (the part of `T1F.WF` that the data-flow theorem needs; no side condition) -/
theorem plan_sortedF {provs : List PSpec} {ret : Nat} {p : PlanOut} (h : plan provs ret = .ok p) :
    ∀ t, (T1F.thread (emittedF p) t).Pairwise (fun a b => rankOfPlanF p a ≤ rankOfPlanF p b) := by
  intro t
  have hw := (plan_wf h).1
  rw [← eraseFlags_emittedF] at hw
  have := hw.sorted t
  rw [T1F.thread_erase, List.pairwise_map] at this
  exact this

/-- **`T1F.WF` for every accepted declaration whose waits are all ctx-aware** -/
theorem plan_wfF {provs : List PSpec} {ret : Nat} {p : PlanOut} (h : plan provs ret = .ok p)
    (hctx : AllWaitsCtxAware p = true) : T1F.WF (emittedF p) (rankOfPlanF p) := by
  have hw := (plan_wf h).1
  rw [← eraseFlags_emittedF] at hw
  refine T1F.wf_of_erase hw ?_ (plan_mainOnly p) ((allWaitsCtxAware_iff p).mp hctx)
  intro g
  show T1.rankOf _ _ (.spawn g) < T1.rankOf _ _ .egwait
  simp only [T1.rankOf]; omega

/-- conversely, `T1F.WF` of the emitted program forces the side condition: it is the weakest possible one -/
theorem allWaitsCtxAware_of_wfF {p : PlanOut} {rank : T1F.Op → Nat} (hw : T1F.WF (emittedF p) rank) :
    AllWaitsCtxAware p = true :=
  (allWaitsCtxAware_iff p).mpr hw.waitsCtx

/-- the four facts together -/
theorem plan_wfF_all {provs : List PSpec} {ret : Nat} {p : PlanOut} (h : plan provs ret = .ok p)
    (hctx : AllWaitsCtxAware p = true) :
    T1F.WF (emittedF p) (rankOfPlanF p) ∧ T1F.WFData (emittedF p) (rankOfPlanF p) (isParamOf p.b) ∧
    T1F.MainShape (emittedF p) ∧ T1F.RetShape (emittedF p) :=
  ⟨plan_wfF h hctx, plan_wfdataF h, plan_mainShape p, plan_retShape p⟩

end KV
