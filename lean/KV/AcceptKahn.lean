import KV.Refuse
import KV.Kuhn
/-! # C09, acceptance direction — Kahn completeness

For a well-formed graph without a cycle, `topoOrder g` (Kahn's algorithm with the model's fuel) contains every
node.  Two ingredients:

* fuel adequacy of `topoLoop`: with fuel `n + |E| + 4` the work queue is drained;
* a drained Kahn state in which some node is missing has, for every missing node, a missing predecessor —
  an infinite descent in a finite graph, hence a cycle (`no_descent`, pigeonhole). -/
namespace KV

/-! ## descent in a finite acyclic graph -/

/-- In a graph without a cycle, a set `P` of nodes below `N` in which every member has a predecessor (along an
    edge) that is again a member is empty. -/
theorem no_descent (g : Graph) (N : Nat) (hacyc : ∀ n, ¬ Path g n n) (P : Nat → Prop)
    (hlt : ∀ m, P m → m < N)
    (hstep : ∀ m, P m → ∃ d e, P d ∧ e ∈ g.edges.getD d [] ∧ e.dst = m) : ∀ m, ¬ P m := by
  intro m0 hm0
  have hchain : ∀ k : Nat, ∃ a rest, rest.length = k ∧ P a ∧ (∀ x ∈ rest, P x ∧ Path g a x) ∧ (a :: rest).Nodup := by
    intro k
    induction k with
    | zero => exact ⟨m0, [], rfl, hm0, (fun x hx => by cases hx), (by simp)⟩
    | succ k ih =>
      obtain ⟨a, rest, hlen, hPa, hrest, hnd⟩ := ih
      obtain ⟨d, e, hPd, he, hed⟩ := hstep a hPa
      refine ⟨d, a :: rest, by simp [hlen], hPd, ?_, ?_⟩
      · intro x hx
        rcases List.mem_cons.mp hx with hxa | hx
        · rw [hxa]; exact ⟨hPa, Path.single e he hed⟩
        · exact ⟨(hrest x hx).1, Path.cons e he hed (hrest x hx).2⟩
      · refine List.nodup_cons.mpr ⟨?_, hnd⟩
        intro hd
        rcases List.mem_cons.mp hd with hda | hd
        · rw [← hda] at hed; exact hacyc _ (Path.single e he hed)
        · exact hacyc d (Path.cons e he hed (hrest d hd).2)
  obtain ⟨a, rest, hlen, hPa, hrest, hnd⟩ := hchain N
  have hsub : (a :: rest) ⊆ List.range N := by
    intro x hx
    rcases List.mem_cons.mp hx with hxa | hx
    · rw [hxa]; exact List.mem_range.mpr (hlt _ hPa)
    · exact List.mem_range.mpr (hlt _ (hrest x hx).1)
  have := hnd.length_le_of_subset hsub
  simp only [List.length_cons, hlen, List.length_range] at this
  omega

theorem exists_false_of_trueCount_lt {l : List Bool} (h : trueCount l < l.length) :
    ∃ i, i < l.length ∧ l.getD i false = false := by
  induction l with
  | nil => simp at h
  | cons b bs ih =>
    cases b with
    | false => exact ⟨0, by simp, by simp⟩
    | true =>
      have : trueCount bs < bs.length := by simp [trueCount] at h ⊢; omega
      obtain ⟨i, hi, hf⟩ := ih this
      exact ⟨i + 1, by simp; omega, by simpa using hf⟩

/-! ## the fuel measure: edges of nodes not yet processed -/

def unproc (g : Graph) (vis : List Nat) : Nat → Nat
  | 0 => 0
  | k + 1 => unproc g vis k + (if k ∈ vis then 0 else (g.edges.getD k []).length)

theorem unproc_snoc (g : Graph) (vis : List Nat) (n : Nat) (hn : n ∉ vis) (k : Nat) :
    unproc g (vis ++ [n]) k + (if n < k then (g.edges.getD n []).length else 0) = unproc g vis k := by
  induction k with
  | zero => simp [unproc]
  | succ k ih =>
    simp only [unproc]
    by_cases hkn : k = n
    · subst hkn
      have h1 : k ∈ vis ++ [k] := by simp
      rw [if_pos h1, if_neg hn, if_pos (Nat.lt_succ_self k)]
      rw [if_neg (Nat.lt_irrefl k)] at ih
      omega
    · have h1 : (k ∈ vis ++ [n]) ↔ k ∈ vis := by simp [hkn]
      by_cases hnk : n < k
      · rw [if_pos hnk] at ih
        rw [if_pos (by omega : n < k + 1)]
        by_cases hkv : k ∈ vis
        · rw [if_pos (h1.mpr hkv), if_pos hkv]; omega
        · rw [if_neg (fun hc => hkv (h1.mp hc)), if_neg hkv]; omega
      · rw [if_neg hnk] at ih
        rw [if_neg (by omega : ¬ n < k + 1)]
        by_cases hkv : k ∈ vis
        · rw [if_pos (h1.mpr hkv), if_pos hkv]; omega
        · rw [if_neg (fun hc => hkv (h1.mp hc)), if_neg hkv]; omega

theorem unproc_le (g : Graph) (vis : List Nat) (k : Nat) :
    unproc g vis k ≤ ((g.edges.take k).map List.length).sum := by
  induction k with
  | zero => simp [unproc]
  | succ k ih =>
    simp only [unproc]
    rw [List.take_add_one, List.map_append, List.sum_append]
    have : (if k ∈ vis then 0 else (g.edges.getD k []).length) ≤ (List.map List.length g.edges[k]?.toList).sum := by
      rw [List.getD_eq_getElem?_getD]
      cases g.edges[k]? with
      | none => simp
      | some es => simp only [Option.getD_some, Option.toList_some, List.map_cons, List.map_nil, List.sum_cons,
          List.sum_nil]; split <;> omega
    omega

theorem foldl_len_eq {α} (l : List (List α)) (a : Nat) :
    l.foldl (fun a l => a + l.length) a = a + (l.map List.length).sum := by
  induction l generalizing a with
  | nil => simp
  | cons x xs ih => simp only [List.foldl_cons, ih, List.map_cons, List.sum_cons]; omega

theorem unproc_le_total (g : Graph) (vis : List Nat) :
    unproc g vis g.edges.length ≤ g.edges.foldl (fun a l => a + l.length) 0 := by
  have := unproc_le g vis g.edges.length
  rw [List.take_length] at this
  rw [foldl_len_eq]; omega

/-! ## one edge of `topoEdges` -/

def flagAt (st : TopoSt) (m i : Nat) : Bool := (st.provided.getD m []).getD i false

def ZeroQ (g : Graph) (st : TopoSt) : Prop :=
  ∀ m, m < g.nodes.length → st.counts.getD m 0 = 0 → m ∈ st.queue ∨ m ∈ st.visited

theorem topoEdges_cons' (e : Edge) (es : List Edge) (st : TopoSt) :
    topoEdges (e :: es) st = topoEdges es (topoEdges [e] st) := by
  simp only [topoEdges]
  split
  · rfl
  · split <;> rfl

structure StepFacts (g : Graph) (st s1 : TopoSt) (e : Edge) : Prop where
  vis : s1.visited = st.visited
  qsub : ∀ x ∈ st.queue, x ∈ s1.queue
  qlen : s1.queue.length ≤ st.queue.length + 1
  mono : ∀ m i, flagAt st m i = true → flagAt s1 m i = true
  set : flagAt s1 e.dst e.slot = true
  zero : ZeroQ g st → ZeroQ g s1

theorem flagAt_set (st : TopoSt) (d s : Nat) (cs : List Nat) (q : List Nat) (m i : Nat) :
    flagAt { st with queue := q, counts := cs,
                     provided := st.provided.set d ((st.provided.getD d []).set s true) } m i =
      if (d = m ∧ d < st.provided.length) ∧ (s = i ∧ s < (st.provided.getD d []).length) then true else flagAt st m i := by
  simp only [flagAt]
  rw [getD_set_opt]
  by_cases h1 : d = m ∧ d < st.provided.length
  · rw [if_pos h1, getD_set_opt]
    by_cases h2 : s = i ∧ s < (st.provided.getD d []).length
    · rw [if_pos h2, if_pos ⟨h1, h2⟩]
    · rw [if_neg h2, if_neg (fun hc => h2 hc.2), h1.1]
  · rw [if_neg h1, if_neg (fun hc => h1 hc.1)]

theorem topoEdges_single {g : Graph} {st : TopoSt} (h : TInv g st) (e : Edge)
    (hdst : e.dst < g.nodes.length) (hslot : e.slot < (g.rev.getD e.dst []).length) :
    StepFacts g st (topoEdges [e] st) e := by
  have hdC : e.dst < st.counts.length := by rw [h.lenC]; exact hdst
  have hdP : e.dst < st.provided.length := by rw [h.lenP]; exact hdst
  have hsl : e.slot < (st.provided.getD e.dst []).length := by rw [h.flagsLen e.dst hdst]; exact hslot
  simp only [topoEdges]
  split
  · rename_i hcond
    simp only [Bool.or_eq_true, decide_eq_true_eq] at hcond
    refine { vis := rfl, qsub := fun _ hx => hx, qlen := by omega, mono := fun _ _ hf => hf, set := ?_,
             zero := fun hz => hz }
    rcases hcond with hc | hc
    · omega
    · exact hc
  · rename_i hcond
    split
    · rename_i hz
      have hz' : st.counts.getD e.dst 0 - 1 = 0 := by simpa using hz
      refine { vis := rfl, qsub := fun x hx => List.mem_append_left _ hx, qlen := by simp, mono := ?_, set := ?_,
               zero := ?_ }
      · intro m i hf
        rw [flagAt_set]; split
        · rfl
        · exact hf
      · rw [flagAt_set, if_pos ⟨⟨rfl, hdP⟩, ⟨rfl, hsl⟩⟩]
      · intro hzq m hm hc
        by_cases hme : m = e.dst
        · exact Or.inl (by rw [hme]; simp)
        · have hc' : st.counts.getD m 0 = 0 := by
            change (st.counts.set e.dst _).getD m 0 = 0 at hc
            rw [getD_set_other _ _ _ _ _ hme] at hc; exact hc
          rcases hzq m hm hc' with h1 | h1
          · exact Or.inl (List.mem_append_left _ h1)
          · exact Or.inr h1
    · rename_i hz
      have hz' : st.counts.getD e.dst 0 - 1 ≠ 0 := by simpa using hz
      refine { vis := rfl, qsub := fun x hx => hx, qlen := by simp, mono := ?_, set := ?_, zero := ?_ }
      · intro m i hf
        have := flagAt_set st e.dst e.slot (st.counts.set e.dst (st.counts.getD e.dst 0 - 1)) st.queue m i
        rw [this]; split
        · rfl
        · exact hf
      · have := flagAt_set st e.dst e.slot (st.counts.set e.dst (st.counts.getD e.dst 0 - 1)) st.queue e.dst e.slot
        rw [this, if_pos ⟨⟨rfl, hdP⟩, ⟨rfl, hsl⟩⟩]
      · intro hzq m hm hc
        by_cases hme : m = e.dst
        · exfalso
          change (st.counts.set e.dst _).getD m 0 = 0 at hc
          rw [hme, getD_set_self _ _ _ _ hdC] at hc
          exact hz' hc
        · have hc' : st.counts.getD m 0 = 0 := by
            change (st.counts.set e.dst _).getD m 0 = 0 at hc
            rw [getD_set_other _ _ _ _ _ hme] at hc; exact hc
          exact hzq m hm hc'

theorem topoEdges_facts {g : Graph} (hg : GWF g) {n : Nat} (es : List Edge)
    (hes : ∀ e ∈ es, e ∈ g.edges.getD n []) {st : TopoSt} (hn : n ∈ st.visited) (h : TInv g st) :
    (∀ x ∈ st.queue, x ∈ (topoEdges es st).queue) ∧
    (topoEdges es st).queue.length ≤ st.queue.length + es.length ∧
    (∀ m i, flagAt st m i = true → flagAt (topoEdges es st) m i = true) ∧
    (∀ e ∈ es, flagAt (topoEdges es st) e.dst e.slot = true) ∧
    (ZeroQ g st → ZeroQ g (topoEdges es st)) := by
  induction es generalizing st with
  | nil =>
    refine ⟨fun _ hx => hx, by simp [topoEdges], fun _ _ hf => hf, ?_, fun hz => hz⟩
    intro e he; cases he
  | cons e es ih =>
    have he : e ∈ g.edges.getD n [] := hes e (List.mem_cons_self ..)
    have hes' : ∀ e' ∈ es, e' ∈ g.edges.getD n [] := fun e' h' => hes e' (List.mem_cons_of_mem _ h')
    have hs := topoEdges_single h e (hg.dstLt n e he) (hg.slotLt n e he)
    obtain ⟨ht1, hv1, _⟩ := topoEdges_inv hg [e] (by intro e' he'; simp at he'; rw [he']; exact he) hn h
    obtain ⟨a1, a2, a3, a4, a5⟩ := ih hes' (st := topoEdges [e] st) (by rw [hv1]; exact hn) ht1
    rw [topoEdges_cons']
    refine ⟨fun x hx => a1 x (hs.qsub x hx), ?_, fun m i hf => a3 m i (hs.mono m i hf), ?_, fun hz => a5 (hs.zero hz)⟩
    · have := hs.qlen
      simp only [List.length_cons]; omega
    · intro e' he'
      rcases List.mem_cons.mp he' with rfl | he'
      · exact a3 _ _ hs.set
      · exact a4 e' he'

/-! ## the loop: invariant and fuel adequacy -/

structure KInv (g : Graph) (st : TopoSt) : Prop where
  t : TInv g st
  outEq : st.out = st.visited
  zero : ZeroQ g st
  fed : ∀ n ∈ st.visited, ∀ e ∈ g.edges.getD n [], flagAt st e.dst e.slot = true

theorem topoLoop_complete {g : Graph} (hg : GWF g) (fuel : Nat) {st : TopoSt} (h : KInv g st)
    (hf : st.queue.length + unproc g st.visited g.edges.length ≤ fuel) :
    KInv g (topoLoop g fuel st) ∧ (topoLoop g fuel st).queue = [] := by
  induction fuel generalizing st with
  | zero =>
    simp only [topoLoop]
    exact ⟨h, List.eq_nil_of_length_eq_zero (by omega)⟩
  | succ k ih =>
    simp only [topoLoop]
    split
    · rename_i hq; exact ⟨h, hq⟩
    · rename_i n q hq
      have hnq : n ∈ st.queue := by rw [hq]; exact List.mem_cons_self ..
      obtain ⟨hzero, hnlt⟩ := h.t.queueZero n hnq
      have hqsub : ∀ m ∈ q, m ∈ st.queue := fun m hm => by rw [hq]; exact List.mem_cons_of_mem _ hm
      have hql : st.queue.length = q.length + 1 := by rw [hq]; simp
      split
      · rename_i hv
        have hv' : n ∈ st.visited := by simpa using hv
        apply ih
        · exact { t := { h.t with queueZero := fun m hm => h.t.queueZero m (hqsub m hm) }
                  outEq := h.outEq
                  zero := by
                    intro m hm hc
                    rcases h.zero m hm hc with h1 | h1
                    · rw [hq] at h1
                      rcases List.mem_cons.mp h1 with rfl | h1
                      · exact Or.inr hv'
                      · exact Or.inl h1
                    · exact Or.inr h1
                  fed := h.fed }
        · show q.length + unproc g st.visited g.edges.length ≤ k
          omega
      · rename_i hnv
        have hnv' : n ∉ st.visited := by simpa using hnv
        let st0 : TopoSt := { st with queue := q, visited := st.visited ++ [n] }
        have ht0 : TInv g st0 := {
          lenC := h.t.lenC, lenP := h.t.lenP, flagsLen := h.t.flagsLen, count := h.t.count
          flagSrc := fun m i hf => by
            obtain ⟨n', hn', he⟩ := h.t.flagSrc m i hf
            exact ⟨n', List.mem_append_left _ hn', he⟩
          queueZero := fun m hm => h.t.queueZero m (hqsub m hm) }
        have hn0 : n ∈ st0.visited := by simp [st0]
        have hz0 : ZeroQ g st0 := by
          intro m hm hc
          rcases h.zero m hm hc with h1 | h1
          · rw [hq] at h1
            rcases List.mem_cons.mp h1 with rfl | h1
            · exact Or.inr hn0
            · exact Or.inl h1
          · exact Or.inr (List.mem_append_left _ h1)
        obtain ⟨ht1, hv1, ho1⟩ := topoEdges_inv hg (g.edges.getD n []) (fun e he => he) hn0 ht0
        obtain ⟨_, b2, b3, b4, b5⟩ := topoEdges_facts hg (g.edges.getD n []) (fun e he => he) hn0 ht0
        apply ih
        · refine { t := ?_, outEq := ?_, zero := ?_, fed := ?_ }
          · exact { lenC := ht1.lenC, lenP := ht1.lenP, flagsLen := ht1.flagsLen, count := ht1.count,
                    flagSrc := ht1.flagSrc, queueZero := ht1.queueZero }
          · show (topoEdges _ st0).out ++ [n] = (topoEdges _ st0).visited
            rw [ho1, hv1]; simp [st0, h.outEq]
          · exact b5 hz0
          · intro n' hn' e he
            change n' ∈ (topoEdges _ st0).visited at hn'
            rw [hv1] at hn'
            show flagAt (topoEdges _ st0) e.dst e.slot = true
            rcases List.mem_append.mp hn' with hn' | hn'
            · exact b3 _ _ (h.fed n' hn' e he)
            · simp only [List.mem_singleton] at hn'
              subst hn'
              exact b4 e he
        · show (topoEdges _ st0).queue.length + unproc g (topoEdges _ st0).visited g.edges.length ≤ k
          rw [hv1]
          have hu := unproc_snoc g st.visited n hnv' g.edges.length
          have hb2 : (topoEdges (g.edges.getD n []) st0).queue.length ≤ q.length + (g.edges.getD n []).length := b2
          show _ + unproc g (st.visited ++ [n]) g.edges.length ≤ k
          by_cases hnK : n < g.edges.length
          · rw [if_pos hnK] at hu; omega
          · have hnil : (g.edges.getD n []).length = 0 := by
              rw [List.getD_eq_getElem?_getD, List.getElem?_eq_none (Nat.le_of_not_lt hnK)]; rfl
            rw [if_neg hnK] at hu
            omega

/-! ## Kahn completeness -/

/-- the state `topoOrder` starts from -/
def topoInit (g : Graph) : TopoSt :=
  { queue := (List.range g.nodes.length).filter (fun i => (g.rev.getD i []).length == 0),
    counts := (List.range g.nodes.length).map (fun i => (g.rev.getD i []).length),
    provided := (List.range g.nodes.length).map (fun i => List.replicate (nodeSlots g i) false),
    visited := [], out := [] }

theorem topoOrder_eq (g : Graph) :
    topoOrder g = (topoLoop g (g.nodes.length + (g.edges.foldl (fun a l => a + l.length) 0) + 4) (topoInit g)).out := rfl

theorem topoInit_kinv {g : Graph} (hg : GWF g) : KInv g (topoInit g) where
  t := {
    lenC := by simp [topoInit]
    lenP := by simp [topoInit]
    flagsLen := by
      intro m hm
      simp [topoInit, List.getD_eq_getElem?_getD, hm, hg.slotsEq m hm]
    flagSrc := by
      intro m i hf
      by_cases hm : m < g.nodes.length
      · simp [topoInit, List.getD_eq_getElem?_getD, hm, List.getElem?_replicate] at hf
        split at hf <;> simp at hf
      · simp [topoInit, List.getD_eq_getElem?_getD, hm] at hf
    count := by
      intro m hm
      simp [topoInit, List.getD_eq_getElem?_getD, hm, trueCount_replicate_false]
    queueZero := by
      intro m hm
      simp only [topoInit, List.mem_filter, List.mem_range, beq_iff_eq] at hm
      refine ⟨?_, hm.1⟩
      simp only [topoInit, List.getD_eq_getElem?_getD, List.getElem?_map, List.getElem?_range hm.1, Option.map_some,
        Option.getD_some]
      simpa [List.getD_eq_getElem?_getD] using hm.2 }
  outEq := rfl
  zero := by
    intro m hm hc
    refine Or.inl ?_
    simp only [topoInit, List.getD_eq_getElem?_getD, List.getElem?_map, List.getElem?_range hm, Option.map_some,
      Option.getD_some] at hc
    simp only [topoInit, List.mem_filter, List.mem_range, beq_iff_eq]
    exact ⟨hm, by simpa [List.getD_eq_getElem?_getD] using hc⟩
  fed := by intro n hn; simp [topoInit] at hn

/-- **Kahn completeness**: in a well-formed graph without a cycle whose edges start at existing nodes, the Kahn
    order computed with the model's fuel contains every node. -/
theorem topoOrder_complete {g : Graph} (hg : GWF2 g)
    (hsrc : ∀ n e, e ∈ g.edges.getD n [] → n < g.nodes.length)
    (hacyc : ∀ n, ¬ Path g n n) : ∀ m, m < g.nodes.length → m ∈ topoOrder g := by
  have hfuel : (topoInit g).queue.length + unproc g (topoInit g).visited g.edges.length ≤
      g.nodes.length + (g.edges.foldl (fun a l => a + l.length) 0) + 4 := by
    have h1 : (topoInit g).queue.length ≤ g.nodes.length := by
      have := List.length_filter_le (fun i => (g.rev.getD i []).length == 0) (List.range g.nodes.length)
      simpa [topoInit] using this
    have h2 := unproc_le_total g (topoInit g).visited
    omega
  obtain ⟨hk, hq⟩ := topoLoop_complete hg.toGWF _ (topoInit_kinv hg.toGWF) hfuel
  rw [topoOrder_eq]
  generalize topoLoop g (g.nodes.length + (g.edges.foldl (fun a l => a + l.length) 0) + 4) (topoInit g) = st at hk hq
  rw [hk.outEq]
  intro m hm
  apply Classical.byContradiction
  intro hmv
  refine no_descent g g.nodes.length hacyc (fun m => m < g.nodes.length ∧ m ∉ st.visited) (fun _ h => h.1) ?_ m ⟨hm, hmv⟩
  rintro m ⟨hm, hmv⟩
  have hcnt : st.counts.getD m 0 ≠ 0 := by
    intro hc
    rcases hk.zero m hm hc with h1 | h1
    · rw [hq] at h1; cases h1
    · exact hmv h1
  have hc := hk.t.count m hm
  have hfl := hk.t.flagsLen m hm
  obtain ⟨i, hi, hfi⟩ := exists_false_of_trueCount_lt (l := st.provided.getD m []) (by omega)
  have hir : i < (g.rev.getD m []).length := by omega
  obtain ⟨e, he, hed, hes⟩ := hg.revEdge m i _ (List.getElem?_eq_getElem hir)
  refine ⟨_, e, ⟨hsrc _ e he, ?_⟩, he, hed⟩
  intro hdv
  have := hk.fed _ hdv e he
  rw [hed, hes] at this
  unfold flagAt at this
  rw [hfi] at this
  cases this

end KV

#print axioms KV.topoOrder_complete
