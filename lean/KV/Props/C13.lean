import KV.Wire
import KV.WireProofs
/-! # C13 — migration preserves what google/wire would have built

Property statements only.  `Wire.wireEval` is a reference solver for wire provider sets written from wire's
documented resolution (injector arguments, unique provider per type, `Bind` redirects an interface to its
implementation, `Struct` provides `T` and `*T`, `FieldsOf` reads fields of `T` or `*T`); `Wire.migrate` models
`kessoku migrate` on the same abstract configuration; `Wire.kEval` is kessoku's by-type evaluation of the
migrated declaration (unsupplied types become injector parameters).  Values are Herbrand terms.  The
correspondence check compares, per seeded configuration, the model's verdict (refused / equal / different)
with real google/wire and the real `kessoku migrate` + `kessoku` executed over instrumented providers.

The full statement is **false** of the current migration; the witnesses below are the known findings. -/
namespace C13
open Wire

/-- full statement: for every configuration, whenever the migration succeeds the migrated injector computes
    what wire's injector computes -/
def C13_statement : Prop :=
  ∀ (c : Cfg) (fuel : Nat), (migrate c).isSome → V.beq (migratedEval c fuel) (wireEval c fuel c.ret) = true

/-- **Known finding: `Bind` is migrated by constructor *name*.**  `ProvideRepo(Config) *PgRepo`, an unrelated
    `NewPgRepo(string, int) *PgRepo`, `Bind(Repo, *PgRepo)`: wire calls `ProvideRepo`, the migrated injector calls
    `NewPgRepo`. -/
theorem C13_neg_bind_by_name : ¬ C13_statement := by
  intro h
  have h1 : V.beq (migratedEval cfgBindByName 8) (wireEval cfgBindByName 8 (.ptr 2)) = true := h cfgBindByName 8 (by decide)
  rw [c13_bind_by_name_differs] at h1
  cases h1

/-- **Known finding: the value form of `wire.Struct` is lost** (only `*T` is provided after migration; a consumer of
    the value `T` silently becomes an extra injector parameter). -/
theorem C13_neg_struct_value :
    V.beq (wireEval cfgStructValue 8 (.ptr 1)) (.call newSvcName [.call (mkName 0) [.arg (.basic 0)]]) = true ∧
    V.beq (migratedEval cfgStructValue 8) (.call newSvcName [.arg (.val 0)]) = true :=
  c13_struct_value_differs

/-- a faithful configuration on which both agree (non-vacuity of the comparison): `NewT1() *T1`, `Bind(I0, *T1)`,
    `NewT2(I0) *T2` -/
def cfgFaithful : Cfg :=
  let newT1 : Func := { name := ctorName 1, params := [], result := .ptr 1 }
  let newT2 : Func := { name := ctorName 2, params := [.iface 0], result := .ptr 2 }
  { items := [.func newT1, .bind 0 (.ptr 1), .func newT2], args := [], ret := .ptr 2, pkgFuncs := [newT1, newT2] }

theorem C13_faithful_example :
    (migrate cfgFaithful).isSome = true ∧ V.beq (migratedEval cfgFaithful 8) (wireEval cfgFaithful 8 (.ptr 2)) = true := by
  decide

/-! ## C13_partial — the migration is faithful on the decidable subset `Wire.faithful`

`Wire.faithful c` (see its docstring in `KV/Wire.lean`) says: every `Bind` goes to a named type whose conventional
constructor `New<T>` is found by name *and is the provider listed in the set*; `FieldsOf` is in pointer form; two
different items never supply the same type and no item supplies an injector argument (wire's own "multiple bindings"
rejection); the value form `T` of a `wire.Struct(new(T), …)` is never asked for; a `Bind` is written in the same element list
(`Cfg.parts`) as the provider it stands for, which is listed in no other list (`bindTogether`, cf. `cfgBindApart`); every type
is supplied at one position only (`listedOnce`).  One implementation may be bound to several interfaces: written in one element
list the `Bind`s are nested around one provider (`cfgBindTwice`); in different element lists they are excluded by
`bindTogether` (`cfgBindTwiceApart`).
`migratedEval` is `⊥` when `kessoku migrate` refuses **or** kessoku refuses the migrated declaration as ambiguous
(`migrateChecked`). -/

/-- **C13 on the faithful subset.**  The migration does not refuse, and for every fuel at which wire's own injector is
    a complete term (`NoBot`: the fuel sufficed; `NoMissing`: wire resolved every type) the migrated injector computes
    exactly the same term.  (`C13_statement` restricted to `faithful`, with `=` instead of `V.beq`, under the
    "wire's term is complete" premise that the fuel asymmetry requires.) -/
theorem C13_partial (c : Cfg) (h : faithful c = true) :
    (migrate c).isSome ∧
    ∀ fuel, NoBot (wireEval c fuel c.ret) → NoMissing (wireEval c fuel c.ret) →
      migratedEval c fuel = wireEval c fuel c.ret :=
  migratedEval_faithful c h

/-- "not refused" in the driver's sense (`W migrate=ok`): on the faithful subset `kessoku migrate` produces a declaration
    and kessoku does not refuse it as ambiguous ("multiple providers provide T") -/
theorem C13_partial_not_refused (c : Cfg) (h : faithful c = true) :
    ∃ ks, migrate c = some ks ∧ kAmbiguous ks = false ∧ migrateChecked c = some ks := by
  obtain ⟨ks, hm⟩ := Option.isSome_iff_exists.1 (migrate_faithful_some c h)
  have ha := migrate_not_ambiguous c h ks hm
  exact ⟨ks, hm, ha, migrateChecked_of_migrate hm ha⟩

/-- the same in the literal shape of `C13_statement` (`V.beq … = true`) -/
theorem C13_partial_beq (c : Cfg) (h : faithful c = true) (fuel : Nat)
    (hb : NoBot (wireEval c fuel c.ret)) (hmi : NoMissing (wireEval c fuel c.ret)) :
    V.beq (migratedEval c fuel) (wireEval c fuel c.ret) = true := by
  rw [(C13_partial c h).2 fuel hb hmi]; exact V.beq_refl _

/-- every requested type, not only the injector's result — **provided `t` is not the value form of a listed struct** -/
theorem C13_partial_all_types (c : Cfg) (h : faithful c = true) (ks : List KItem) (hm : migrate c = some ks) :
    ∀ fuel t, structVal c t = false → NoBot (wireEval c fuel t) → NoMissing (wireEval c fuel t) →
      kEval ks fuel t = wireEval c fuel t :=
  migrate_faithful c h ks hm

/-- A larger faithful configuration using every construct.  Injector argument `dsn : b0`;
    `wire.Struct(new(T0), "*")` (`Config{dsn}`) consumed as `*T0`; `wire.FieldsOf(new(*T0), "Host", "Port")` giving `b1`, `b2`;
    `NewT1(b1, b2) *T1`; `wire.Bind(new(I0), new(*T1))`; `NewLogger() *T3` (no dependencies);
    `NewT2(I0, *T3, *T0) *T2`; an unrelated package function that is not in the set. -/
def cfgBig : Cfg :=
  let newT1 : Func := { name := ctorName 1, params := [.basic 1, .basic 2], result := .ptr 1 }
  let newLogger : Func := { name := 5, params := [], result := .ptr 3 }
  let newT2 : Func := { name := ctorName 2, params := [.iface 0, .ptr 3, .ptr 0], result := .ptr 2 }
  let helper : Func := { name := 6, params := [.basic 0], result := .ptr 1 }
  { items := [.structP 0 [.basic 0], .fieldsOf 0 true [.basic 1, .basic 2], .func newT1, .bind 0 (.ptr 1),
              .func newLogger, .func newT2],
    args := [.basic 0], ret := .ptr 2, pkgFuncs := [helper, newT1, newLogger, newT2] }

theorem C13_faithful_nonvacuous : faithful cfgFaithful = true ∧ faithful cfgBig = true := by decide

/-- wire resolves both examples completely at fuel 8, so `C13_partial` applies to them non-vacuously -/
theorem C13_examples_resolved :
    NoBot (wireEval cfgFaithful 8 cfgFaithful.ret) ∧ NoMissing (wireEval cfgFaithful 8 cfgFaithful.ret) ∧
    NoBot (wireEval cfgBig 8 cfgBig.ret) ∧ NoMissing (wireEval cfgBig 8 cfgBig.ret) := by decide

/-- what wire builds for `cfgBig`:
    `NewT2(NewT1((&Config{dsn}).Host, (&Config{dsn}).Port), NewLogger(), &Config{dsn})` -/
theorem C13_big_value :
    V.beq (wireEval cfgBig 8 cfgBig.ret)
      (.call (ctorName 2)
        [.call (ctorName 1) [.call fieldName [.call (mkPtrName 0) [.arg (.basic 0)]],
                             .call fieldName [.call (mkPtrName 0) [.arg (.basic 0)]]],
         .call 5 [],
         .call (mkPtrName 0) [.arg (.basic 0)]]) = true := by decide

/-- `C13_partial` applied (not re-evaluated): the migrated `cfgBig` computes wire's term -/
theorem C13_big_agrees : migratedEval cfgBig 8 = wireEval cfgBig 8 cfgBig.ret :=
  (C13_partial cfgBig C13_faithful_nonvacuous.2).2 8 C13_examples_resolved.2.2.1 C13_examples_resolved.2.2.2

theorem C13_witnesses_not_faithful : faithful cfgBindByName = false ∧ faithful cfgStructValue = false := by decide

/-! ### necessity of the side conditions -/

/-- **Finding: the "for every requested type `t`" form needs `t` not to be a struct's value form.**  This configuration is
    faithful (`*T0` is requested, nobody consumes `T0`), yet asking the two solvers for `T0` itself differs: wire builds
    `Config{dsn}`, the migrated declaration has no supplier of `T0` and turns it into an injector parameter. -/
def cfgValRequest : Cfg :=
  { items := [.structP 0 [.basic 0]], args := [.basic 0], ret := .ptr 0, pkgFuncs := [] }

theorem C13_val_request_differs :
    faithful cfgValRequest = true ∧
    NoBot (wireEval cfgValRequest 8 (.val 0)) ∧ NoMissing (wireEval cfgValRequest 8 (.val 0)) ∧
    V.beq (wireEval cfgValRequest 8 (.val 0)) (.call (mkName 0) [.arg (.basic 0)]) = true ∧
    (∀ ks, migrate cfgValRequest = some ks → V.beq (kEval ks 8 (.val 0)) (.arg (.val 0)) = true) := by
  refine ⟨by decide, by decide, by decide, by decide, ?_⟩
  intro ks h
  have : ks = [.provide { name := mkPtrName 0, params := [.basic 0], result := .ptr 0 }] := by
    have h' : migrate cfgValRequest = some [.provide { name := mkPtrName 0, params := [.basic 0], result := .ptr 0 }] := by
      decide
    rw [h'] at h; cases h; rfl
  subst this; decide

/-- condition 3 is necessary: an injector argument that a listed provider also supplies — wire takes the argument,
    the migrated injector calls the provider -/
def cfgArgShadow : Cfg :=
  let mk : Func := { name := 7, params := [], result := .ptr 1 }
  { items := [.func mk], args := [.ptr 1], ret := .ptr 1, pkgFuncs := [mk] }

theorem C13_arg_shadow_differs :
    faithful cfgArgShadow = false ∧ (migrate cfgArgShadow).isSome = true ∧
    V.beq (wireEval cfgArgShadow 8 (.ptr 1)) (.arg (.ptr 1)) = true ∧
    V.beq (migratedEval cfgArgShadow 8) (.call 7 []) = true := by decide

/-- the pointer-form restriction on `FieldsOf` is necessary: `wire.FieldsOf(new(T0), …)` reads the fields of the *value*
    `T0{…}`, the migrated provider reads them from `&T0{…}` -/
def cfgFieldsValue : Cfg :=
  { items := [.structP 0 [.basic 0], .fieldsOf 0 false [.basic 1]], args := [.basic 0], ret := .basic 1, pkgFuncs := [] }

theorem C13_fields_value_differs :
    faithful cfgFieldsValue = false ∧ (migrate cfgFieldsValue).isSome = true ∧
    V.beq (wireEval cfgFieldsValue 8 (.basic 1)) (.call fieldName [.call (mkName 0) [.arg (.basic 0)]]) = true ∧
    V.beq (migratedEval cfgFieldsValue 8) (.call fieldName [.call (mkPtrName 0) [.arg (.basic 0)]]) = true := by decide

/-! ### bound types are collected per element list -/

/-- **Known finding: a `Bind` written apart from its provider.**
    `wire.Build(wire.NewSet(NewT1), wire.Bind(new(I0), new(*T1)), NewApp)`: `NewT1` sits in an inner set (element list 1), the
    `Bind` and `NewApp` in the `Build` list (element list 0).  `transformElements` collects the bound types from the direct
    elements of the list it is transforming, so `NewT1` is **not** dropped from the inner list, and the `Bind` still becomes
    `Bind[I0](Provide(NewT1))`: two suppliers of `*T1`, kessoku refuses ("multiple providers provide *T1"). -/
def cfgBindApart : Cfg :=
  let newT : Func := { name := ctorName 1, params := [], result := .ptr 1 }
  let newApp : Func := { name := newAppName, params := [.iface 0], result := .ptr 2 }
  { items := [.func newT, .bind 0 (.ptr 1), .func newApp], args := [], ret := .ptr 2, pkgFuncs := [newT, newApp],
    parts := [1, 0, 0] }

theorem C13_neg_bind_apart :
    NoBot (wireEval cfgBindApart 8 cfgBindApart.ret) ∧ NoMissing (wireEval cfgBindApart 8 cfgBindApart.ret) ∧
    V.beq (wireEval cfgBindApart 8 cfgBindApart.ret) (.call newAppName [.call (ctorName 1) []]) = true ∧
    (migrate cfgBindApart).isSome = true ∧
    (∀ ks, migrate cfgBindApart = some ks → kAmbiguous ks = true) ∧
    (migrateChecked cfgBindApart).isSome = false ∧
    faithful cfgBindApart = false := by
  refine ⟨by decide, by decide, by decide, by decide, ?_, by decide, by decide⟩
  intro ks h
  have h' : (migrate cfgBindApart).map kAmbiguous = some true := by decide
  rw [h] at h'; simpa using h'

/-- what the migration emits for `cfgBindApart`: `Provide(NewT1)`, `Bind[I0](Provide(NewT1))`, `Provide(NewApp)` -/
theorem C13_bind_apart_migrated :
    migrate cfgBindApart =
      some [.provide { name := ctorName 1, params := [], result := .ptr 1 },
            .bindProvide [0] { name := ctorName 1, params := [], result := .ptr 1 },
            .provide { name := newAppName, params := [.iface 0], result := .ptr 2 }] := by decide

/-- the finding refutes the full statement as well: the migration "succeeds" and the migrated declaration is refused -/
theorem C13_neg_bind_apart_statement : ¬ C13_statement := by
  intro h
  have h1 : V.beq (migratedEval cfgBindApart 8) (wireEval cfgBindApart 8 cfgBindApart.ret) = true :=
    h cfgBindApart 8 (by decide)
  have h2 : V.beq (migratedEval cfgBindApart 8) (wireEval cfgBindApart 8 cfgBindApart.ret) = false := by decide
  rw [h2] at h1; cases h1

/-- the same items written in **one** element list (`parts := []`): faithful, and the two agree — the new conjunct of
    `faithful` is not vacuous and excludes exactly the placement -/
def cfgBindTogether : Cfg := { cfgBindApart with parts := [] }

theorem C13_bind_together_agrees :
    faithful cfgBindTogether = true ∧
    NoBot (wireEval cfgBindTogether 8 cfgBindTogether.ret) ∧ NoMissing (wireEval cfgBindTogether 8 cfgBindTogether.ret) ∧
    (migrateChecked cfgBindTogether).isSome = true ∧
    V.beq (migratedEval cfgBindTogether 8) (wireEval cfgBindTogether 8 cfgBindTogether.ret) = true ∧
    V.beq (migratedEval cfgBindTogether 8) (.call newAppName [.call (ctorName 1) []]) = true := by decide

/-- it is the placement alone that `bindTogether` rejects: the other conjuncts hold of `cfgBindApart` -/
theorem C13_bind_apart_only_placement :
    bindTogether cfgBindApart = false ∧ listedOnce cfgBindApart = true ∧
    -- `NewT1` and the `Bind` together in the inner set, `NewApp` in the `Build` list: faithful
    faithful { cfgBindApart with parts := [1, 1, 0] } = true ∧
    -- the `Bind` alone in the inner set: not faithful
    faithful { cfgBindApart with parts := [0, 1, 0] } = false := by decide

/-- **One implementation bound to two interfaces in one element list (repaired).**  `NewT1() *T1`, `Bind(I0, *T1)`,
    `Bind(I1, *T1)`, `NewApp(I0, I1) *T2` in one element list.  The migration used to emit `Bind[I0](Provide(NewT1))` and
    `Bind[I1](Provide(NewT1))`, both supplying `*T1`, which kessoku refuses (`NewGraph`: "multiple providers provide"; found
    from this model and confirmed on the real tools).  The repaired migration emits nothing at the second `Bind` and wraps the
    first item: `Bind[I1](Bind[I0](Provide(NewT1)))` — one item supplying `*T1`, `I0`, `I1`. -/
def cfgBindTwice : Cfg :=
  let newT : Func := { name := ctorName 1, params := [], result := .ptr 1 }
  let newApp : Func := { name := newAppName, params := [.iface 0, .iface 1], result := .ptr 2 }
  { items := [.func newT, .bind 0 (.ptr 1), .bind 1 (.ptr 1), .func newApp], args := [], ret := .ptr 2,
    pkgFuncs := [newT, newApp] }

/-- what the migration emits for `cfgBindTwice`: `Bind[I1](Bind[I0](Provide(NewT1)))`, `Provide(NewApp)` -/
theorem C13_bind_twice_migrated :
    migrate cfgBindTwice =
      some [.bindProvide [0, 1] { name := ctorName 1, params := [], result := .ptr 1 },
            .provide { name := newAppName, params := [.iface 0, .iface 1], result := .ptr 2 }] := by decide

/-- `cfgBindTwice` is faithful, not refused, and the migrated injector computes wire's term -/
theorem C13_bind_twice_agrees :
    faithful cfgBindTwice = true ∧
    NoBot (wireEval cfgBindTwice 8 cfgBindTwice.ret) ∧ NoMissing (wireEval cfgBindTwice 8 cfgBindTwice.ret) ∧
    V.beq (wireEval cfgBindTwice 8 cfgBindTwice.ret) (.call newAppName [.call (ctorName 1) [], .call (ctorName 1) []]) = true ∧
    (migrate cfgBindTwice).map kAmbiguous = some false ∧
    (migrateChecked cfgBindTwice).isSome = true ∧
    V.beq (migratedEval cfgBindTwice 8) (wireEval cfgBindTwice 8 cfgBindTwice.ret) = true := by decide

/-- `C13_partial` applied (not re-evaluated) to `cfgBindTwice` -/
theorem C13_bind_twice_agrees_partial : migratedEval cfgBindTwice 8 = wireEval cfgBindTwice 8 cfgBindTwice.ret :=
  (C13_partial cfgBindTwice C13_bind_twice_agrees.1).2 8 C13_bind_twice_agrees.2.1 C13_bind_twice_agrees.2.2.1

/-- **The ambiguity remains across element lists.**  The same items with the second `Bind` in another element list
    (`NewT1`, `Bind(I0, *T1)`, `NewApp` in list 0, `Bind(I1, *T1)` in list 1): the nesting is per element list, so the two
    `Bind`s become `Bind[I0](Provide(NewT1))` and `Bind[I1](Provide(NewT1))`, both supplying `*T1`; kessoku refuses.
    `faithful` excludes it through `bindTogether` (the second `Bind` is not in the element list of `NewT1`). -/
def cfgBindTwiceApart : Cfg := { cfgBindTwice with parts := [0, 0, 1, 0] }

theorem C13_bind_twice_apart_migrated :
    migrate cfgBindTwiceApart =
      some [.bindProvide [0] { name := ctorName 1, params := [], result := .ptr 1 },
            .bindProvide [1] { name := ctorName 1, params := [], result := .ptr 1 },
            .provide { name := newAppName, params := [.iface 0, .iface 1], result := .ptr 2 }] := by decide

theorem C13_bind_twice_apart_ambiguous :
    NoBot (wireEval cfgBindTwiceApart 8 cfgBindTwiceApart.ret) ∧ NoMissing (wireEval cfgBindTwiceApart 8 cfgBindTwiceApart.ret) ∧
    V.beq (wireEval cfgBindTwiceApart 8 cfgBindTwiceApart.ret)
      (.call newAppName [.call (ctorName 1) [], .call (ctorName 1) []]) = true ∧
    (migrate cfgBindTwiceApart).map kAmbiguous = some true ∧
    (migrateChecked cfgBindTwiceApart).isSome = false ∧
    bindTogether cfgBindTwiceApart = false ∧ listedOnce cfgBindTwiceApart = true ∧ faithful cfgBindTwiceApart = false := by decide

/-- on the faithful subset all `Bind`s on one implementation are written in one element list (so the placement of
    `cfgBindTwiceApart` is the only way two `Bind`s on one implementation can still go wrong, and `faithful` excludes it) -/
theorem C13_faithful_binds_one_list (c : Cfg) (h : faithful c = true) {i j x y : Nat} {impl : Ty}
    (hi : c.items[i]? = some (Item.bind x impl)) (hj : c.items[j]? = some (Item.bind y impl)) :
    partOf c i = partOf c j :=
  (Faithful.of_bool h).bindSameList hi hj

/-- still rejected by `listedOnce`: one interface bound twice (here to two implementations); the same item listed twice;
    a `FieldsOf` naming two fields of one type -/
theorem C13_listedOnce_rejects :
    listedOnce { cfgBindTwice with items := cfgBindTwice.items ++ [.bind 0 (.ptr 3)] } = false ∧
    listedOnce { cfgBindTwice with items := cfgBindTwice.items ++ cfgBindTwice.items.take 1 } = false ∧
    listedOnce { cfgValRequest with items := [.structP 0 [.basic 0], .fieldsOf 0 true [.basic 1, .basic 1]] } = false := by decide

end C13
