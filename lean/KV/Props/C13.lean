import KV.Wire
/-! # C13 — migration preserves what google/wire would have built

Property statements only.  `Wire.wireEval` is a reference solver for wire provider sets written from wire's
documented resolution (injector arguments, unique provider per type, `Bind` redirects an interface to its
implementation, `Struct` provides `T` and `*T`, `FieldsOf` reads fields of `T` or `*T`); `Wire.migrate` models
`kessoku migrate` on the same abstract configuration; `Wire.kEval` is kessoku's by-type evaluation of the
migrated declaration (unsupplied types become injector parameters).  Values are Herbrand terms.  The
correspondence check compares, per seeded configuration, the model's verdict (refused / equal / different)
with real google/wire and the real `kessoku migrate` + `kessoku` executed over instrumented providers.

The full statement is **false** of the current migration; the witnesses below are the known findings. -/
namespace C13
open Wire

/-- full statement: for every configuration, whenever the migration succeeds the migrated injector computes
    what wire's injector computes -/
def C13_statement : Prop :=
  ∀ (c : Cfg) (fuel : Nat), (migrate c).isSome → V.beq (migratedEval c fuel) (wireEval c fuel c.ret) = true

/-- **Known finding: `Bind` is migrated by constructor *name*.**  `ProvideRepo(Config) *PgRepo`, an unrelated
    `NewPgRepo(string, int) *PgRepo`, `Bind(Repo, *PgRepo)`: wire calls `ProvideRepo`, the migrated injector calls
    `NewPgRepo`. -/
theorem C13_neg_bind_by_name : ¬ C13_statement := by
  intro h
  have h1 : V.beq (migratedEval cfgBindByName 8) (wireEval cfgBindByName 8 (.ptr 2)) = true := h cfgBindByName 8 (by decide)
  rw [c13_bind_by_name_differs] at h1
  cases h1

/-- **Known finding: the value form of `wire.Struct` is lost** (only `*T` is provided after migration; a consumer of
    the value `T` silently becomes an extra injector parameter). -/
theorem C13_neg_struct_value :
    V.beq (wireEval cfgStructValue 8 (.ptr 1)) (.call newSvcName [.call (mkName 0) [.arg (.basic 0)]]) = true ∧
    V.beq (migratedEval cfgStructValue 8) (.call newSvcName [.arg (.val 0)]) = true :=
  c13_struct_value_differs

/-- a faithful configuration on which both agree (non-vacuity of the comparison): `NewT1() *T1`, `Bind(I0, *T1)`,
    `NewT2(I0) *T2` -/
def cfgFaithful : Cfg :=
  let newT1 : Func := { name := ctorName 1, params := [], result := .ptr 1 }
  let newT2 : Func := { name := ctorName 2, params := [.iface 0], result := .ptr 2 }
  { items := [.func newT1, .bind 0 (.ptr 1), .func newT2], args := [], ret := .ptr 2, pkgFuncs := [newT1, newT2] }

theorem C13_faithful_example :
    (migrate cfgFaithful).isSome = true ∧ V.beq (migratedEval cfgFaithful 8) (wireEval cfgFaithful 8 (.ptr 2)) = true := by
  decide

end C13
