import KV.FailProps
import KV.FailWitness
/-! # C06 — a provider failure surfaces as that failure

Property statements only.  `KV.emittedF p` is the program the generator emits for plan `p` in the semantics with
provider failures, errgroup (first error wins and cancels the derived context), `eg.Wait` and caller
cancellation (`KV/T1F.lean`); its flags are the generator's: a wait is ctx-aware iff the injector has a
context parameter and (it sits in a goroutine or the injector returns `error`), an `exit` is fallible iff its
provider returns `error`.  `eraseFlags (emittedF p) = emitted p` ties it to the fault-free program of C01/C03.
Every theorem quantifies over every accepted declaration, every failure set `env`, every cancellation point and
every interleaving (`T1F.Reach`). -/
open KV
namespace C06

/-- **C06, non-nil.** The injector returns `error` (`p.b.isErr`): if any thread — the main thread or a
    goroutine — ended with an error (a provider failed, or it left through a ctx-aware wait), the injector's
    result is not a value.  Holds for every plan; no side condition. -/
theorem C06_nonnil {p : PlanOut} (hre : p.b.isErr = true) {env : T1F.Env} {s : T1F.St}
    (hr : T1F.Reach (emittedF p) env s) {t : Nat} {e : T1F.Err} (ht : t < (emittedF p).threads.length)
    (hf : T1F.finOf s t = some (.err e)) : s.result ≠ some none := fun hres =>
  T1F.value_means_no_error (plan_retShape p) hre hr hres t e ht hf

/-- **C06, identity (partial).** An error result is the error of a provider that did fail — unless the caller
    cancelled, or the main thread itself left through a ctx-aware wait (the known finding K6, see
    `KV.Witness.K6`).  Holds for every plan; no side condition. -/
theorem C06_identity_partial {p : PlanOut} {env : T1F.Env} {s : T1F.St}
    (hr : T1F.Reach (emittedF p) env s) {e : T1F.Err} (hres : s.result = some (some e))
    (hq : s.callerCanc = false) (hk6 : T1F.finOf s 0 ≠ some (.err .ctx)) :
    ∃ o, e = .prov o ∧ env.fails o = true :=
  T1F.error_is_provider_error (plan_retShape p) hr hres hq hk6

/-- **C06, no dependent runs (1).** Whatever fails and whenever the caller cancels: when a provider is about
    to be entered, every non-parameter input has been written by an `exit` that lies below its thread's counter
    — and a failing `exit` never advances the counter — so the producer **returned successfully**.
    For every accepted declaration; no side condition. -/
theorem C06_no_dependent {provs : List PSpec} {ret : Nat} {p : PlanOut} (h : plan provs ret = .ok p)
    {env : T1F.Env} {s : T1F.St} (hr : T1F.Reach (emittedF p) env s) {t o : Nat} {args : List Nat} {v : Nat}
    (hop : T1F.opAt (emittedF p) t (T1F.pc s t) = some (.enter o args)) (hv : v ∈ args)
    (hnp : ¬ isParamOf p.b v) : T1F.writtenOk (emittedF p) env s v :=
  T1F.writtenOk_of_written hr (T1F.enter_after_writes_sorted (plan_sortedF h) (plan_wfdataF h) hr hop hv hnp)

/-- **C06, no dependent runs (2).** If the provider of node `o'` returns `error` and fails, then in no reachable
    state is any thread about to enter a provider that takes one of `o'`'s results: nothing depending on the
    failed provider is ever invoked.  For every accepted declaration; no side condition. -/
theorem C06_no_dependent_failed {provs : List PSpec} {ret : Nat} {p : PlanOut} (h : plan provs ret = .ok p)
    {env : T1F.Env} {s : T1F.St} (hr : T1F.Reach (emittedF p) env s)
    {t' o' : Nat} {rets : List Nat} {f : Bool} (hex : T1F.Op.exit o' rets f ∈ T1F.thread (emittedF p) t')
    (hfal : fallibleOf p o' = true) (hfails : env.fails o' = true) {v : Nat} (hvr : v ∈ rets)
    (hnp : ¬ isParamOf p.b v) {t o : Nat} {args : List Nat}
    (hop : T1F.opAt (emittedF p) t (T1F.pc s t) = some (.enter o args)) : v ∉ args := by
  intro hv
  obtain ⟨t2, j, o2, rets2, f2, hop2, hv2, _, hok⟩ := C06_no_dependent h hr hop hv hnp
  have hd := (plan_wf h).2
  rw [← eraseFlags_emittedF] at hd
  obtain ⟨_, ho, _⟩ := T1F.singleWriter_of_erase hd hex hvr (T1F.opAt_mem hop2) hv2
  subst ho
  have hf2 : f2 = fallibleOf p o' := emittedF_exit_flag (T1F.opAt_mem hop2)
  rw [hf2, hfal, hfails] at hok
  cases hok

/-- **C06, termination.** As long as the injector has not returned, some thread can move — whatever the
    providers do and whenever the caller cancels.  Needs `AllWaitsCtxAware p` (without it the statement is false:
    see `KV.Witness.K7`). -/
theorem C06_terminates {provs : List PSpec} {ret : Nat} {p : PlanOut} (h : plan provs ret = .ok p)
    (hctx : AllWaitsCtxAware p = true) {env : T1F.Env} {s : T1F.St}
    (hr : T1F.Reach (emittedF p) env s) (hmain : T1F.running s 0) : T1F.Progress (emittedF p) env s :=
  T1F.main_never_stuck (plan_wfF h hctx) (plan_mainShape p) hr hmain


/-- the full statement of clause 2 ("that error is one returned by an invoked provider unless the caller's own
    context was cancelled") — **false of the current generator**, see `C06_identity_neg` -/
def C06_identity_statement : Prop :=
  ∀ (provs : List PSpec) (ret : Nat) (p : PlanOut), plan provs ret = .ok p →
    ∀ (env : T1F.Env) (s : T1F.St), T1F.Reach (emittedF p) env s → ∀ e, s.result = some (some e) →
      s.callerCanc = false → ∃ o, e = .prov o ∧ env.fails o = true

/-- **Known finding K6 (negation witness).**  Declaration: A Async, B Async and fallible, C(A, B) synchronous.
    B fails in its goroutine, errgroup cancels the derived context, the main thread's ctx-aware wait fires and
    the injector returns the context's cancellation error although the caller never cancelled. -/
theorem C06_identity_neg : ¬ C06_identity_statement := by
  intro hst
  obtain ⟨p, hp, hem, _⟩ := KV.Witness.K6_is_emitted
  obtain ⟨hr, hres, hq, _, hno⟩ := KV.Witness.K6_witness
  rw [← hem] at hr
  exact hno (hst _ _ p hp _ _ hr _ hres hq)

end C06

namespace KV.Witness
open T1F

/-! ## the positive theorems are not vacuous: instances on the accepted declarations above -/

/-- `C06_terminates` applies to `provsK6` (two threads, a ctx-aware wait, a fallible goroutine provider):
    its injector can always move until it has returned, for every failure set and cancellation point -/
example (env : Env) (s : St) (hr : Reach K6 env s) (hm : running s 0) : Progress K6 env s := by
  obtain ⟨p, hp, he, ha⟩ := K6_is_emitted
  rw [← he] at hr ⊢
  exact C06.C06_terminates hp ha hr hm

/-- `C06_nonnil` / `C06_identity_partial` / `C07_value_complete` on `provsK6` -/
example (env : Env) (s : St) (hr : Reach K6 env s) (hf : finOf s 1 = some (.err (.prov 2))) :
    s.result ≠ some none := by
  obtain ⟨p, hp, he, _⟩ := K6_is_emitted
  have hre : p.b.isErr = true := by rw [← emittedF_retErr, he]; rfl
  rw [← he] at hr
  exact C06.C06_nonnil hre hr (t := 1) (by rw [he]; decide) hf

/-- `C06_no_dependent_failed` on `provsK8`: `S` (node 3, result variable 0) fails ⇒ `A` (node 1), which takes
    variable 0, is never about to be entered -/
example (s : St) (hr : Reach K8 envK8 s) {t : Nat} {args : List Nat}
    (hop : opAt K8 t (pc s t) = some (.enter 1 args)) : 0 ∉ args := by
  obtain ⟨p, hp, he, _⟩ := K8_is_emitted
  have hfal : fallibleOf p 3 = true := by
    have hmem : Op.exit 3 [0] true ∈ thread (emittedF p) 0 := by rw [he]; decide
    exact (emittedF_exit_flag hmem).symm
  have hnp : ¬ isParamOf p.b 0 := by
    have hd : (match plan provsK8 4 with
        | .ok p => !((p.b.params.getD 0 default).isArg)
        | .error _ => false) = true := by decide +kernel
    rw [hp] at hd
    have hd' : (!((p.b.params.getD 0 default).isArg)) = true := hd
    intro hpar
    simp only [isParamOf] at hpar
    rw [hpar] at hd'
    cases hd'
  rw [← he] at hr hop
  exact C06.C06_no_dependent_failed hp hr (t' := 0) (o' := 3) (rets := [0]) (f := true) (by rw [he]; decide)
    hfal rfl (v := 0) (by decide) hnp hop


end KV.Witness
