import KV.Dump
/-! # C12 — generated identifiers are always fresh

Property statements only.  `VP.getNameFix` is the model of `VarPool.GetName` (and of `Get` / `GetChannel`,
which derive a base name and call it) that the correspondence check compares with the real allocator on
adversarial request histories; `VP.seedPool` is the pool `NewVarPool` starts from, built from the reserved
word lists regenerated from `const.go`.  Package-level names of the user's package and import names are
pre-registered through the same `GetName` (parser.go), i.e. they are a prefix of the request history. -/
namespace C12
open VP

/-- every Go keyword and predeclared identifier of the language specification -/
def goKeywords : List String :=
  ["break", "default", "func", "interface", "select", "case", "defer", "go", "map", "struct", "chan", "else", "goto",
   "package", "switch", "const", "fallthrough", "if", "range", "type", "continue", "for", "import", "return", "var"]
def goPredeclared : List String :=
  ["any", "bool", "byte", "comparable", "complex64", "complex128", "error", "float32", "float64", "int", "int8", "int16",
   "int32", "int64", "rune", "string", "uint", "uint8", "uint16", "uint32", "uint64", "uintptr", "true", "false", "iota",
   "nil", "append", "cap", "clear", "close", "complex", "copy", "delete", "imag", "len", "make", "max", "min", "new",
   "panic", "print", "println", "real", "recover"]

/-- the regenerated reserved lists cover the language's keywords and predeclared identifiers, and
    `NewVarPool` seeds the pool from both -/
theorem C12_reserved_complete :
    Gen.reservedRecognised = true ∧
    goKeywords.all (fun k => Gen.keywords.contains k) = true ∧
    goPredeclared.all (fun k => Gen.predeclared.contains k) = true ∧
    Gen.poolSeededFrom = ["goPredeclaredIdentifiers", "goReservedKeywords", "generatorLocalIdentifiers"] := by decide

/-- every reserved word is in use in the initial pool -/
theorem C12_seed_reserved :
    (Gen.predeclared ++ Gen.keywords ++ Gen.generatorLocals).all (fun k => decide (0 < count seedPool k)) = true := by decide

/-- **Freshness over every history.**  Starting from any pool `p` (the seeded pool after any number of
    pre-registrations), for any sequence of requested base names, the names handed out are pairwise distinct,
    none of them was in use before the history (reserved word, predeclared identifier, package-level name,
    earlier generated name), all of them are in use afterwards, and names in use stay in use. -/
theorem C12_fresh (p p' : Pool) (reqs outs : List String) (h : runFix p reqs = some (p', outs)) :
    outs.Nodup ∧ (∀ o ∈ outs, count p o = 0) ∧ (∀ k, 0 < count p k → 0 < count p' k) ∧ (∀ o ∈ outs, 0 < count p' o) :=
  runFix_fresh p p' reqs outs h

/-- **The allocator always answers** (the search for a free suffix terminates within `|pool| + 2` tries). -/
theorem C12_total (p : Pool) (base : String) : getNameFix p base ≠ none := getNameFix_total p base

/-- the request history that broke the previous allocator (`foo0` handed out twice) is handled -/
example : (runFix [] ["foo", "foo", "foo0"]).map (·.2) = some ["foo", "foo0", "foo00"] := by decide

/-- the previous scheme (count suffix without registering the result) is *not* fresh: kept as the regression
    witness of the repaired defect -/
theorem C12_old_scheme_not_fresh : ¬ (runCur [] ["foo", "foo", "foo0"]).2.Nodup := cur_not_fresh

end C12
