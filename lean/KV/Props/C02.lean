import KV.Eval
import KV.PlanLemmas
import KV.Value
import KV.CallsValue
import KV.Perm
import KV.Generated.TypeCases
/-! # C02 — injector result equals sequential evaluation of the declared graph

Property statements only.  Values are Herbrand terms (`KV.Val`): providers are uninterpreted, so "equal
result" means "the same providers applied to the same inputs".  `KV.Eval` is the reference evaluation written
from the statement (one provider at a time, arguments selected by type key through the supplier map, which
contains interface bindings, expanded struct fields and multi-value groups); `KV.NVal` is the value the planned
graph wires out of a node. -/
namespace C02
open KV

/-- **The wiring computes the reference value.**  In the graph built for any declaration, whatever value the
    wiring delivers out of the node supplying type key `t` (as result group `gi`) is the reference evaluation
    of `t`; argument nodes deliver the caller's argument of that type. -/
theorem C02_wiring_is_reference {provs : List PSpec} {sup : SupMap} (hsup : SupOK provs sup) (rp : Nat) {n gi : Nat} {v : Val}
    (hv : NVal (bfsLoop provs sup (bfsFuel provs) (bfsInit rp)).nodes (bfsLoop provs sup (bfsFuel provs) (bfsInit rp)).edges
      (reqOf provs (bfsLoop provs sup (bfsFuel provs) (bfsInit rp))) n gi v)
    (t : Nat)
    (hp : (∃ p, sup.lookup t = some (p, gi) ∧
            ((bfsLoop provs sup (bfsFuel provs) (bfsInit rp)).nodes.getD n default).isArg = false ∧
            ((bfsLoop provs sup (bfsFuel provs) (bfsInit rp)).nodes.getD n default).prov = p) ∨
          (sup.lookup t = none ∧ ((bfsLoop provs sup (bfsFuel provs) (bfsInit rp)).nodes.getD n default).isArg = true ∧
            ((bfsLoop provs sup (bfsFuel provs) (bfsInit rp)).nodes.getD n default).ty = t)) :
    Eval provs sup t v :=
  bfs_value_is_reference hsup rp hv t hp

/-- **Every emitted provider call reads values that have been written** (so the value it receives is the one
    its producer returned): re-export of C01's ordering theorem, which is what turns the static wiring into
    run-time values under every schedule. -/
theorem C02_reads_written {provs : List PSpec} {ret : Nat} {p : PlanOut} (h : plan provs ret = .ok p)
    {s : T1.Pcs} (hr : T1.Reach (emitted p) s) {t o : Nat} {args : List Nat} {v : Nat}
    (hop : T1.opAt (emitted p) t (T1.pc s t) = some (.enter o args)) (hv : v ∈ args)
    (hnp : ¬ isParamOf p.b v) : T1.written (emitted p) s v :=
  let ⟨hw, hd⟩ := plan_wf h
  T1.enter_after_writes hw hd hr hop hv hnp

/-- **Result = sequential evaluation.**  For every accepted declaration the planned graph wires exactly one value
    out of the node read by the final `return`, and that value is the (unique) reference evaluation of the
    requested type over the supplier map of the declaration. -/
theorem C02_result {provs0 : List PSpec} {ret : Nat} {p : PlanOut} {provs : List PSpec} {sup : SupMap}
    (hp : plan provs0 ret = .ok p) (hs : supplierMap provs0 = .ok (provs, sup)) :
    ∃ v, GraphVal p.g v ∧ Eval provs sup ret v ∧ (∀ v', GraphVal p.g v' → v' = v) ∧ (∀ v', Eval provs sup ret v' → v' = v) :=
  plan_value_spec hp hs

/-- **Async marking never changes the graph**: the planner builds the same nodes, edges and return slot (or fails
    with the same error) for every Async marking of the providers. -/
theorem C02_async_irrelevant (f : Nat → Bool) (provs0 : List PSpec) (ret : Nat) :
    (∃ e, newGraph2 (setAsync f provs0) ret = .error e ∧ newGraph2 provs0 ret = .error e) ∨
    (∃ g' g, newGraph2 (setAsync f provs0) ret = .ok g' ∧ newGraph2 provs0 ret = .ok g ∧
      g'.nodes = g.nodes ∧ g'.edges = g.edges ∧ g'.rev = g.rev ∧ g'.retNode = g.retNode ∧ g'.retIdx = g.retIdx ∧
      g'.provs.length = g.provs.length ∧ ∀ i, SameButAsync (g'.provs.getD i default) (g.provs.getD i default)) :=
  async_irrelevant f provs0 ret

/-- **Async marking never changes the value returned**: whatever the marking, the value wired by an accepted
    plan is the reference evaluation of the unmarked declaration. -/
theorem C02_async_value (f : Nat → Bool) {provs0 : List PSpec} {ret : Nat} {p' : PlanOut} {provs : List PSpec} {sup : SupMap}
    (hp : plan (setAsync f provs0) ret = .ok p') (hs : supplierMap provs0 = .ok (provs, sup))
    (v : Val) (hv : GraphVal p'.g v) : Eval provs sup ret v :=
  plan_value_async f hp hs v hv

/-- **Exactly once / never.**  A provider is invoked by the emitted program (some `enter` of a node of that
    provider occurs in some thread) iff it is needed for the requested type; two invocations of the same provider
    are the same node — and a node's `enter` occurs at exactly one position (`C02_enter_once`). -/
theorem C02_calls_exact {provs0 : List PSpec} {ret : Nat} {p : PlanOut} {provs : List PSpec} {sup : SupMap}
    (h : plan provs0 ret = .ok p) (hs : supplierMap provs0 = .ok (provs, sup)) :
    (∀ q, (∃ n t args, T1.Op.enter n args ∈ T1.thread (emitted p) t ∧ (p.g.nodes.getD n default).isArg = false ∧
        (p.g.nodes.getD n default).prov = q) ↔ Needed provs sup ret q) ∧
    (∀ n n' t t' args args', T1.Op.enter n args ∈ T1.thread (emitted p) t →
      T1.Op.enter n' args' ∈ T1.thread (emitted p) t' →
      (p.g.nodes.getD n default).prov = (p.g.nodes.getD n' default).prov → n = n') :=
  calls_exact h hs

theorem C02_enter_once {provs0 : List PSpec} {ret : Nat} {p : PlanOut} (h : plan provs0 ret = .ok p)
    {t j t' j' n : Nat} {a a' : List Nat}
    (h1 : T1.opAt (emitted p) t j = some (.enter n a)) (h2 : T1.opAt (emitted p) t' j' = some (.enter n a')) :
    t = t' ∧ j = j' :=
  enter_once h h1 h2

/-- **Every run executes everything.**  In a final state of any fault-free run (no thread can move) every thread
    has executed all of its operations: each emitted provider call happened exactly once. -/
theorem C02_run_complete {provs0 : List PSpec} {ret : Nat} {p : PlanOut} (h : plan provs0 ret = .ok p)
    {s : T1.Pcs} (hr : T1.Reach (emitted p) s) (hmax : ∀ t, ¬ T1.Enabled (emitted p) s t) :
    ∀ t, T1.pc s t = (T1.thread (emitted p) t).length :=
  run_calls_once h hr hmax

/-- **The value returned.**  The variable the injector returns holds (symbolically, `VarVal`: parameters hold the
    caller's arguments, a call puts `provider(inputs)` into its result variables) exactly the reference
    evaluation of the requested type, and nothing else. -/
theorem C02_returned_value {provs0 : List PSpec} {ret : Nat} {p : PlanOut} {provs : List PSpec} {sup : SupMap}
    (h : plan provs0 ret = .ok p) (hs : supplierMap provs0 = .ok (provs, sup)) :
    ∃ x, VarVal p p.b.retParam x ∧ GraphVal p.g x ∧ Eval provs sup ret x ∧ ∀ x', VarVal p p.b.retParam x' → x' = x :=
  returned_value h hs

/-! ## Reordering the providers of a declaration

Positions in the provider list change under reordering, so providers are identified by their label — `decl`, and
for the field-access providers created by a struct expansion the pair (`decl` of the struct provider, `fieldName`) —
and values are compared in label form (`KV.LVal`, `KV.label provs : Val → LVal`).  `provs0'.Perm provs0` says the
two declarations list the same providers in different orders. -/

/-- **Suppliers are order-independent.**  If both orders of a declaration have a supplier map (struct expansions
    included), then for every type key `t`: nobody supplies `t` in either, or `t` is supplied as the same result group
    by the same provider — same label, same `requires` and `provides` (indeed equal `PSpec`s) — at whatever
    positions `p'`, `p` it sits in the two expanded lists.  (Holds without assuming distinct labels.) -/
theorem C02_perm_suppliers {provs0' provs0 provs' provs : List PSpec} {sup' sup : SupMap} (hperm : provs0'.Perm provs0)
    (hs' : supplierMap provs0' = .ok (provs', sup')) (hs : supplierMap provs0 = .ok (provs, sup)) (t : Nat) :
    (sup'.lookup t = none ∧ sup.lookup t = none) ∨
    ∃ p' p gi, sup'.lookup t = some (p', gi) ∧ sup.lookup t = some (p, gi) ∧
      (provs'.getD p' default).decl = (provs.getD p default).decl ∧
      (provs'.getD p' default).fieldName = (provs.getD p default).fieldName ∧
      (provs'.getD p' default).requires = (provs.getD p default).requires ∧
      (provs'.getD p' default).provides = (provs.getD p default).provides ∧
      provs'.getD p' default = provs.getD p default := by
  rcases perm_suppliers hperm hs' hs t with h | ⟨p', p, gi, h1, h2, h3⟩
  · exact Or.inl h
  · exact Or.inr ⟨p', p, gi, h1, h2, by rw [h3], by rw [h3], by rw [h3], by rw [h3], h3⟩

/-- **Existence of the supplier map is order-independent** — for declarations with pairwise distinct labels.
    (The proviso `NoFieldOnlyStruct` of the model of the planner before its repair is gone: struct expansion now
    iterates to a fixpoint.)  The error reported on failure may differ between the orders. -/
theorem C02_perm_supplierMap_ok {provs0' provs0 : List PSpec} (hperm : provs0'.Perm provs0)
    (hnd : (provs0.map (·.decl)).Nodup) :
    (∃ r', supplierMap provs0' = .ok r') ↔ (∃ r, supplierMap provs0 = .ok r) :=
  perm_supplierMap_ok hperm hnd

/-- One direction of it (name kept): if one order has a supplier map, every other order has one.  The former second
    alternative — the other order refused with the `orphan` of a struct expansion whose struct type is only a field
    of a struct expanded later — no longer exists. -/
theorem C02_perm_supplierMap_ok_or_orphan {provs0' provs0 provs : List PSpec} {sup : SupMap}
    (hperm : provs0'.Perm provs0) (hnd : (provs0.map (·.decl)).Nodup) (hs : supplierMap provs0 = .ok (provs, sup)) :
    ∃ r', supplierMap provs0' = .ok r' :=
  perm_supplierMap_ok_or_orphan hperm hnd hs

/-- **When the supplier map exists**, position-free: iff no type key has two suppliers (`Unamb`) and every struct
    expansion is sourced — by a function provider, or recursively as a field of a sourced struct expansion. -/
theorem C02_supplierMap_ok_iff {provs0 : List PSpec} (hnd : (provs0.map (·.decl)).Nodup) :
    (∃ r, supplierMap provs0 = .ok r) ↔ (Unamb provs0 ∧ StructsSourced provs0) :=
  supplierMap_ok_iff hnd

/-- **The value is order-independent.**  For every type key, the reference evaluations over the supplier maps of two
    orders of the same declaration (struct expansions included) are the same label-based value. -/
theorem C02_perm_value {provs0' provs0 provs' provs : List PSpec} {sup' sup : SupMap} (hperm : provs0'.Perm provs0)
    (hs' : supplierMap provs0' = .ok (provs', sup')) (hs : supplierMap provs0 = .ok (provs, sup))
    {t : Nat} {v' v : Val} (he' : Eval provs' sup' t v') (he : Eval provs sup t v) :
    label provs' v' = label provs v :=
  perm_value hperm hs' hs he' he

/-- **Both plans return the same value.**  If both orders are accepted, the variable returned by each emitted
    injector holds exactly one symbolic value (it is the value the graph wires out of the return node), and the two
    are the same label-based value. -/
theorem C02_perm_returned_value {provs0' provs0 : List PSpec} {ret : Nat} {p' p : PlanOut} (hperm : provs0'.Perm provs0)
    (hp' : plan provs0' ret = .ok p') (hp : plan provs0 ret = .ok p) :
    ∃ x' x, VarVal p' p'.b.retParam x' ∧ (∀ y, VarVal p' p'.b.retParam y → y = x') ∧ GraphVal p'.g x' ∧
      VarVal p p.b.retParam x ∧ (∀ y, VarVal p p.b.retParam y → y = x) ∧ GraphVal p.g x ∧
      label p'.g.provs x' = label p.g.provs x :=
  perm_returned_value hperm hp' hp

/-- **Acceptance is order-independent** — for declarations with pairwise distinct labels (nested struct expansions
    included; no proviso any more). -/
theorem C02_perm_accept {provs0' provs0 : List PSpec} (ret : Nat) (hperm : provs0'.Perm provs0)
    (hnd : (provs0.map (·.decl)).Nodup) :
    (∃ p', plan provs0' ret = .ok p') ↔ (∃ p, plan provs0 ret = .ok p) :=
  perm_accept ret hperm hnd

/-- … and, whenever both orders have a supplier map, without assuming distinct labels. -/
theorem C02_perm_accept_of_suppliers {provs0' provs0 provs' provs : List PSpec} {sup' sup : SupMap} (ret : Nat)
    (hperm : provs0'.Perm provs0)
    (hs' : supplierMap provs0' = .ok (provs', sup')) (hs : supplierMap provs0 = .ok (provs, sup)) :
    (∃ p', plan provs0' ret = .ok p') ↔ (∃ p, plan provs0 ret = .ok p) :=
  perm_accept_of_ok ret hperm hs' hs

/-- special case (the hypothesis is no longer needed): declarations without struct expansion -/
theorem C02_perm_accept_nostruct {provs0' provs0 : List PSpec} (ret : Nat) (hperm : provs0'.Perm provs0)
    (hnd : (provs0.map (·.decl)).Nodup) (_hk : ∀ q ∈ provs0, q.kind = 0) :
    (∃ p', plan provs0' ret = .ok p') ↔ (∃ p, plan provs0 ret = .ok p) :=
  perm_accept ret hperm hnd

/-- special case (the hypothesis is no longer needed): every expanded struct is returned (or bound) by a function
    provider -/
theorem C02_perm_accept_fnSourced {provs0' provs0 : List PSpec} (ret : Nat) (hperm : provs0'.Perm provs0)
    (hnd : (provs0.map (·.decl)).Nodup) (_hsrc : FnSourced provs0) :
    (∃ p', plan provs0' ret = .ok p') ↔ (∃ p, plan provs0 ret = .ok p) :=
  perm_accept ret hperm hnd

/-- **Nested struct expansions are accepted in both orders** (finding `struct-order-orphan`, repaired): with
    `Struct[8]` (field `x` of struct type 5) and `Struct[5]` (field `y` of type 6) the declaration is accepted whether
    `Struct[8]` or `Struct[5]` is listed first (before the repair the latter order was refused with `orphan 5`). -/
theorem C02_perm_accept_nested_both_orders :
    PermExamples.nestedInnerFirst.Perm PermExamples.nestedOuterFirst ∧
    (PermExamples.nestedOuterFirst.map (·.decl)).Nodup ∧
    RefuseExamples.isOk (plan PermExamples.nestedOuterFirst 6) = true ∧
    RefuseExamples.isOk (plan PermExamples.nestedInnerFirst 6) = true :=
  ⟨PermExamples.nested_perm, PermExamples.nested_distinct, PermExamples.nested_both_accepted⟩

/-- the unrestricted statements (only distinct labels assumed) hold -/
theorem C02_perm_accept_unrestricted : perm_accept_unrestricted_statement := perm_accept_unrestricted
theorem C02_perm_supplierMap_ok_unrestricted : perm_supplierMap_ok_unrestricted_statement :=
  perm_supplierMap_ok_unrestricted

/-! ### checked instance: three providers (`Nat` type keys and labels), rotated `[p0, p1, p2] ↦ [p2, p0, p1]` -/
section
open PermExamples

example : declB.Perm declA ∧ (declA.map (·.decl)).Nodup := ⟨declB_perm, by decide⟩
example : supplierMap declA = .ok (declA, supA) ∧ supplierMap declB = .ok (declB, supB) := ⟨by rfl, by rfl⟩
/-- position-based reference values of type 1 differ, label-based ones coincide -/
example : Eval declA supA 1 valA ∧ Eval declB supB 1 valB ∧ valB ≠ valA :=
  ⟨valA_eval, valB_eval, by intro h; cases h⟩
example : label declB valB = label declA valA := by rfl
example : label declB valB = label declA valA := C02_perm_value declB_perm declB_sup declA_sup valB_eval valA_eval
example : RefuseExamples.isOk (plan declB 1) = true ∧ RefuseExamples.isOk (plan declA 1) = true := by decide
example : (∃ p', plan declB 1 = .ok p') ↔ (∃ p, plan declA 1 = .ok p) :=
  C02_perm_accept_nostruct 1 declB_perm declA_distinct (by decide)
/-- the nested-struct example, by evaluation: both orders accepted -/
example : RefuseExamples.isOk (plan nestedOuterFirst 6) = true ∧
    RefuseExamples.isOk (plan nestedInnerFirst 6) = true := by decide
end

/-- the planner finds the supplier of a type by type identity: no table of `NewGraph` is keyed by the spelling of a
    type (`map[string]…` filled through `t.String()`), the supplier and argument tables are `typeutil.Map`s
    (regenerated from graph.go; before fix 5cbfa32 both were keyed by spelling, so `byte` did not supply `uint8`).
    The model's type identity is equality of type ids; this fact is what lets ids stand for Go types. -/
theorem C02_suppliers_by_identity :
    Gen.newGraphTablesKeyedBySpelling = [] ∧
    (["argNodeMap", "fnProviderMap"].all (fun k => Gen.newGraphTablesKeyedByIdentity.contains k)) = true := by decide

end C02

#print axioms C02.C02_perm_suppliers
#print axioms C02.C02_perm_supplierMap_ok
#print axioms C02.C02_perm_supplierMap_ok_or_orphan
#print axioms C02.C02_perm_value
#print axioms C02.C02_perm_returned_value
#print axioms C02.C02_perm_accept
#print axioms C02.C02_perm_accept_of_suppliers
#print axioms C02.C02_perm_accept_nested_both_orders
#print axioms C02.C02_supplierMap_ok_iff
#print axioms C02.C02_perm_accept_unrestricted
