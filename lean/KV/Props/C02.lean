import KV.Eval
import KV.PlanLemmas
/-! # C02 — injector result equals sequential evaluation of the declared graph

Property statements only.  Values are Herbrand terms (`KV.Val`): providers are uninterpreted, so "equal
result" means "the same providers applied to the same inputs".  `KV.Eval` is the reference evaluation written
from the statement (one provider at a time, arguments selected by type key through the supplier map, which
contains interface bindings, expanded struct fields and multi-value groups); `KV.NVal` is the value the planned
graph wires out of a node. -/
namespace C02
open KV

/-- **The wiring computes the reference value.**  In the graph built for any declaration, whatever value the
    wiring delivers out of the node supplying type key `t` (as result group `gi`) is the reference evaluation
    of `t`; argument nodes deliver the caller's argument of that type. -/
theorem C02_wiring_is_reference {provs : List PSpec} {sup : SupMap} (hsup : SupOK provs sup) (rp : Nat) {n gi : Nat} {v : Val}
    (hv : NVal (bfsLoop provs sup (bfsFuel provs) (bfsInit rp)).nodes (bfsLoop provs sup (bfsFuel provs) (bfsInit rp)).edges
      (reqOf provs (bfsLoop provs sup (bfsFuel provs) (bfsInit rp))) n gi v)
    (t : Nat)
    (hp : (∃ p, sup.lookup t = some (p, gi) ∧
            ((bfsLoop provs sup (bfsFuel provs) (bfsInit rp)).nodes.getD n default).isArg = false ∧
            ((bfsLoop provs sup (bfsFuel provs) (bfsInit rp)).nodes.getD n default).prov = p) ∨
          (sup.lookup t = none ∧ ((bfsLoop provs sup (bfsFuel provs) (bfsInit rp)).nodes.getD n default).isArg = true ∧
            ((bfsLoop provs sup (bfsFuel provs) (bfsInit rp)).nodes.getD n default).ty = t)) :
    Eval provs sup t v :=
  bfs_value_is_reference hsup rp hv t hp

/-- **Every emitted provider call reads values that have been written** (so the value it receives is the one
    its producer returned): re-export of C01's ordering theorem, which is what turns the static wiring into
    run-time values under every schedule. -/
theorem C02_reads_written {provs : List PSpec} {ret : Nat} {p : PlanOut} (h : plan provs ret = .ok p)
    {s : T1.Pcs} (hr : T1.Reach (emitted p) s) {t o : Nat} {args : List Nat} {v : Nat}
    (hop : T1.opAt (emitted p) t (T1.pc s t) = some (.enter o args)) (hv : v ∈ args)
    (hnp : ¬ isParamOf p.b v) : T1.written (emitted p) s v :=
  let ⟨hw, hd⟩ := plan_wf h
  T1.enter_after_writes hw hd hr hop hv hnp

end C02
