import KV.Eval
import KV.PlanLemmas
import KV.Value
import KV.CallsValue
/-! # C02 — injector result equals sequential evaluation of the declared graph

Property statements only.  Values are Herbrand terms (`KV.Val`): providers are uninterpreted, so "equal
result" means "the same providers applied to the same inputs".  `KV.Eval` is the reference evaluation written
from the statement (one provider at a time, arguments selected by type key through the supplier map, which
contains interface bindings, expanded struct fields and multi-value groups); `KV.NVal` is the value the planned
graph wires out of a node. -/
namespace C02
open KV

/-- **The wiring computes the reference value.**  In the graph built for any declaration, whatever value the
    wiring delivers out of the node supplying type key `t` (as result group `gi`) is the reference evaluation
    of `t`; argument nodes deliver the caller's argument of that type. -/
theorem C02_wiring_is_reference {provs : List PSpec} {sup : SupMap} (hsup : SupOK provs sup) (rp : Nat) {n gi : Nat} {v : Val}
    (hv : NVal (bfsLoop provs sup (bfsFuel provs) (bfsInit rp)).nodes (bfsLoop provs sup (bfsFuel provs) (bfsInit rp)).edges
      (reqOf provs (bfsLoop provs sup (bfsFuel provs) (bfsInit rp))) n gi v)
    (t : Nat)
    (hp : (∃ p, sup.lookup t = some (p, gi) ∧
            ((bfsLoop provs sup (bfsFuel provs) (bfsInit rp)).nodes.getD n default).isArg = false ∧
            ((bfsLoop provs sup (bfsFuel provs) (bfsInit rp)).nodes.getD n default).prov = p) ∨
          (sup.lookup t = none ∧ ((bfsLoop provs sup (bfsFuel provs) (bfsInit rp)).nodes.getD n default).isArg = true ∧
            ((bfsLoop provs sup (bfsFuel provs) (bfsInit rp)).nodes.getD n default).ty = t)) :
    Eval provs sup t v :=
  bfs_value_is_reference hsup rp hv t hp

/-- **Every emitted provider call reads values that have been written** (so the value it receives is the one
    its producer returned): re-export of C01's ordering theorem, which is what turns the static wiring into
    run-time values under every schedule. -/
theorem C02_reads_written {provs : List PSpec} {ret : Nat} {p : PlanOut} (h : plan provs ret = .ok p)
    {s : T1.Pcs} (hr : T1.Reach (emitted p) s) {t o : Nat} {args : List Nat} {v : Nat}
    (hop : T1.opAt (emitted p) t (T1.pc s t) = some (.enter o args)) (hv : v ∈ args)
    (hnp : ¬ isParamOf p.b v) : T1.written (emitted p) s v :=
  let ⟨hw, hd⟩ := plan_wf h
  T1.enter_after_writes hw hd hr hop hv hnp

/-- **Result = sequential evaluation.**  For every accepted declaration the planned graph wires exactly one value
    out of the node read by the final `return`, and that value is the (unique) reference evaluation of the
    requested type over the supplier map of the declaration. -/
theorem C02_result {provs0 : List PSpec} {ret : Nat} {p : PlanOut} {provs : List PSpec} {sup : SupMap}
    (hp : plan provs0 ret = .ok p) (hs : supplierMap provs0 = .ok (provs, sup)) :
    ∃ v, GraphVal p.g v ∧ Eval provs sup ret v ∧ (∀ v', GraphVal p.g v' → v' = v) ∧ (∀ v', Eval provs sup ret v' → v' = v) :=
  plan_value_spec hp hs

/-- **Async marking never changes the graph**: the planner builds the same nodes, edges and return slot (or fails
    with the same error) for every Async marking of the providers. -/
theorem C02_async_irrelevant (f : Nat → Bool) (provs0 : List PSpec) (ret : Nat) :
    (∃ e, newGraph2 (setAsync f provs0) ret = .error e ∧ newGraph2 provs0 ret = .error e) ∨
    (∃ g' g, newGraph2 (setAsync f provs0) ret = .ok g' ∧ newGraph2 provs0 ret = .ok g ∧
      g'.nodes = g.nodes ∧ g'.edges = g.edges ∧ g'.rev = g.rev ∧ g'.retNode = g.retNode ∧ g'.retIdx = g.retIdx ∧
      g'.provs.length = g.provs.length ∧ ∀ i, SameButAsync (g'.provs.getD i default) (g.provs.getD i default)) :=
  async_irrelevant f provs0 ret

/-- **Async marking never changes the value returned**: whatever the marking, the value wired by an accepted
    plan is the reference evaluation of the unmarked declaration. -/
theorem C02_async_value (f : Nat → Bool) {provs0 : List PSpec} {ret : Nat} {p' : PlanOut} {provs : List PSpec} {sup : SupMap}
    (hp : plan (setAsync f provs0) ret = .ok p') (hs : supplierMap provs0 = .ok (provs, sup))
    (v : Val) (hv : GraphVal p'.g v) : Eval provs sup ret v :=
  plan_value_async f hp hs v hv

/-- **Exactly once / never.**  A provider is invoked by the emitted program (some `enter` of a node of that
    provider occurs in some thread) iff it is needed for the requested type; two invocations of the same provider
    are the same node — and a node's `enter` occurs at exactly one position (`C02_enter_once`). -/
theorem C02_calls_exact {provs0 : List PSpec} {ret : Nat} {p : PlanOut} {provs : List PSpec} {sup : SupMap}
    (h : plan provs0 ret = .ok p) (hs : supplierMap provs0 = .ok (provs, sup)) :
    (∀ q, (∃ n t args, T1.Op.enter n args ∈ T1.thread (emitted p) t ∧ (p.g.nodes.getD n default).isArg = false ∧
        (p.g.nodes.getD n default).prov = q) ↔ Needed provs sup ret q) ∧
    (∀ n n' t t' args args', T1.Op.enter n args ∈ T1.thread (emitted p) t →
      T1.Op.enter n' args' ∈ T1.thread (emitted p) t' →
      (p.g.nodes.getD n default).prov = (p.g.nodes.getD n' default).prov → n = n') :=
  calls_exact h hs

theorem C02_enter_once {provs0 : List PSpec} {ret : Nat} {p : PlanOut} (h : plan provs0 ret = .ok p)
    {t j t' j' n : Nat} {a a' : List Nat}
    (h1 : T1.opAt (emitted p) t j = some (.enter n a)) (h2 : T1.opAt (emitted p) t' j' = some (.enter n a')) :
    t = t' ∧ j = j' :=
  enter_once h h1 h2

/-- **Every run executes everything.**  In a final state of any fault-free run (no thread can move) every thread
    has executed all of its operations: each emitted provider call happened exactly once. -/
theorem C02_run_complete {provs0 : List PSpec} {ret : Nat} {p : PlanOut} (h : plan provs0 ret = .ok p)
    {s : T1.Pcs} (hr : T1.Reach (emitted p) s) (hmax : ∀ t, ¬ T1.Enabled (emitted p) s t) :
    ∀ t, T1.pc s t = (T1.thread (emitted p) t).length :=
  run_calls_once h hr hmax

/-- **The value returned.**  The variable the injector returns holds (symbolically, `VarVal`: parameters hold the
    caller's arguments, a call puts `provider(inputs)` into its result variables) exactly the reference
    evaluation of the requested type, and nothing else. -/
theorem C02_returned_value {provs0 : List PSpec} {ret : Nat} {p : PlanOut} {provs : List PSpec} {sup : SupMap}
    (h : plan provs0 ret = .ok p) (hs : supplierMap provs0 = .ok (provs, sup)) :
    ∃ x, VarVal p p.b.retParam x ∧ GraphVal p.g x ∧ Eval provs sup ret x ∧ ∀ x', VarVal p p.b.retParam x' → x' = x :=
  returned_value h hs

end C02
