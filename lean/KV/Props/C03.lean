import KV.PlanLemmas
import KV.Join
/-! # C03 — injectors terminate and join all their goroutines on success

Property statements only; fault-free, uncancelled runs (`T1` semantics), every interleaving, every
accepted declaration. -/
namespace C03
open KV

/-- **No deadlock.** Whatever the program counters (reachable or not), if some thread still has an
    operation to execute then some thread can take a step: a wait is never for a signal nobody sends. -/
theorem C03_progress {provs : List PSpec} {ret : Nat} {p : PlanOut} (h : plan provs ret = .ok p)
    (s : T1.Pcs) (hpend : ∃ t op, T1.Pending (emitted p) s t op) : ∃ t, T1.Enabled (emitted p) s t :=
  T1.progress (plan_wf h).1 hpend

/-- **Termination.** Every run takes at most as many steps as the program has operations. -/
theorem C03_bounded {provs : List PSpec} {ret : Nat} {p : PlanOut} (_h : plan provs ret = .ok p)
    {n : Nat} {s : T1.Pcs} (hr : T1.ReachN (emitted p) n s) : n ≤ T1.total (emitted p) :=
  T1.steps_bounded hr

/-- **Every waited signal has a sender** of strictly smaller rank (it is sent before, never by the waiter's
    own future). -/
theorem C03_every_wait_has_closer {provs : List PSpec} {ret : Nat} {p : PlanOut} (h : plan provs ret = .ok p)
    {t o c : Nat} (hw : T1.Op.wait o c ∈ T1.thread (emitted p) t) :
    ∃ t' o', T1.Op.close o' c ∈ T1.thread (emitted p) t' ∧
      rankOfPlan p (.close o' c) < rankOfPlan p (.wait o c) :=
  (plan_wf h).1.waitClose t o c hw

/-- **No completion is signalled twice**: a channel is closed by one op of one thread only. -/
theorem C03_close_once {provs : List PSpec} {ret : Nat} {p : PlanOut} (h : plan provs ret = .ok p)
    {c t o t' o' : Nat} (h1 : T1.Op.close o c ∈ T1.thread (emitted p) t)
    (h2 : T1.Op.close o' c ∈ T1.thread (emitted p) t') : t = t' ∧ o = o' :=
  (plan_wf h).2.closeUnique c t o t' o' h1 h2

/-- **Joined.** When the injector is about to return (main thread at its `ret`), every goroutine it started
    has executed all of its operations. -/
theorem C03_joined {provs : List PSpec} {ret : Nat} {p : PlanOut} (h : plan provs ret = .ok p)
    {s : T1.Pcs} (hr : T1.Reach (emitted p) s) {v : Nat}
    (hret : T1.opAt (emitted p) 0 (T1.pc s 0) = some (.ret v))
    {g : Nat} (hg : 0 < g) (hgl : g < (emitted p).threads.length) : T1.threadDone (emitted p) s g := by
  have hw := (plan_wf h).1
  have hne : p.chains.map (·.map (nodeInfo p.b)) ≠ [] := by
    intro e
    have : (emitted p).threads.length = 1 := by simp [emitted, emitPlan, T1.emit, e]
    omega
  have heg : T1.Op.egwait ∈ T1.thread (emitted p) 0 := T1.egwait_mem_emit _ _ _ hne
  exact T1.joined_at_ret hw hr hret heg (by simp [rankOfPlan, T1.rankOf]) hg hgl

end C03
