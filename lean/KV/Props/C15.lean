import KV.InstallProofs
import KV.Generated.Install
/-! # C15 — skill installation is atomic per file under crashes and errors

Property statements only.  Every theorem is about `Gen.installSteps` / `Gen.installCleanup`, the step
list and deferred clean-up that `factgen` regenerates from `internal/llmsetup/install.go` on every run;
the general lemmas they instantiate are in `KV/InstallProofs.lean`. -/
namespace C15
open Inst

/-- the regenerated step list contains only calls whose meaning the model fixes, and passes the three
    decidable checks (evaluated by the kernel on the regenerated term) -/
theorem C15_shape :
    hasUnknown Gen.installSteps Gen.installCleanup = false ∧
    crashSafe Gen.installSteps Gen.fileMode = true ∧
    completes Gen.installSteps Gen.installCleanup Gen.fileMode = true ∧
    faultSafe Gen.installSteps Gen.installCleanup = true := by decide

/-- the installed mode is the documented one -/
theorem C15_mode : Gen.fileMode = 0o644 := by decide

/-- **Crash.** If the installer dies after any number `k` of completed file-system steps of
    `InstallFile`, `j` bytes into a write, the destination file is exactly what it was before (`old`,
    possibly absent) or entirely the new content with its final permissions. -/
theorem C15_crash (old : Option FileV) (content : List Nat) (k j : Nat) :
    (runCrash content Gen.installSteps k j { dest := old, tmp := none }).dest = old ∨
    (runCrash content Gen.installSteps k j { dest := old, tmp := none }).dest = some (content, 0o644) :=
  crash_atomic_of_safe Gen.installSteps 0o644 C15_shape.2.1 old content k j

/-- **A later successful run completes the installation**, whatever state a crash left behind. -/
theorem C15_rerun (old : Option FileV) (content : List Nat) (k j : Nat) :
    runOK content Gen.installSteps Gen.installCleanup
      { dest := (runCrash content Gen.installSteps k j { dest := old, tmp := none }).dest, tmp := none } =
    { st := { dest := some (content, 0o644), tmp := none }, reported := false } :=
  rerun_completes_of Gen.installSteps Gen.installCleanup 0o644 C15_shape.2.2.1 _ content

/-- **Single injected failure.** If step `i` fails without a crash (a failing write may have written
    `j` bytes), the installer reports an error, leaves no temporary file and leaves the previous
    destination intact. -/
theorem C15_fault (old : Option FileV) (content : List Nat) (i j : Nat) (hi : i < Gen.installSteps.length) :
    (runFail content Gen.installSteps Gen.installCleanup i j { dest := old, tmp := none }).reported = true ∧
    (runFail content Gen.installSteps Gen.installCleanup i j { dest := old, tmp := none }).st.dest = old ∧
    (runFail content Gen.installSteps Gen.installCleanup i j { dest := old, tmp := none }).st.tmp = none :=
  fault_clean_of_safe Gen.installSteps Gen.installCleanup C15_shape.2.2.2 old content i j hi

/-- `Install` validates the base path before walking, installs every embedded file through
    `InstallFile(<skill dir>/<dir of rel path>, <base name>, <bytes>)` and touches the file system in
    no other way (regenerated call list). -/
theorem C15_walk :
    Gen.installCalls = ["ResolvePath(customPath,userFlag,agent)", "ValidatePath(basePath)",
      "filepath.Join(basePath,agent.SkillsDirName())", "fs.Stat(skillsFS,srcDir)", "fs.WalkDir(skillsFS,srcDir,?)",
      "filepath.Rel(srcDir,fsPath)", "fs.ReadFile(skillsFS,fsPath)",
      "filepath.Join(skillPath,filepath.Dir(relPath))", "filepath.Dir(relPath)", "filepath.Base(relPath)",
      "InstallFile(targetDir,fileName,content)"] := by decide

/-! Non-vacuity: the hypotheses are met by concrete non-trivial runs, and a mutated order is refuted. -/

example : (runCrash [1, 2, 3] Gen.installSteps 2 1 { dest := some ([9], 0o600), tmp := none }).dest = some ([9], 0o600) := by
  decide
example : (runCrash [1, 2, 3] Gen.installSteps 7 0 { dest := some ([9], 0o600), tmp := none }).dest = some ([1, 2, 3], 0o644) := by
  decide
example : 3 < Gen.installSteps.length := by decide

/-- rename before chmod is *not* crash-safe: the checker rejects it and the witness is the crash point
    right after the rename -/
example : crashSafe [⟨.mkdirAll, true⟩, ⟨.createTemp, true⟩, ⟨.write .tmp, true⟩, ⟨.closeF, true⟩, ⟨.rename, true⟩,
    ⟨.chmod .final 0o644, true⟩] 0o644 = false := by decide

end C15
