import KV.Props.C12
/-! # C04 — successful generation always yields compilable, hygienic Go

Property statements only.  "Compiles" is a verdict of the Go type checker, which Lean does not contain; what
is proved here is the allocator part of hygiene (every identifier the generator obtains from its name pool is
fresh with respect to reserved words, predeclared identifiers, package-level names and every earlier generated
name — for any number of injectors and files of one invocation, since they share one pool), and the reserved
lists being complete.  The remaining clauses are tied by the end-to-end correspondence: every sampled output is
type-checked by the real compiler together with the user's package (see DESIGN.md §4 C04 for the known
findings: hard-coded locals `eg ctx ch zero err errgroup`, type-expression rendering). -/
namespace C04
open VP

/-- generated identifiers never clash with each other, with a keyword / predeclared identifier, or with a
    pre-registered package-level name, across the whole request history of an invocation -/
theorem C04_names_fresh (p p' : Pool) (reqs outs : List String) (h : runFix p reqs = some (p', outs)) :
    outs.Nodup ∧ (∀ o ∈ outs, count p o = 0) ∧ (∀ k, 0 < count p k → 0 < count p' k) :=
  let ⟨a, b, c, _⟩ := C12.C12_fresh p p' reqs outs h
  ⟨a, b, c⟩

/-- the reserved lists the pool starts from contain every keyword and predeclared identifier of the language -/
theorem C04_reserved_complete :
    C12.goKeywords.all (fun k => Gen.keywords.contains k) = true ∧
    C12.goPredeclared.all (fun k => Gen.predeclared.contains k) = true :=
  ⟨C12.C12_reserved_complete.2.1, C12.C12_reserved_complete.2.2.1⟩

/-- the local identifiers the emitter introduces by itself (errgroup variable, channel loop variable, zero value)
    are reserved in the pool, so no provided value, channel, error variable, parameter or import alias is given
    one of these names -/
theorem C04_emitter_locals_reserved :
    ["eg", "ch", "zero"].all (fun k => Gen.generatorLocals.contains k) = true ∧
    Gen.generatorLocals.all (fun k => decide (0 < count seedPool k)) = true := by decide

end C04
