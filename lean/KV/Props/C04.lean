import KV.Props.C12
import KV.Hygiene
import KV.GenConvProofs
import KV.Generated.TypeCases
/-! # C04 — successful generation always yields compilable, hygienic Go

Property statements only.  "Compiles" is a verdict of the Go type checker, which Lean does not contain; what
is proved here is the allocator part of hygiene (every identifier the generator obtains from its name pool is
fresh with respect to reserved words, predeclared identifiers, package-level names and every earlier generated
name — for any number of injectors and files of one invocation, since they share one pool), and the reserved
lists being complete.  The remaining clauses are tied by the end-to-end correspondence: every sampled output is
type-checked by the real compiler together with the user's package (see DESIGN.md §4 C04 for the known
findings: hard-coded locals `eg ctx ch zero err errgroup`, type-expression rendering).

The second half (`C04_declared_vars_used` … `C04_no_blank_call`, proofs in `KV/Hygiene.lean`) is the structural part of
"the emitted function compiles": Go rejects a local that is *declared and not used*, and the generator declares
`var x T` for every result parameter not written `_` (model: `refs ≠ 0`) and `xCh := make(chan struct{})` for every
parameter with `withChan`.  For every accepted declaration (`plan provs ret = .ok p`, unbounded size) the two
counters set in the second pass of `Build` agree exactly with the ops of the emitted program `emitted p`. -/
namespace C04
open VP

/-- generated identifiers never clash with each other, with a keyword / predeclared identifier, or with a
    pre-registered package-level name, across the whole request history of an invocation -/
theorem C04_names_fresh (p p' : Pool) (reqs outs : List String) (h : runFix p reqs = some (p', outs)) :
    outs.Nodup ∧ (∀ o ∈ outs, count p o = 0) ∧ (∀ k, 0 < count p k → 0 < count p' k) :=
  let ⟨a, b, c, _⟩ := C12.C12_fresh p p' reqs outs h
  ⟨a, b, c⟩

/-- the reserved lists the pool starts from contain every keyword and predeclared identifier of the language -/
theorem C04_reserved_complete :
    C12.goKeywords.all (fun k => Gen.keywords.contains k) = true ∧
    C12.goPredeclared.all (fun k => Gen.predeclared.contains k) = true :=
  ⟨C12.C12_reserved_complete.2.1, C12.C12_reserved_complete.2.2.1⟩

/-- the local identifiers the emitter introduces by itself (errgroup variable, channel loop variable, zero value)
    are reserved in the pool, so no provided value, channel, error variable, parameter or import alias is given
    one of these names -/
theorem C04_emitter_locals_reserved :
    ["eg", "ch", "zero"].all (fun k => Gen.generatorLocals.contains k) = true ∧
    Gen.generatorLocals.all (fun k => decide (0 < count seedPool k)) = true := by decide

/-! ## structural hygiene of the emitted function: declared ⇒ used -/
section Hygiene
open KV

/-- **Every declared variable is used, and only used variables are declared.**  A parameter is given a name
    (`refs ≠ 0`; with `refs = 0` the emitter writes `_` and declares nothing) iff some emitted call takes it as an
    argument or it is the operand of the final `return`.  So no `var x T` / `x := f()` of the emitted Go is
    "declared and not used", and nothing that is read was written `_`. -/
theorem C04_declared_vars_used {provs : List PSpec} {ret : Nat} {p : PlanOut} (h : plan provs ret = .ok p) (v : Nat) :
    (p.b.params.getD v default).refs ≠ 0 ↔
      ((∃ t o args, T1.Op.enter o args ∈ T1.thread (emitted p) t ∧ v ∈ args) ∨
        T1.Op.ret v ∈ T1.thread (emitted p) 0) :=
  refs_ne_zero_iff h v

/-- **`refs` counts the readers exactly**: the number of (consumer call, argument slot) pairs the graph wires to the
    variable (`wiredTo`: one graph edge each), plus one for the `return`. -/
theorem C04_refs_count {provs : List PSpec} {ret : Nat} {p : PlanOut} (h : plan provs ret = .ok p) {v : Nat}
    (hv : v < p.b.params.length) :
    (p.b.params.getD v default).refs = (if v = p.b.retParam then 1 else 0) + (wiredTo p v).length :=
  refs_eq_count h hv

/-- **Every declared channel is used on both sides, and only then declared.**  `withChan c` (the emitter declares
    `cCh := make(chan struct{})`) iff some emitted statement receives from it (`wait _ c`), iff some emitted
    statement closes it; it is closed by one op only, and every receiver runs in a different thread (goroutine)
    than the closer: `withChan` is exactly "a consumer in another thread waits". -/
theorem C04_channel_iff_waited {provs : List PSpec} {ret : Nat} {p : PlanOut} (h : plan provs ret = .ok p) (c : Nat) :
    ((p.b.params.getD c default).withChan = true ↔ ∃ t o, T1.Op.wait o c ∈ T1.thread (emitted p) t) ∧
    ((p.b.params.getD c default).withChan = true ↔ ∃ t o, T1.Op.close o c ∈ T1.thread (emitted p) t) ∧
    (∀ t o t' o', T1.Op.close o c ∈ T1.thread (emitted p) t → T1.Op.close o' c ∈ T1.thread (emitted p) t' →
      t = t' ∧ o = o') ∧
    (∀ t o t' o', T1.Op.wait o c ∈ T1.thread (emitted p) t → T1.Op.close o' c ∈ T1.thread (emitted p) t' →
      t ≠ t') :=
  ⟨withChan_iff_wait h c, withChan_iff_close h c,
   fun t o t' o' h1 h2 => (plan_wf h).2.closeUnique c t o t' o' h1 h2,
   fun _ _ _ _ hw hc => wait_other_thread h hw hc⟩

/-- **Injector arguments are plain function parameters**: the parameters flagged `isArg` are exactly those of the
    injector's signature (`p.b.args`), they never get a completion channel, no emitted call assigns them, and no
    emitted statement receives from or closes a channel of theirs. -/
theorem C04_args_plain {provs : List PSpec} {ret : Nat} {p : PlanOut} (h : plan provs ret = .ok p) (v : Nat) :
    (v ∈ p.b.args ↔ (v < p.b.params.length ∧ (p.b.params.getD v default).isArg = true)) ∧
    ((p.b.params.getD v default).isArg = true →
      (p.b.params.getD v default).withChan = false ∧
      (∀ t o rets, T1.Op.exit o rets ∈ T1.thread (emitted p) t → v ∉ rets) ∧
      (∀ t o, T1.Op.wait o v ∉ T1.thread (emitted p) t) ∧
      (∀ t o, T1.Op.close o v ∉ T1.thread (emitted p) t)) :=
  ⟨isArg_iff_mem_args h v, fun hv => arg_plain h hv⟩

/-- **Every argument of an emitted call is a declared thing**: an allocated parameter that has a name
    (`refs ≠ 0`, so no call reads `_`), and if it is flagged `isArg` it is one of the injector's own parameters. -/
theorem C04_call_args_declared {provs : List PSpec} {ret : Nat} {p : PlanOut} (h : plan provs ret = .ok p)
    {t o v : Nat} {args : List Nat} (hen : T1.Op.enter o args ∈ T1.thread (emitted p) t) (hv : v ∈ args) :
    v < p.b.params.length ∧ (p.b.params.getD v default).refs ≠ 0 ∧
      ((p.b.params.getD v default).isArg = true → v ∈ p.b.args) :=
  let ⟨h1, h2⟩ := call_args_declared h hen hv
  ⟨h1, h2, fun ha => (isArg_iff_mem_args h v).mpr ⟨h1, ha⟩⟩

/-- **No emitted call discards all of its results**: some result of every emitted call has a name, so the emitter
    never writes `_, _ := f()` ("no new variables on left side of :="). -/
theorem C04_no_blank_call {provs : List PSpec} {ret : Nat} {p : PlanOut} (h : plan provs ret = .ok p)
    {t o : Nat} {rets : List Nat} (hex : T1.Op.exit o rets ∈ T1.thread (emitted p) t) :
    ∃ v ∈ rets, (p.b.params.getD v default).refs ≠ 0 :=
  exit_some_used h hex

/-- non-vacuity: a declaration whose second result is never read (`refs = 0`, written `_`) … -/
example : paramFlags twoResults 1 = some [(true, 1, false), (false, 1, false), (false, 0, false)] := by decide
/-- … and one with two completion channels (`diamondA`, two threads) -/
example : (paramFlags diamondA 1).map (·.map (·.2.2)) = some [false, true, true, false, false] := by decide

end Hygiene

/-! ## the types the generator spells (`createASTTypeExpr`; model `KV/GenConv.lean`, proofs `KV/GenConvProofs.lean`) -/

/-- every type the generator spells from type information (injector parameters, results, variables) denotes, in the
    generated file, the type it was spelled from; the local names it gives to imports are fresh in the name pool
    (no clash with reserved words, the user's package-level identifiers, variables or other imports), and it adds no
    import the spelled types do not use -/
theorem C04_types_roundtrip (cur : Nat) (pname : Nat → String) (pool : VP.Pool) (ts : List GConv.Ty) (st' : GConv.St)
    (es : List GConv.Ex) (hwf : GConv.WFList ts = true)
    (h : GConv.renderList cur pname { pool := pool, imports := [] } ts = some (st', es)) :
    GConv.resolveList cur st' es = some ts ∧
    (∀ p n, st'.imports.lookup p = some n → VP.count pool n = 0 ∧ n ∈ GConv.qualsList es) ∧
    (∀ p q n, st'.imports.lookup p = some n → st'.imports.lookup q = some n → p = q) := by
  have hi : GConv.Inv { pool := pool, imports := [] } :=
    ⟨fun p n hl => by simp [List.lookup] at hl, fun p n hl => by simp [List.lookup] at hl⟩
  have hi' := GConv.renderList_inv ts _ st' es hi h
  refine ⟨GConv.renderList_roundtrip ts _ st' es hi hwf h, ?_, ?_⟩
  · intro p n hl
    constructor
    · rcases GConv.renderList_names_fresh ts _ st' es hi h p n hl with h0 | h0
      · simp [List.lookup] at h0
      · exact h0
    · rcases GConv.renderList_no_unused ts _ st' es h p n hl with h0 | h0
      · simp [List.lookup] at h0
      · exact h0
  · intro p q n hp hq
    have h1 := hi'.2 p n hp
    have h2 := hi'.2 q n hq
    rw [h1] at h2
    exact Option.some.inj h2

/-- spelling a type never fails -/
theorem C04_types_total (cur : Nat) (pname : Nat → String) (st : GConv.St) (ts : List GConv.Ty) :
    GConv.renderList cur pname st ts ≠ none :=
  GConv.renderList_total cur pname st ts

/-- `createASTTypeExpr` has a case for every kind of `types.Type` a value can have (regenerated from the type switch of
    graph.go); the default branch refuses the type with an error instead of guessing a spelling -/
theorem C04_type_kinds_covered :
    (["Named", "Alias", "Pointer", "Slice", "Array", "Map", "Chan", "Signature", "Struct", "Interface", "Basic"].all (fun k => Gen.createASTTypeExprCases.contains k)) = true ∧
    Gen.createASTTypeExprDefault = "nil" := by decide

end C04

#print axioms C04.C04_types_roundtrip
#print axioms C04.C04_types_total
