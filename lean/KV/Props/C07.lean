import KV.Props.C06
/-! # C07 — cancellation never hangs the injector nor yields a silent partial result

Property statements only (semantics and emission as in `KV/Props/C06.lean`).  True for injectors with an
`error` result; **false without one** (known finding K7): the main thread then uses plain receives while
goroutines leave through their ctx-aware waits without closing their channels. -/
open KV
namespace C07

/-- **C07, injectors with an error result never hang.** With a context parameter (`hasAsyncNodes`) and an
    `error` result every wait is ctx-aware, so `AllWaitsCtxAware` holds by itself: while the injector has not
    returned, some thread can move — for every failure set, every cancellation point, every interleaving. -/
theorem C07_with_error {provs : List PSpec} {ret : Nat} {p : PlanOut} (h : plan provs ret = .ok p)
    (hasync : hasAsyncNodes p.g = true) (hre : p.b.isErr = true) {env : T1F.Env} {s : T1F.St}
    (hr : T1F.Reach (emittedF p) env s) (hmain : T1F.running s 0) : T1F.Progress (emittedF p) env s :=
  C06.C06_terminates h (allWaitsCtxAware_of_async hasync (Or.inl hre)) hr hmain

/-- **C07, a value means complete.** If the injector (with an `error` result) returns a value, every goroutine
    ran all its ops.  Holds for every plan; no side condition. -/
theorem C07_value_complete {p : PlanOut} (hre : p.b.isErr = true) {env : T1F.Env} {s : T1F.St}
    (hr : T1F.Reach (emittedF p) env s) (hres : s.result = some none) :
    ∀ t, 0 < t → t < (emittedF p).threads.length → ∀ j op, T1F.opAt (emittedF p) t j = some op → j < T1F.pc s t :=
  T1F.value_means_complete (plan_retShape p) hre hr hres


/-- the full statement ("if the caller's context is cancelled at any point the injector still returns") -/
def C07_statement : Prop :=
  ∀ (provs : List PSpec) (ret : Nat) (p : PlanOut), plan provs ret = .ok p →
    ∀ (env : T1F.Env) (s : T1F.St), T1F.Reach (emittedF p) env s → T1F.running s 0 → T1F.Progress (emittedF p) env s

/-- **Known finding K7 (negation witness).**  Declaration: A, B(A), C(A) Async, D(A, B, C) synchronous, no
    provider returns `error`.  The caller cancels; a goroutine leaves through its ctx-aware wait without
    closing its channel; the main thread sits in a plain receive forever: no step changes the state. -/
theorem C07_neg : ¬ C07_statement := by
  intro hst
  obtain ⟨p, hp, hem, _⟩ := KV.Witness.K7_is_emitted
  obtain ⟨hr, hrun, _, _, hnp⟩ := KV.Witness.K7_witness ⟨fun _ => false⟩
  rw [← hem] at hr hnp
  exact hnp (hst _ _ p hp _ _ hr hrun)

end C07
