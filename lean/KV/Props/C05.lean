import KV.PlanLemmas
import KV.C05
import KV.Sched
import KV.C05Overlap
/-! # C05 — input-free Async providers really run concurrently

Property statements only.  Two halves: (1) plan level — in the thread (pool) of an input-free Async
provider nothing precedes it except input-free *synchronous* providers, so no two of them share a thread
and none is sequenced after another Async provider or after any wait; (2) semantics — any vector of
per-thread positions whose prefixes contain no wait and no `eg.Wait` is reached simultaneously by some
schedule; and (3) their composition `C05_overlap`: for every accepted declaration there is an execution of the
emitted program in which all input-free Async providers are inside their provider function at once. -/
namespace C05
open KV

/-- **Placement.** For every accepted declaration, in every thread, an Async provider without inputs is
    preceded only by synchronous providers without inputs — whatever else the injector contains and in
    whichever order providers were declared. -/
theorem C05_placement {provs : List PSpec} {ret : Nat} {p : PlanOut} (h : plan provs ret = .ok p)
    {i : Nat} {pre post : List Nat} {a : Nat} (hpool : p.b.pools.getD i [] = pre ++ a :: post)
    (ha : isAsyncNode p.g a = true) (hz : p.g.rev.getD a [] = []) :
    ∀ m ∈ pre, isAsyncNode p.g m = false ∧ p.g.rev.getD m [] = [] := by
  obtain ⟨hg, hb, _⟩ := plan_ok h
  have hgw := (newGraph2_gwf hg).toGWF
  have hz' := bpass1_zfirst hgw
  rw [build2_pools hb] at hpool
  exact hz' i pre a post hpool ha hz

/-- **No two input-free Async providers share a thread.** -/
theorem C05_distinct_threads {provs : List PSpec} {ret : Nat} {p : PlanOut} (h : plan provs ret = .ok p)
    {i : Nat} {pre mid post : List Nat} {a a' : Nat}
    (hpool : p.b.pools.getD i [] = pre ++ a :: (mid ++ a' :: post))
    (ha : isAsyncNode p.g a = true) (_hz : p.g.rev.getD a [] = [])
    (ha' : isAsyncNode p.g a' = true) (hz' : p.g.rev.getD a' [] = []) : False := by
  have hsplit : p.b.pools.getD i [] = (pre ++ a :: mid) ++ a' :: post := by
    rw [hpool, List.append_assoc, List.cons_append]
  have := C05_placement h hsplit ha' hz' a (by simp)
  rw [ha] at this
  exact Bool.noConfusion this.1

/-- **Schedules.** Positions preceded only by free operations (no wait, no `eg.Wait`), with every targeted
    goroutine spawned within the main thread's target, are reached together by some execution. -/
theorem C05_targets_reachable {P : T1.Prog} (target : Nat → Nat) (h0 : 0 < P.threads.length)
    (hfree : ∀ t, t < P.threads.length → ∀ j, j < target t → ∃ op, T1.opAt P t j = some op ∧ T1.freeOp op)
    (hspawn : ∀ g, 0 < g → g < P.threads.length → 0 < target g →
      ∃ j, T1.opAt P 0 j = some (.spawn g) ∧ j < target 0) :
    ∃ s, T1.Reach P s ∧ ∀ t, t < P.threads.length → T1.pc s t = target t :=
  T1.all_targets_reachable target h0 hfree hspawn

/-- **Overlap (composition of the two halves).** For the program emitted for any accepted declaration there is
    an execution reaching a state in which *all* emitted Async providers without inputs are inside their
    provider function at the same time (`KV.insideCall`: the thread's last executed op is the node's `enter`,
    its `exit` has not happened).  Proved in `KV/C05Overlap.lean`. -/
theorem C05_overlap {provs : List PSpec} {ret : Nat} {p : PlanOut} (h : plan provs ret = .ok p) :
    ∃ s, T1.Reach (emitted p) s ∧ ∀ a, ZeroAsync p a → insideCall (emitted p) s a :=
  KV.C05_overlap h

end C05
