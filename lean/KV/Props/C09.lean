import KV.PlanLemmas
import KV.Acyclic
import KV.Generated.Orders
import KV.Refuse
import KV.Accept
import KV.Generated.SetLoop
/-! # C09 — unsatisfiable graphs are refused, satisfiable ones accepted, never mis-generated

Property statements only. -/
namespace C09
open KV

/-- **A reachable cycle is never accepted.** Whenever the planner accepts, every edge of the planned graph
    whose consumer is emitted goes strictly forward in the emission order — so no dependency cycle among
    the needed providers can survive, whatever the cycle detector does. -/
theorem C09_no_cycle_accepted {provs : List PSpec} {ret : Nat} {p : PlanOut} (h : plan provs ret = .ok p)
    {n m : Nat} {e : Edge} (he : e ∈ p.g.edges.getD n []) (hm : e.dst = m) (hmo : m ∈ topoOrder p.g) :
    n ∈ topoOrder p.g ∧ (topoOrder p.g).idxOf n < (topoOrder p.g).idxOf m := by
  obtain ⟨hg, _, _⟩ := plan_ok h
  have hgw := newGraph2_gwf hg
  obtain ⟨hs, hnd, _⟩ := topoOrder_sound hgw.toGWF
  exact edges_forward hgw hs hnd he hm hmo

/-- **Refusal leaves the output file alone.** In `processFile` (regenerated call order) every injector of
    the file is planned — and any planning error returned — before the only file-system call, `os.Create`;
    `ProcessFiles` and `main` propagate the error to a non-zero exit. -/
theorem C09_no_write_on_refusal :
    Gen.processFileCalls.map (·.name) = ["p.parser.ParseFile", "CreateInjector", "os.Create", "Generate"] ∧
    Gen.processFileCalls.all (·.errReturns) = true ∧
    Gen.processFilesCalls = [⟨"p.processFile", true, true⟩] ∧
    Gen.mainCalls.map (·.name) = ["config.Run", "os.Exit"] := by decide

/-- **Duplicate supplier (functions, interface bindings).** If two different function providers each list type
    key `t` in a result group (a bound interface is an extra key of its group), the planner refuses the
    declaration, whatever the requested type, with a `dup` diagnostic. -/
theorem C09_refuse_dup {provs : List PSpec} {i j : Nat} {pi pj : PSpec} {t : Nat} (ret : Nat)
    (hij : i ≠ j) (hi : provs[i]? = some pi) (hj : provs[j]? = some pj)
    (hki : pi.kind ≠ 1) (hkj : pj.kind ≠ 1) (hti : Lists pi t) (htj : Lists pj t) :
    ∃ t', newGraph2 provs ret = .error (.dup t') :=
  dup_refused ret hij hi hj hki hkj hti htj

/-- **Duplicate supplier through expanded struct fields** (a field type also supplied by a function provider, two
    fields of one struct with the same type, or two struct expansions with a common field type): refused. -/
theorem C09_refuse_field_dup {provs : List PSpec} (ret : Nat) (hc : FieldClash provs) :
    ∃ e, newGraph2 provs ret = .error e ∧ DupOrOrphan e :=
  field_dup_refused ret hc

/-- **Orphan struct expansion.** A `Struct[T]()` whose struct type nobody supplies — no function provider lists it
    and it is not a field type of any expanded struct, *wherever that struct is declared* (struct expansion now
    iterates to a fixpoint, so the declaration order plays no role) — is refused: with the `orphan` diagnostic of
    some `Struct` provider that never gets a source (this one, or another one: the first still pending when a round
    makes no progress), unless an earlier step already failed with a `dup`. -/
theorem C09_refuse_orphan {provs : List PSpec} {sp : PSpec} (ret : Nat)
    (hsp : sp ∈ provs) (hk : sp.kind = 1)
    (hnofun : ∀ q ∈ provs, q.kind ≠ 1 → ¬ Lists q sp.structTy)
    (hnofield : sp.structTy ∉ allFieldTys (structsOf provs)) :
    ∃ e, newGraph2 provs ret = .error e ∧
      ((∃ sp' ∈ provs, sp'.kind = 1 ∧ ¬ Sourced provs sp'.structTy ∧ e = .orphan sp'.structTy) ∨ (∃ t, e = .dup t)) :=
  orphan_refused ret hsp hk hnofun hnofield

/-- the same for every `Struct[T]()` that never gets a source (`KV.Sourced`: listed by a function provider, or —
    recursively — a field type of a `Struct` provider whose own struct type is sourced): this also covers struct
    expansions that are fields only of each other, or of a struct expansion that is itself an orphan. -/
theorem C09_refuse_orphan_unsourced {provs : List PSpec} {sp : PSpec} (ret : Nat)
    (hsp : sp ∈ provs) (hk : sp.kind = 1) (hns : ¬ Sourced provs sp.structTy) :
    ∃ e, newGraph2 provs ret = .error e ∧
      ((∃ sp' ∈ provs, sp'.kind = 1 ∧ ¬ Sourced provs sp'.structTy ∧ e = .orphan sp'.structTy) ∨ (∃ t, e = .dup t)) :=
  orphan_refused_unsourced ret hsp hk hns

/-- conversely, a declaration whose struct expansions are all sourced is never refused as `orphan` by the first two
    passes: with a field clash the diagnostic is a `dup` -/
theorem C09_refuse_field_dup_exact {provs : List PSpec} (ret : Nat) (hc : FieldClash provs) (hs : StructsSourced provs) :
    ∃ t, newGraph2 provs ret = .error (.dup t) :=
  field_dup_refused_dup ret hc hs

/-- **Reachable cycle (of any length, including a provider requiring its own output, also through expanded
    struct fields).** If a provider reachable from the supplier of the requested type lies on a cycle of the
    "needs" relation, the planner does not accept the declaration. -/
theorem C09_refuse_cycle {provs0 : List PSpec} {ret : Nat} {provs : List PSpec} {sup : SupMap} {rp ri q : Nat}
    (hexp : expand provs0 = .ok (provs, sup)) (hret : sup.lookup ret = some (rp, ri))
    (hreach : KV.Reach (Needs provs sup) rp q) (hcyc : Relation.TransGen (Needs provs sup) q q) :
    ∃ e, plan provs0 ret = .error e :=
  cycle_refused hexp hret hreach hcyc

/-- the same at the level of the declared function providers only -/
theorem C09_refuse_cycle_decl {provs0 : List PSpec} {ret rp q : Nat} {prp : PSpec}
    (hrp : provs0[rp]? = some prp) (hk : prp.kind ≠ 1) (hl : Lists prp ret)
    (hreach : KV.Reach (NeedsFn provs0) rp q) (hcyc : Relation.TransGen (NeedsFn provs0) q q) :
    ∃ e, plan provs0 ret = .error e :=
  cycle_refused_decl hrp hk hl hreach hcyc

/-- **Never mis-generated.** The graph of an accepted declaration has no cycle at all. -/
theorem C09_accepted_acyclic {provs : List PSpec} {ret : Nat} {p : PlanOut} (h : plan provs ret = .ok p) (n : Nat) :
    ¬ Path p.g n n :=
  accepted_acyclic h n

/-- **Acceptance.**  A declaration that is unambiguous and whose struct expansions all have a source, in whatever
    order they are declared (`supplierMap` succeeds; see `KV.supplierMap_ok_iff`), whose requested type has a supplier, and whose needed providers contain no cycle is
    accepted by the planner.  (The hypothesis that the requested type has a supplier is the recorded finding
    `identity-injector-refused`.) -/
theorem C09_accept {provs0 : List PSpec} {ret : Nat} {provs : List PSpec} {sup : SupMap} {rp ri : Nat}
    (hexp : supplierMap provs0 = .ok (provs, sup)) (hret : sup.lookup ret = some (rp, ri))
    (hacyc : ∀ q, KV.Reach (Needs provs sup) rp q → ¬ Relation.TransGen (Needs provs sup) q q) :
    ∃ p, plan provs0 ret = .ok p :=
  accepted_of_acceptable hexp hret hacyc

/-- **Exact characterisation**: with an unambiguous, fully sourced declaration and a supplied requested type, the
    planner accepts iff no needed provider lies on a dependency cycle. -/
theorem C09_accept_iff {provs0 : List PSpec} {ret : Nat} {provs : List PSpec} {sup : SupMap} {rp ri : Nat}
    (hexp : supplierMap provs0 = .ok (provs, sup)) (hret : sup.lookup ret = some (rp, ri)) :
    (∃ p, plan provs0 ret = .ok p) ↔
      (∀ q, KV.Reach (Needs provs sup) rp q → ¬ Relation.TransGen (Needs provs sup) q q) :=
  accepted_iff_acyclic hexp hret

/-- the known deviation, as a theorem about the model: a requested type nobody supplies is refused -/
theorem C09_identity_refused_witness : (match plan [] 5 with | .error .noInitial => true | _ => false) = true := by decide

/-- the loop that resolves a `kessoku.Set` argument to its `kessoku.Set(...)` call makes progress in every iteration:
    each case of its type switch either ends the loop (`callExpr` assigned), replaces the expression it looks at, or
    leaves the function, and there is a default case — no form of expression can keep the generator spinning
    (regenerated from parser.go; before fix 1ade2f4 there was no default and `(ConfigSet)` / `lib.Set` hung the run) -/
theorem C09_set_resolution_progresses :
    Gen.setLoopHasDefault = true ∧
    (Gen.setLoopCases.all (fun c => c.2 == "assigns callExpr" || c.2 == "assigns currentArg" || c.2 == "returns")) = true := by decide

end C09
