import KV.PlanLemmas
import KV.Acyclic
import KV.Generated.Orders
/-! # C09 — unsatisfiable graphs are refused, satisfiable ones accepted, never mis-generated

Property statements only. -/
namespace C09
open KV

/-- **A reachable cycle is never accepted.** Whenever the planner accepts, every edge of the planned graph
    whose consumer is emitted goes strictly forward in the emission order — so no dependency cycle among
    the needed providers can survive, whatever the cycle detector does. -/
theorem C09_no_cycle_accepted {provs : List PSpec} {ret : Nat} {p : PlanOut} (h : plan provs ret = .ok p)
    {n m : Nat} {e : Edge} (he : e ∈ p.g.edges.getD n []) (hm : e.dst = m) (hmo : m ∈ topoOrder p.g) :
    n ∈ topoOrder p.g ∧ (topoOrder p.g).idxOf n < (topoOrder p.g).idxOf m := by
  obtain ⟨hg, _, _⟩ := plan_ok h
  have hgw := newGraph2_gwf hg
  obtain ⟨hs, hnd, _⟩ := topoOrder_sound hgw.toGWF
  exact edges_forward hgw hs hnd he hm hmo

/-- **Refusal leaves the output file alone.** In `processFile` (regenerated call order) every injector of
    the file is planned — and any planning error returned — before the only file-system call, `os.Create`;
    `ProcessFiles` and `main` propagate the error to a non-zero exit. -/
theorem C09_no_write_on_refusal :
    Gen.processFileCalls.map (·.name) = ["p.parser.ParseFile", "CreateInjector", "os.Create", "Generate"] ∧
    Gen.processFileCalls.all (·.errReturns) = true ∧
    Gen.processFilesCalls = [⟨"p.processFile", true, true⟩] ∧
    Gen.mainCalls.map (·.name) = ["config.Run", "os.Exit"] := by decide

end C09
