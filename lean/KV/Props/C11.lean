import KV.Generated.Sites
import KV.Generated.Orders
import KV.Generated.OwnOutput
/-! # C11 — generation is deterministic and idempotent

Property statements only.  The sources of run-to-run variation a Go program has are goroutine scheduling,
map iteration order and reads of the environment.  `factgen` (go/types over `internal/kessoku`,
`internal/migrate`, `internal/pkg`) regenerates on every run the list of `go` statements, of calls into
`time` / `rand` / the process environment, and of every `range` over a map-typed expression.  The theorems
below say: there is no goroutine and no environment read at all, and every range over a map is one of the
sites whose effect is independent of the iteration order — for the reason recorded next to it. -/
namespace C11
open Gen

/-- why a range-over-map site cannot influence the output -/
inductive Why where
  | sortedAfter      -- the collected slice is sorted by a unique key before use
  | marksFlag        -- the body only sets `IsUsed = true` on the visited entries (idempotent, commutative)
  | perKeyFill       -- the body writes a slot determined by the key alone; slots are read in a fixed order later
  | buildsMap        -- the body only inserts the entries into another map
deriving DecidableEq, Repr

/-- the sites that have been examined, with the reason each is order-independent -/
def known : List (String × String × String × Why) := [
  ("internal/kessoku/generator.go", "Generate", "usedImports", .sortedAfter),
  ("internal/kessoku/generator.go", "InjectorProviderCallStmt.Stmt", "stmt.Provider.ReferencedImports", .marksFlag),
  ("internal/kessoku/generator.go", "generateInjectorDecl", "arg.Param.ReferencedImports", .marksFlag),
  ("internal/kessoku/generator.go", "generateInjectorDecl", "injector.Return.Param.ReferencedImports", .marksFlag),
  ("internal/kessoku/generator.go", "generateVariableSpecs", "param.ReferencedImports", .marksFlag),
  ("internal/kessoku/graph.go", "Graph.findMaximumAntichainSize", "g.edges", .perKeyFill),
  ("internal/kessoku/provider.go", "GetUsedImports", "imports", .buildsMap),
  ("internal/migrate/typeconv.go", "TypeConverter.Imports", "tc.imports", .sortedAfter)
]

def siteKnown (s : RangeSite) : Bool := known.any (fun k => k.1 == s.file && k.2.1 == s.fn && k.2.2.1 == s.expr)

/-- the generator starts no goroutine: GOMAXPROCS and scheduling cannot matter -/
theorem C11_no_goroutines : goStatements = [] := by decide

/-- the generator reads no clock, random source or environment variable -/
theorem C11_no_environment : nondetCalls = [] := by decide

/-- every `range` over a map in the generator and in migrate is one of the examined, order-independent sites -/
theorem C11_map_ranges_known : mapRanges.all siteKnown = true := by decide

/-- the site whose result *is* an ordered list sorts it afterwards in the same function -/
theorem C11_sorted_site :
    (mapRanges.filter (fun s => s.fn == "Generate")).all (·.sortsAfter) = true := by decide

/-- order-independence of the two generic shapes the sites have: setting a flag on every visited key, and
    collecting then sorting.  `entries` and `entries'` are the same map iterated in two different orders. -/
theorem C11_marking_order_independent {α : Type} [DecidableEq α] (entries entries' : List α) (h : entries.Perm entries')
    (used : α → Bool) :
    (fun k => used k || entries.contains k) = (fun k => used k || entries'.contains k) := by
  funext k
  have : entries.contains k = entries'.contains k := by
    by_cases hk : k ∈ entries
    · have hk' : k ∈ entries' := h.mem_iff.mp hk
      simp [hk, hk']
    · have hk' : k ∉ entries' := fun c => hk (h.mem_iff.mpr c)
      simp [hk, hk']
  rw [this]

/-! ## Left-over output of an earlier run

`Parser.ParseFile` seeds the name pool from the files of the package in loops over `pkg.Syntax` (package-level
declarations, imports).  `factgen` regenerates, for every such loop, whether its body registers names in the pool and
whether its first statement skips files carrying the generator's own header. -/

/-- a source file as the seeding loops see it -/
structure SrcFile where
  generated : Bool
  items : List String
deriving Repr

/-- what one loop feeds into the pool, in order -/
def loopSeed (l : SeedLoop) (files : List SrcFile) : List String :=
  if l.registersNames then (files.filter (fun f => !(l.skipsGenerated && f.generated))).flatMap (·.items) else []

def seedNames (loops : List SeedLoop) (files : List SrcFile) : List String := loops.flatMap (fun l => loopSeed l files)

/-- every loop of `ParseFile` that registers names skips the generator's own output (and such loops exist) -/
theorem C11_seed_loops_guarded :
    parseFileSeedLoops.all (fun l => !l.registersNames || l.skipsGenerated) = true ∧
    parseFileSeedLoops.any (·.registersNames) = true := by decide

theorem loopSeed_ignores_generated (l : SeedLoop) (hl : (!l.registersNames || l.skipsGenerated) = true)
    (files extra : List SrcFile) (hg : extra.all (·.generated) = true) :
    loopSeed l (files ++ extra) = loopSeed l files := by
  unfold loopSeed
  by_cases hr : l.registersNames = true
  · simp only [hr, if_true]
    have hs : l.skipsGenerated = true := by simpa [hr] using hl
    rw [List.filter_append]
    have : extra.filter (fun f => !(l.skipsGenerated && f.generated)) = [] := by
      rw [List.filter_eq_nil_iff]
      intro f hf
      have := List.all_eq_true.mp hg f hf
      simp [hs, this]
    rw [this, List.append_nil]
  · simp [hr]

/-- **Idempotence of the seeding.**  Whatever files carrying the generator's header are present next to the user's
    files — the previous output, a truncated or stale one, any number of them — the sequence of names fed into the pool
    is the one a clean directory gives; hence every name chosen afterwards is the same. -/
theorem C11_leftover_ignored (files extra : List SrcFile) (hg : extra.all (·.generated) = true) :
    seedNames parseFileSeedLoops (files ++ extra) = seedNames parseFileSeedLoops files := by
  unfold seedNames
  have hall := C11_seed_loops_guarded.1
  have : ∀ l ∈ parseFileSeedLoops, loopSeed l (files ++ extra) = loopSeed l files := by
    intro l hl
    exact loopSeed_ignores_generated l (List.all_eq_true.mp hall l hl) files extra hg
  revert this
  generalize parseFileSeedLoops = ls
  intro this
  induction ls with
  | nil => rfl
  | cons l ls ih =>
    simp only [List.flatMap_cons]
    rw [this l (List.mem_cons_self), ih (fun l' hl' => this l' (List.mem_cons_of_mem _ hl'))]

/-- non-vacuity: an unguarded registering loop *would* see the left-over file -/
example : seedNames [⟨true, false⟩] ([⟨false, ["App"]⟩] ++ [⟨true, ["app0"]⟩]) ≠ seedNames [⟨true, false⟩] [⟨false, ["App"]⟩] := by
  decide

/-- the file a run is about to overwrite takes no part in type checking the package: `initializePackages` installs a
    `ParseFile` hook that, for the path `outputFileName(filename)`, drops the declarations and imports of whatever a
    previous run left there (regenerated from parser.go; before fix 59c6e51 there was no such hook and a stale injector
    could win over a user declaration of the same name) -/
theorem C11_own_output_not_type_checked :
    Gen.ownOutputHook = true ∧ (["Decls", "Imports"].all (fun f => Gen.ownOutputBlankedFields.contains f)) = true := by decide

end C11
