import KV.Generated.Agents
import KV.Generated.Install
/-! # C16 — every agent installs the full skill tree exactly where documented

Property statements only.  The agent registry, the kong sub-commands, `ResolvePath`'s branch order and the
README's path table are regenerated from the source by `factgen` (`KV/Generated/Agents.lean`); every
theorem below is about those regenerated terms.  The agent table is finite, so evaluation by the kernel
over the whole table is a proof of the "for every supported agent" clause; custom path, `$HOME` and the
working directory are universally quantified. -/
namespace C16
open Gen

/-- documented (project, user) location of the agent with sub-command `name`, as spelled in the README
    (`.claude/skills/`, `~/.claude/skills/`) -/
def documented (name : String) : Option (String × String) :=
  match (readmeAgents.find? (fun da => da.2 == name)) with
  | none => none
  | some da => (readmePaths.find? (fun r => r.1 == da.1)).map (fun r => (r.2.1, r.2.2))

/-- model of `ResolvePath` + `resolveUserPath` / `resolveProjectPath`: priority custom > --user > project.
    `abs` stands for `filepath.Abs` (trusted); `filepath.Join(a, b)` of clean relative `b` is `a/b`. -/
def installBase (abs : String → String) (r : AgentRow) (custom : String) (user : Bool) (home cwd : String) : String :=
  if custom ≠ "" then abs custom else if user then home ++ "/" ++ r.user else cwd ++ "/" ++ r.proj

/-- `~/x` with the home directory substituted for `~` -/
def expandTilde (home : String) (s : String) : String :=
  match s.toList with
  | '~' :: rest => home ++ String.ofList rest
  | _ => s

/-- what the documentation promises, written directly from the README table -/
def documentedBase (abs : String → String) (d : String × String) (custom : String) (user : Bool) (home cwd : String) : String :=
  if custom ≠ "" then abs custom ++ "/" else if user then expandTilde home d.2 else cwd ++ "/" ++ d.1

def rowDocumented (r : AgentRow) : Bool :=
  match documented r.name with
  | some d => d.1 == r.proj ++ "/" && d.2 == "~/" ++ r.user ++ "/"
  | none => false

/-- the regenerated branch order of `ResolvePath` is the one `installBase` models -/
theorem C16_resolve_order :
    resolveBranches = ["customPath != \"\" => filepath.Abs(customPath)", "userFlag => resolveUserPath(agent)",
                       "else => resolveProjectPath(agent)"] ∧
    resolveUserPath = ["home := os.UserHomeDir()", "err != nil => \"\"", "else => filepath.Join(home,agent.UserSubPath())"] ∧
    resolveProjectPath = ["cwd := os.Getwd()", "err != nil => \"\"", "else => filepath.Join(cwd,agent.ProjectSubPath())"] ∧
    runInstallArgs = ["agent", "c.Path", "c.User"] := by decide

/-- every registered agent has a README row and its sub-paths are the documented ones -/
theorem C16_table : agents.all rowDocumented = true := by decide

theorem expandTilde_doc (home u : String) : expandTilde home ("~/" ++ u) = home ++ "/" ++ u := by
  unfold expandTilde
  have : ("~/" ++ u).toList = '~' :: '/' :: u.toList := by simp [String.toList_append]
  rw [this]
  simp [String.append_assoc]

/-- **Install root.** For every registered agent and every combination of `--path`, `--user`, `$HOME` and
    working directory, the base directory the installer resolves is the documented one. -/
theorem C16_root (abs : String → String) (r : AgentRow) (hr : r ∈ agents) (custom : String) (user : Bool) (home cwd : String) :
    ∃ d, documented r.name = some d ∧
      installBase abs r custom user home cwd ++ "/" = documentedBase abs d custom user home cwd := by
  have h := List.all_eq_true.mp C16_table r hr
  unfold rowDocumented at h
  cases hd : documented r.name with
  | none => rw [hd] at h; simp at h
  | some d =>
    rw [hd] at h
    simp only [Bool.and_eq_true, beq_iff_eq] at h
    refine ⟨d, rfl, ?_⟩
    unfold installBase documentedBase
    by_cases hc : custom ≠ ""
    · simp [hc]
    · simp only [hc, if_false]
      cases user
      · simp [h.1, String.append_assoc]
      · simp [h.2, String.append_assoc, expandTilde_doc]

/-- **Sub-commands.** The CLI offers exactly one sub-command per registered agent, named like the agent, and
    these are exactly the agents the README documents. -/
theorem C16_cli :
    cliSubcommands.map (·.2) = (cliSubcommands.map (·.1)).filterMap (fun n => (agents.find? (fun r => r.name == n)).map (·.typ)) ∧
    (cliSubcommands.map (·.1)).Nodup ∧ (agents.map (·.name)).Nodup ∧
    (agents.map (·.name)).all (fun n => (cliSubcommands.map (·.1)).contains n) = true ∧
    (cliSubcommands.map (·.1)).all (fun n => (agents.map (·.name)).contains n) = true ∧
    (readmeAgents.map (·.2)).all (fun n => (agents.map (·.name)).contains n) = true ∧
    (agents.map (·.name)).all (fun n => (readmeAgents.map (·.2)).contains n) = true ∧
    (readmeAgents.map (·.2)).Nodup := by decide

/-- **Skill tree.** Every agent installs the same embedded tree `skills/kessoku-di` under the directory name
    `kessoku-di`, with the documented file mode. -/
theorem C16_tree :
    agents.all (fun r => r.dir == "kessoku-di" && r.src == "skills/kessoku-di" && r.fs == "EXPR:defaultSkillsFS") = true ∧
    fileMode = 0o644 := by decide

example : agents.length = 9 := by decide
example : documented "amp" = some (".agents/skills/", "~/.config/agents/skills/") := by decide

/-- **The documented locations depend on `$HOME` and the working directory only.**  The regenerated list of reads of the
    process environment in `internal/llmsetup` is exactly the home directory (for `--user`) and the working directory
    (for project installs and relative `--path`): no `XDG_*`, `APPDATA` or tool-specific variable can redirect an
    installation. -/
theorem C16_environment_reads :
    llmsetupEnvReads = ["path.go:resolveProjectPath:os.Getwd()", "path.go:resolveUserPath:os.UserHomeDir()"] := by decide

end C16
