import KV.InstallTree
import KV.Props.C15
/-! # C15 / C16 at tree level — the per-file theorems lifted over `Install`'s walk

Property statements only: the whole embedded tree (any list of files with pairwise distinct destinations), a
crash or a single fault inside the installation of file `i`, any previous file-system state.  General lemmas:
`KV/InstallTree.lean`.  (`C16_tree_*` are the content + frame clauses of C16; they live here because they are
instances of the same lemmas.) -/
namespace C15
open Inst

/-- **C15, crash, whole tree** (regenerated step list) -/
theorem C15_tree_crash (files : Tree) (hnd : (paths files).Nodup) (fs : FS) (i k j : Nat) :
    (∀ p c, (p, c) ∈ files →
      (crashTree Gen.installSteps Gen.installCleanup k j files i fs).file p = fs.file p ∨
      (crashTree Gen.installSteps Gen.installCleanup k j files i fs).file p = some (c, Gen.fileMode)) ∧
    (∀ n p c, files[n]? = some (p, c) →
      (n < i → (crashTree Gen.installSteps Gen.installCleanup k j files i fs).file p = some (c, Gen.fileMode)) ∧
      (i < n → (crashTree Gen.installSteps Gen.installCleanup k j files i fs).file p = fs.file p)) ∧
    (∀ q, q ∉ paths files → (crashTree Gen.installSteps Gen.installCleanup k j files i fs).file q = fs.file q) ∧
    (∃ l, (crashTree Gen.installSteps Gen.installCleanup k j files i fs).temps = l ++ fs.temps ∧ l.length ≤ 1) :=
  tree_crash_atomic Gen.installSteps Gen.installCleanup Gen.fileMode C15_shape.2.1 C15_shape.2.2.1 files hnd fs i k j

/-- **C15, a later complete run finishes the installation, whole tree** (regenerated step list) -/
theorem C15_tree_rerun (files : Tree) (hnd : (paths files).Nodup) (fs : FS) (i k j : Nat) :
    (installTree Gen.installSteps Gen.installCleanup files
      (crashTree Gen.installSteps Gen.installCleanup k j files i fs)).2 = false ∧
    (∀ p c, (p, c) ∈ files →
      (installTree Gen.installSteps Gen.installCleanup files
        (crashTree Gen.installSteps Gen.installCleanup k j files i fs)).1.file p = some (c, Gen.fileMode)) ∧
    (∀ q, q ∉ paths files →
      (installTree Gen.installSteps Gen.installCleanup files
        (crashTree Gen.installSteps Gen.installCleanup k j files i fs)).1.file q = fs.file q) ∧
    (installTree Gen.installSteps Gen.installCleanup files
      (crashTree Gen.installSteps Gen.installCleanup k j files i fs)).1.temps =
      (crashTree Gen.installSteps Gen.installCleanup k j files i fs).temps :=
  tree_rerun_completes Gen.installSteps Gen.installCleanup Gen.fileMode C15_shape.2.2.1 files hnd fs i k j

/-- **C15, single injected failure, whole tree** (regenerated step list) -/
theorem C15_tree_fault (files : Tree) (hnd : (paths files).Nodup) (fs : FS) (i k j : Nat)
    (hi : i < files.length) (hk : k < Gen.installSteps.length) :
    (faultTree Gen.installSteps Gen.installCleanup k j files i fs).2 = true ∧
    (faultTree Gen.installSteps Gen.installCleanup k j files i fs).1.temps = fs.temps ∧
    (∀ n p c, files[n]? = some (p, c) →
      (n < i → (faultTree Gen.installSteps Gen.installCleanup k j files i fs).1.file p = some (c, Gen.fileMode)) ∧
      (n = i → (faultTree Gen.installSteps Gen.installCleanup k j files i fs).1.file p = fs.file p) ∧
      (i < n → (faultTree Gen.installSteps Gen.installCleanup k j files i fs).1.file p = fs.file p)) ∧
    (∀ q, q ∉ paths files → (faultTree Gen.installSteps Gen.installCleanup k j files i fs).1.file q = fs.file q) :=
  tree_fault_clean Gen.installSteps Gen.installCleanup Gen.fileMode C15_shape.2.2.2 C15_shape.2.2.1 files hnd fs i k j hi hk

/-- **C16, content + frame, whole tree** (regenerated step list): a complete `Install` makes every file of
    the tree exactly `(bytes, fileMode)`, touches nothing else and leaves no temp file -/
theorem C16_tree_install_exact (files : Tree) (hnd : (paths files).Nodup) (fs : FS) :
    (installTree Gen.installSteps Gen.installCleanup files fs).2 = false ∧
    (∀ p c, (p, c) ∈ files →
      (installTree Gen.installSteps Gen.installCleanup files fs).1.file p = some (c, Gen.fileMode)) ∧
    (∀ q, q ∉ paths files → (installTree Gen.installSteps Gen.installCleanup files fs).1.file q = fs.file q) ∧
    (installTree Gen.installSteps Gen.installCleanup files fs).1.temps = fs.temps :=
  tree_install_exact Gen.installSteps Gen.installCleanup Gen.fileMode C15_shape.2.2.1 files hnd fs

/-- the same with the documented mode spelled out -/
theorem C16_tree_install_0644 (files : Tree) (hnd : (paths files).Nodup) (fs : FS) (p : Path) (c : List Nat)
    (hm : (p, c) ∈ files) :
    (installTree Gen.installSteps Gen.installCleanup files fs).1.file p = some (c, 0o644) := by
  have := (C16_tree_install_exact files hnd fs).2.1 p c hm
  rw [C15_mode] at this
  exact this

/-! Non-vacuity: a two-file tree over a file system that already holds an older version of one file and an
    unrelated file; the hypotheses hold and the concrete runs give the states the theorems predict. -/

def exTree : Tree := [(1, [1, 2, 3]), (2, [7])]
def exFS : FS := { file := fun q => if q = 2 then some ([9], 0o600) else if q = 5 then some ([4], 0o755) else none,
                   temps := [] }

example : (paths exTree).Nodup := by decide
example : 1 < exTree.length ∧ 2 < Gen.installSteps.length := by decide
-- complete run
example : (installTree Gen.installSteps Gen.installCleanup exTree exFS).1.file 1 = some ([1, 2, 3], 0o644) := by decide
example : (installTree Gen.installSteps Gen.installCleanup exTree exFS).1.file 2 = some ([7], 0o644) := by decide
example : (installTree Gen.installSteps Gen.installCleanup exTree exFS).1.file 5 = some ([4], 0o755) := by decide
example : (installTree Gen.installSteps Gen.installCleanup exTree exFS).1.temps = [] := by decide
-- crash in file 1 (the second one), 1 byte into the write to the temp file: file 0 new, file 1 previous, one temp left
example : (crashTree Gen.installSteps Gen.installCleanup 2 1 exTree 1 exFS).file 1 = some ([1, 2, 3], 0o644) := by decide
example : (crashTree Gen.installSteps Gen.installCleanup 2 1 exTree 1 exFS).file 2 = some ([9], 0o600) := by decide
example : (crashTree Gen.installSteps Gen.installCleanup 2 1 exTree 1 exFS).temps = [(2, ([7], 0o600))] := by decide
-- crash in file 0 right after the rename: file 0 new, file 1 previous
example : (crashTree Gen.installSteps Gen.installCleanup 7 0 exTree 0 exFS).file 1 = some ([1, 2, 3], 0o644) := by decide
example : (crashTree Gen.installSteps Gen.installCleanup 7 0 exTree 0 exFS).file 2 = some ([9], 0o600) := by decide
-- injected failure of the chmod (step 5) of file 1: reported, file 0 new, file 1 previous, no temp left
example : (faultTree Gen.installSteps Gen.installCleanup 5 0 exTree 1 exFS).2 = true := by decide
example : (faultTree Gen.installSteps Gen.installCleanup 5 0 exTree 1 exFS).1.file 1 = some ([1, 2, 3], 0o644) := by decide
example : (faultTree Gen.installSteps Gen.installCleanup 5 0 exTree 1 exFS).1.file 2 = some ([9], 0o600) := by decide
example : (faultTree Gen.installSteps Gen.installCleanup 5 0 exTree 1 exFS).1.temps = [] := by decide

end C15
