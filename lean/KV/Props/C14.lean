import KV.ImportsProofs
import KV.TypeConvProofs
import KV.ReservedProofs
import KV.WriteLast
import KV.Generated.Orders
import KV.Generated.TypeCases
/-! # C14 — migration output: import aliases, sets once, deterministic, no write on failure

Property statements only; the proofs are in `KV/ImportsProofs.lean` and `KV/WriteLast.lean`.
`Imp.addImport` is the model of `TypeConverter.AddImport` (`internal/migrate/typeconv.go`), `Imp.runImports` a
whole history of such calls starting from a fresh converter, `Imp.importSpecs` / `Imp.sortedSpecs` the model of
`Imports()` followed by the writer's sort, `Imp.mergeSets` the duplicate-set check of `mergeResults`, and the
call lists of `MigrateFiles`, `Writer.Write` and `main` are regenerated from the sources
(`KV/Generated/Orders.lean`). -/
namespace C14
open Imp

/-- **The alias search terminates.**  The unbounded `for` loop of `AddImport` always finds an unused alias within
    `len(used) + 1` steps, so `AddImport` and every history of `AddImport` calls produce a result (the model's
    fuel never runs out). -/
theorem C14_alias_total :
    (∀ used base c, findAlias used base (used.length + 1) c ≠ none) ∧
    (∀ tc path desired, addImport tc path desired ≠ none) ∧
    (∀ tc ops, runImports tc ops ≠ none) :=
  ⟨findAlias_total, addImport_total, runImports_total⟩

/-- **Alias consistency over every history.**  Starting from a fresh converter, any two calls return the same
    qualifier exactly when they ask for the same package path; each call's result is the name the final import
    table holds for its path. -/
theorem C14_alias_consistent {tc' : TC} {ops : List (Nat × String)} {ns : List String}
    (hr : runImports TC.empty ops = some (tc', ns)) :
    ns.length = ops.length ∧
    (∀ i (hi : i < ops.length) (hi' : i < ns.length), tc'.imports.lookup (ops[i]).1 = some ns[i]) ∧
    (∀ i j (hi : i < ops.length) (hj : j < ops.length) (hi' : i < ns.length) (hj' : j < ns.length),
      (ops[i]).1 = (ops[j]).1 ↔ ns[i] = ns[j]) :=
  ⟨(runImports_names inv_empty hr).1, (runImports_names inv_empty hr).2, alias_consistent hr⟩

/-- **No two packages share a local name.**  In every state reachable from a fresh converter the two tables are
    mutually inverse, hence two paths with the same local name are the same path. -/
theorem C14_alias_injective {tc' : TC} {ops : List (Nat × String)} {ns : List String}
    (hr : runImports TC.empty ops = some (tc', ns)) :
    Inv tc' ∧ ∀ p q n, tc'.imports.lookup p = some n → tc'.imports.lookup q = some n → p = q :=
  ⟨runImports_inv inv_empty hr, fun _ _ _ hp hq => alias_injective (runImports_inv inv_empty hr) hp hq⟩

/-- **Each package is imported once.**  In every reachable state the paths of the import table, and therefore
    of the emitted import specs, are pairwise distinct; an entry, once made, is never changed. -/
theorem C14_import_once {tc' : TC} {ops : List (Nat × String)} {ns : List String} (lastElem : Nat → String)
    (hr : runImports TC.empty ops = some (tc', ns)) :
    KeysNodup tc' ∧ ((importSpecs lastElem tc').map (·.1)).Nodup ∧
    (∀ tc1 tc2 ops2 ns2 q m, runImports tc1 ops2 = some (tc2, ns2) → tc1.imports.lookup q = some m →
      tc2.imports.lookup q = some m) :=
  ⟨imports_keys_nodup hr, importSpecs_nodup lastElem (imports_keys_nodup hr),
   fun _ _ _ _ _ _ h2 hq => runImports_keeps h2 hq⟩

/-- **The import block does not depend on map iteration order.**  Two enumerations of the same specs (paths
    distinct) give the same sorted list; the sorted list is a permutation of the input ordered by path. -/
theorem C14_imports_order_independent {l₁ l₂ : List (Nat × Option String)} (hp : l₁.Perm l₂)
    (hnd : (l₁.map (·.1)).Nodup) :
    sortedSpecs l₁ = sortedSpecs l₂ ∧ (sortedSpecs l₁).Perm l₁ ∧
    (sortedSpecs l₁).Pairwise (fun a b => a.1 ≤ b.1) :=
  ⟨specs_order_independent hp hnd, sortedSpecs_perm l₁, sortedSpecs_sorted l₁⟩

/-- **Every set is declared exactly once.**  When the merge succeeds its output is the concatenation of the
    files' set names in the original order, without repetition; and pairwise distinct names always succeed. -/
theorem C14_sets_once {files : List (List String)} :
    (∀ out, mergeSets files [] = .ok out → out = files.flatten ∧ out.Nodup) ∧
    (files.flatten.Nodup → ∃ out, mergeSets files [] = .ok out) :=
  ⟨fun _ h => mergeSets_ok h, mergeSets_complete⟩

/-- **A duplicate set name is refused.**  The merge fails only with a name that occurs at least twice. -/
theorem C14_duplicate_set_refused {files : List (List String)} {n : String} (h : mergeSets files [] = .error n) :
    2 ≤ files.flatten.count n ∧ ¬ files.flatten.Nodup :=
  ⟨mergeSets_error_count h, mergeSets_error h⟩

/-- the calls of `MigrateFiles` with its last call `writer.Write` replaced by the calls of `Writer.Write` -/
def migrateCalls : List Gen.CallFact := Gen.migrateFilesCalls.dropLast ++ Gen.writerWriteCalls

/-- **Facts about the regenerated call lists.**  In `MigrateFiles` (with `Writer.Write` inlined) every call
    returns its error and `os.WriteFile` occurs once, as the very last call; the call inlined is indeed the last
    call of `MigrateFiles`; `main` is `config.Run` followed by `os.Exit`. -/
theorem C14_no_write_on_failure :
    WriteLast (Gen.migrateFilesCalls.dropLast ++ Gen.writerWriteCalls) "os.WriteFile" = true ∧
    (Gen.migrateFilesCalls.getLast?.map (·.name)) = some "writer.Write" ∧
    Gen.mainCalls.map (·.name) = ["config.Run", "os.Exit"] := by decide

/-- **No write on failure.**  If any call before `os.WriteFile` fails, `os.WriteFile` is not started and the
    error is reported. -/
theorem C14_no_write_on_failure_run :
    ∀ i, i + 1 < migrateCalls.length →
      let r := runCalls migrateCalls (some i); "os.WriteFile" ∉ r.1 ∧ r.2 = true :=
  writeLast_sound C14_no_write_on_failure.1

/-! ### non-vacuity -/

/-- a history with a collision: the second `store` package gets `store_1`, the repeated path gets its old name,
    and a package that wants `store_1` gets `store_1_1` -/
example : (runImports TC.empty [(0, "store"), (1, "store"), (0, "store"), (2, "store_1")]).map (·.2) =
    some ["store", "store_1", "store", "store_1_1"] := by decide

example : (runImports TC.empty [(0, "store"), (1, "store"), (0, "store"), (2, "store_1")]).map (·.1.imports) =
    some [(2, "store_1_1"), (1, "store_1"), (0, "store")] := by decide

/-- the alias is omitted when it equals the last path element -/
example : (runImports TC.empty [(0, "store"), (1, "store")]).map (fun r => sortedSpecs (importSpecs (fun _ => "store") r.1)) =
    some [(0, none), (1, some "store_1")] := by
  rw [show runImports TC.empty [(0, "store"), (1, "store")] = some (⟨[(1, "store_1"), (0, "store")], [("store_1", 1), ("store", 0)], [("store", 1)]⟩, ["store", "store_1"]) by rfl]
  simp [sortedSpecs, importSpecs, List.mergeSort, List.MergeSort.Internal.splitInTwo]

example : sortedSpecs [(2, none), (0, some "x"), (1, none)] = [(0, some "x"), (1, none), (2, none)] := by
  simp [sortedSpecs, List.mergeSort, List.MergeSort.Internal.splitInTwo]

example : mergeSets [["A", "B"], ["C"]] [] = .ok ["A", "B", "C"] := by rfl
example : mergeSets [["A", "B"], ["C", "A"]] [] = .error "A" := by rfl

/-- the run with no failure starts `os.WriteFile`; a failure of `format.Node` (call 4) does not -/
example : runCalls migrateCalls none =
    (["packages.Load", "m.convertPackageError", "m.transformer.Transform", "m.mergeResults", "format.Node", "os.WriteFile"], false) := by decide
example : runCalls migrateCalls (some 4) =
    (["packages.Load", "m.convertPackageError", "m.transformer.Transform", "m.mergeResults", "format.Node"], true) := by decide

/-! ### the types `migrate` spells (`TypeConverter.TypeToExpr`, model in `KV/TypeConv.lean`, proofs in `KV/TypeConvProofs.lean`) -/

/-- every type `migrate` spells from type information denotes, in the written file, the type it was spelled from;
    the file's import table is injective and contains no import the spelled types do not use -/
theorem C14_types_roundtrip (c : Nat) (pname : Nat → String) (ts : List TConv.Ty) (tc' : Imp.TC) (es : List TConv.Ex)
    (hwf : TConv.WFList ts = true) (h : TConv.renderList (some c) pname Imp.TC.empty ts = some (tc', es)) :
    TConv.resolveList (some c) tc' es = some ts ∧ Imp.Inv tc' ∧
    (∀ p n, tc'.imports.lookup p = some n → n ∈ TConv.qualsList es) := by
  refine ⟨TConv.renderList_roundtrip ts _ tc' es inv_empty hwf h, TConv.renderList_inv ts _ tc' es inv_empty h, ?_⟩
  intro p n hl
  rcases TConv.renderList_no_unused ts _ tc' es h p n hl with h0 | hm
  · simp [TC.empty] at h0
  · exact hm

/-- spelling a type always produces a result (the alias search inside never runs out of fuel) -/
theorem C14_types_total (cur : Option Nat) (pname : Nat → String) (ts : List TConv.Ty) :
    TConv.renderList cur pname Imp.TC.empty ts ≠ none :=
  TConv.renderList_total cur pname _ ts

/-- two packages that both declare the name `store`, nested under `map` / `func` / a type argument: the second one is
    spelled `store_1`, and the result denotes the type it was made from -/
example : (TConv.render (some 0) (fun _ => "store") TC.empty TConv.exTy).map (fun r => (r.1.imports, TConv.exStr r.2)) =
    some ([(2, "store_1"), (1, "store")], "map[store.N0]func(store_1.N1[store.N0];int)") := by rfl

/-- `TypeToExpr` has a case of its own for every kind of `types.Type` a value can have (regenerated from the type switch
    of typeconv.go; `Tuple`, `Union` and `TypeParam` are not types of values of a non-generic declaration): nothing falls
    through to the default branch, which spells a type with `t.String()` — full package paths (the defect repaired by
    67e0897 was two missing cases here) -/
theorem C14_type_kinds_covered :
    (["Named", "Alias", "Pointer", "Slice", "Array", "Map", "Chan", "Signature", "Struct", "Interface", "Basic"].all (fun k => Gen.typeToExprCases.contains k)) = true ∧
    Gen.typeToExprDefault = "ast.NewIdent(t.String())" := by decide

/-! ### reserved names (`NewTypeConverter` after fix 42d40f3; `KV/Reserved.lean`, proofs in `KV/ReservedProofs.lean`) -/

/-- with reserved names (the kessoku import, the package's own identifiers — fix 42d40f3): every type spelled from type
    information still denotes the type it was spelled from, no import is given a reserved name, different packages get
    different names, and no import is added that the types do not use -/
theorem C14_types_roundtrip_reserved (c : Nat) (pname : Nat → String) (reserved : List String) (ts : List TConv.Ty)
    (tc' : Imp.TC) (es : List TConv.Ex) (hwf : TConv.WFList ts = true) (hnr : TConv.noResList ts = true)
    (h : TConv.renderList (some c) pname (Imp.TC.withReserved reserved) ts = some (tc', es)) :
    TConv.resolveList (some c) tc' es = some ts ∧
    (∀ p n, tc'.imports.lookup p = some n → n ∉ reserved ∧ n ∈ TConv.qualsList es) ∧
    (∀ p q n, tc'.imports.lookup p = some n → tc'.imports.lookup q = some n → p = q) := by
  have hi := invR_withReserved reserved
  have hi' := TConv.renderList_invR ts _ tc' es hi hnr h
  refine ⟨TConv.renderList_roundtrip_R ts _ tc' es hi hwf hnr h, ?_, ?_⟩
  · intro p n hl
    constructor
    · intro hmem
      rcases TConv.renderList_fresh_R ts _ tc' es h p n hl with h0 | hu
      · simp [TC.withReserved] at h0
      · have hr := lookup_map_mem reserved n hmem
        simp only [TC.withReserved] at hu
        rw [hr] at hu; cases hu
    · rcases TConv.renderList_no_unused ts _ tc' es h p n hl with h0 | hm
      · simp [TC.withReserved] at h0
      · exact hm
  · intro p q n hp hq
    have h1 := hi'.1 p n hp
    have h2 := hi'.1 q n hq
    rw [h1] at h2; exact Option.some.inj h2

/-- spelling a type from the table with reserved names always produces a result -/
theorem C14_types_total_reserved (cur : Option Nat) (pname : Nat → String) (reserved : List String)
    (ts : List TConv.Ty) : TConv.renderList cur pname (Imp.TC.withReserved reserved) ts ≠ none :=
  TConv.renderList_total cur pname _ ts

/-- `map[store.N0]kessoku.N1` seen from package 0, which declares an identifier `store` and imports kessoku: package 1
    (named `store`) and package 2 (named `kessoku`) -/
def resTy : TConv.Ty := .node .map [.node (.named 1 16) [], .node (.named 2 17) []]

/-- the names `kessoku` and `store` are reserved: package 1 (`store`) is imported as `store_1`, package 2 (`kessoku`)
    as `kessoku_1`; the hypotheses of `C14_types_roundtrip_reserved` hold for this type -/
example : TConv.WFList [resTy] = true ∧ TConv.noResList [resTy] = true := by decide

example : (TConv.render (some 0) (fun p => if p = 1 then "store" else "kessoku") (TC.withReserved ["kessoku", "store"])
      resTy).map (fun r => (r.1.imports, TConv.exStr r.2)) =
    some ([(2, "kessoku_1"), (1, "store_1")], "map[store_1.N0]kessoku_1.N1") := by rfl

/-- and it denotes the type it was made from -/
example : (TConv.render (some 0) (fun p => if p = 1 then "store" else "kessoku") (TC.withReserved ["kessoku", "store"])
      resTy).bind (fun r => TConv.resolve (some 0) r.1 r.2) = some resTy := by rfl

end C14

#print axioms C14.C14_types_roundtrip
#print axioms C14.C14_types_total
#print axioms C14.C14_types_roundtrip_reserved
#print axioms C14.C14_types_total_reserved
