import KV.PlanLemmas
/-! # C01 — providers run only after their dependencies, race-free, in every schedule

Property statements only.  `KV.plan` is the model of `NewGraph` + `Graph.Build` + `buildStmts` that the
correspondence check compares with the real planner on every run; `KV.emitted p` is the abstract program
(threads of wait / enter / exit / close micro-ops, spawn, `eg.Wait`, return) the generator emits for a plan;
`T1.Reach` is reachability under *every* interleaving of its threads (any provider latency is any number
of other threads' steps between `enter` and `exit`).  Unbounded in declaration size and schedule length. -/
namespace C01
open KV

/-- **Ordering.** In every reachable state, a provider (or struct-field read) that is about to be entered
    has every non-parameter input already written: the producer's `exit` — the op that writes the
    variable — lies below its thread's program counter, i.e. the producer has returned. -/
theorem C01_order {provs : List PSpec} {ret : Nat} {p : PlanOut} (h : plan provs ret = .ok p)
    {s : T1.Pcs} (hr : T1.Reach (emitted p) s) {t o : Nat} {args : List Nat} {v : Nat}
    (hop : T1.opAt (emitted p) t (T1.pc s t) = some (.enter o args)) (hv : v ∈ args)
    (hnp : ¬ isParamOf p.b v) : T1.written (emitted p) s v :=
  let ⟨hw, hd⟩ := plan_wf h
  T1.enter_after_writes hw hd hr hop hv hnp

/-- **No data race.** No reachable state has one thread about to read a provided variable (entering a
    provider that takes it) while another thread is about to write it (returning from its producer). -/
theorem C01_norace {provs : List PSpec} {ret : Nat} {p : PlanOut} (h : plan provs ret = .ok p)
    {s : T1.Pcs} (hr : T1.Reach (emitted p) s) {t t' o o' : Nat} {args rets : List Nat} {v : Nat}
    (hrd : T1.opAt (emitted p) t (T1.pc s t) = some (.enter o args)) (hv : v ∈ args) (hnp : ¬ isParamOf p.b v)
    (hwr : T1.opAt (emitted p) t' (T1.pc s t') = some (.exit o' rets)) (hv' : v ∈ rets) : False :=
  let ⟨hw, hd⟩ := plan_wf h
  T1.no_race hw hd hr hrd hv hnp hwr hv'

/-- **Single writer.** Every variable carrying a provided value is written by exactly one `exit` op, in one
    thread: "exactly the values those producers returned" — nothing else ever assigns it. -/
theorem C01_single_writer {provs : List PSpec} {ret : Nat} {p : PlanOut} (h : plan provs ret = .ok p)
    {v t o t' o' : Nat} {rets rets' : List Nat}
    (h1 : T1.Op.exit o rets ∈ T1.thread (emitted p) t) (hv : v ∈ rets)
    (h2 : T1.Op.exit o' rets' ∈ T1.thread (emitted p) t') (hv' : v ∈ rets') : t = t' ∧ o = o' ∧ rets = rets' :=
  (plan_wf h).2.singleWriter v t o rets t' o' rets' h1 hv h2 hv'

/-- **The result is read after its write too**: when the main thread is at its final `ret v`, `v` is a
    parameter or has been written (the `ret` outranks every op, and `eg.Wait` precedes it). -/
theorem C01_every_read_has_writer {provs : List PSpec} {ret : Nat} {p : PlanOut} (h : plan provs ret = .ok p)
    {t o : Nat} {args : List Nat} {v : Nat}
    (hop : T1.Op.enter o args ∈ T1.thread (emitted p) t) (hv : v ∈ args) (hnp : ¬ isParamOf p.b v) :
    ∃ t' o' rets, T1.Op.exit o' rets ∈ T1.thread (emitted p) t' ∧ v ∈ rets :=
  let ⟨t', o', rets, hex, hvr, _⟩ := (plan_wf h).2.reads t o args v hop hv hnp
  ⟨t', o', rets, hex, hvr⟩

end C01
