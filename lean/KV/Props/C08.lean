import KV.Props.C06
/-! # C08 — no goroutine outlives the injector blocked forever

Property statements only (semantics and emission as in `KV/Props/C06.lean`).  Proved: once the derived context
is done — the caller cancelled, a goroutine failed, `eg.Wait` was passed, in particular after every normal
return and after a return through a ctx-aware wait — every running goroutine can step by itself.  **False**
after a main-thread *provider-error* return (known finding K8): nothing cancels the derived context. -/
open KV
namespace C08

/-- **C08 (partial).** Once the derived context is done (caller cancelled, a goroutine failed, or `eg.Wait`
    was passed), a goroutine that is still running and spawned lets the system move.  Needs
    `AllWaitsCtxAware p`.  What is *not* covered is the finding K8 (`KV.Witness.K8`): a failing main-thread
    provider returns without cancelling the derived context. -/
theorem C08_partial {provs : List PSpec} {ret : Nat} {p : PlanOut} (h : plan provs ret = .ok p)
    (hctx : AllWaitsCtxAware p = true) {env : T1F.Env} {s : T1F.St} (hr : T1F.Reach (emittedF p) env s)
    (hcd : T1F.ctxDone s = true) {t : Nat} (ht0 : 0 < t) (htl : t < (emittedF p).threads.length)
    (hrun : T1F.running s t) (hsp : T1F.spawned (emittedF p) s t) : T1F.Progress (emittedF p) env s :=
  T1F.goroutine_moves_when_ctx_done (plan_wfF h hctx) (T1F.shape_reach hr) hcd ht0 htl hrun hsp

/-- **C08 (partial), sharper.** Under the weaker `GoWaitsCtxAware p` (the injector has a context parameter, or
    no goroutine waits), for *every* plan: once the derived context is done, every running spawned goroutine can
    take a step **itself** — it advances or ends; it is never blocked. -/
theorem C08_partial_go {p : PlanOut} (hctx : GoWaitsCtxAware p = true) {env : T1F.Env} {s : T1F.St}
    (hr : T1F.Reach (emittedF p) env s) (hcd : T1F.ctxDone s = true) {t : Nat} (ht0 : 0 < t)
    (htl : t < (emittedF p).threads.length) (hrun : T1F.running s t) (hsp : T1F.spawned (emittedF p) s t) :
    ∃ s', T1F.Step (emittedF p) env s s' ∧ (T1F.pc s' t = T1F.pc s t + 1 ∨ T1F.finOf s' t ≠ none) := by
  refine T1F.goroutine_self_moves (plan_mainOnly p) (T1F.shape_reach hr) hcd ht0 htl ?_ hrun hsp
  intro o c k hw
  have hk : k = (planFlags p).ctxOf t := T1F.emitF_wait_flag hw
  obtain ⟨g, rfl⟩ : ∃ g, t = g + 1 := ⟨t - 1, by omega⟩
  have hhw : T1F.hasWait (p.parent.map (nodeInfo p.b)) (p.chains.map (·.map (nodeInfo p.b))) (g + 1) = true :=
    (T1F.hasWait_iff (fl := planFlags p) (rv := p.b.retParam)).mpr ⟨o, c, k, hw⟩
  have hgo := goHasWait_of_hasWait_succ hhw
  simp only [GoWaitsCtxAware, hgo, Bool.not_true, Bool.or_false] at hctx
  rw [hk]; exact hctx


/-- the full statement, in the form "after the injector has returned, a goroutine that is still running is
    never stuck unless the caller acts" -/
def C08_statement : Prop :=
  ∀ (provs : List PSpec) (ret : Nat) (p : PlanOut), plan provs ret = .ok p →
    ∀ (env : T1F.Env) (s : T1F.St), T1F.Reach (emittedF p) env s → s.result ≠ none →
      ∀ t, 0 < t → t < (emittedF p).threads.length → T1F.running s t → T1F.spawned (emittedF p) s t →
        T1F.Progress (emittedF p) env s

/-- **Known finding K8 (negation witness).**  Declaration: S fallible and synchronous, A(S), B(S) Async, C(A, B).
    S fails on the main thread, which returns `zero, err` without cancelling the derived context or waiting; the
    goroutine waiting for S's channel can never move (only the caller's `cancel` step is possible). -/
theorem C08_neg : ¬ C08_statement := by
  intro hst
  obtain ⟨p, hp, hem, _⟩ := KV.Witness.K8_is_emitted
  obtain ⟨hr, hres, _, _, hrun, hsp, _, _, hnp⟩ := KV.Witness.K8_witness
  rw [← hem] at hr hsp hnp
  have hlen : 1 < (emittedF p).threads.length := by rw [hem]; decide
  exact hnp (hst _ _ p hp _ _ hr hres 1 (by omega) hlen hrun hsp)

end C08
