import KV.PlanLemmas
import KV.Signature
/-! # C10 — injector signature follows the declaration

Property statements only.  `KV.sigArgs` / `PlanOut.b.isErr` are what the correspondence check compares with
the parameter list and error result of the real `Injector` (in-process) and with the `go/types` signature of
the emitted function (end-to-end).  Nodes of the planned graph are exactly the needed providers and the
unsupplied types they require (`KV.args_characterisation`, `KV/Args.lean`). -/
namespace C10
open KV

/-- **context.Context is the first parameter whenever a needed provider is Async**, and then occurs once. -/
theorem C10_ctx_first {provs : List PSpec} {ret : Nat} {p : PlanOut} (_h : plan provs ret = .ok p)
    (ha : hasAsyncNodes p.g = true) : ∃ rest, sigArgs p = ctxTy :: rest ∧ rest = (argTypes p).erase ctxTy := by
  unfold sigArgs; rw [ha]; exact ⟨_, rfl, rfl⟩

/-- **Without an Async needed provider the parameters are exactly the argument nodes**, in discovery order
    (so context.Context is a parameter only if it is itself an unsupplied type). -/
theorem C10_no_async {provs : List PSpec} {ret : Nat} {p : PlanOut} (_h : plan provs ret = .ok p)
    (ha : hasAsyncNodes p.g = false) : sigArgs p = argTypes p := by
  unfold sigArgs; rw [ha]; rfl

/-- **Adding the context never drops or duplicates another parameter**: apart from `context.Context`, the
    parameter list is the list of argument nodes' types. -/
theorem C10_params_are_args {provs : List PSpec} {ret : Nat} {p : PlanOut} (_h : plan provs ret = .ok p) :
    (sigArgs p).filter (fun t => !(t == ctxTy)) = (argTypes p).filter (fun t => !(t == ctxTy)) := by
  have herase : ∀ l : List Nat, (l.erase ctxTy).filter (fun t => !(t == ctxTy)) = l.filter (fun t => !(t == ctxTy)) := by
    intro l
    induction l with
    | nil => rfl
    | cons a l ih =>
      by_cases ha : a = ctxTy
      · subst ha; simp [List.erase_cons_head]
      · have hb : (a == ctxTy) = false := by simpa using ha
        rw [List.erase_cons_tail (by simpa using ha), List.filter_cons, List.filter_cons, hb, ih]
  unfold sigArgs
  split
  · rw [List.filter_cons]
    simp only [beq_self_eq_true, Bool.not_true, Bool.false_eq_true, if_false]
    exact herase _
  · rfl

/-- **Parameters = the unsupplied types of needed providers, each exactly once.**  `Needed` / `Unsupplied` are
    written directly from the statement (`KV/Signature.lean`): a provider is needed if it supplies the requested
    type or a type required by a needed provider; a type is an unsupplied requirement if no provider supplies
    it and a needed provider (or the request itself) requires it. -/
theorem C10_params {provs0 : List PSpec} {ret : Nat} {p : PlanOut} {provs : List PSpec} {sup : SupMap}
    (h : plan provs0 ret = .ok p) (hs : supplierMap provs0 = .ok (provs, sup)) :
    (∀ t, t ∈ argTypes p ↔ Unsupplied provs sup ret t) ∧ (argTypes p).Nodup :=
  params_exact h hs

/-- **context.Context**: a parameter exactly when a needed provider is Async or it is itself an unsupplied
    requirement; the first parameter whenever a needed provider is Async; no parameter occurs twice; every
    other parameter is an unsupplied requirement and vice versa. -/
theorem C10_context {provs0 : List PSpec} {ret : Nat} {p : PlanOut} {provs : List PSpec} {sup : SupMap}
    (h : plan provs0 ret = .ok p) (hs : supplierMap provs0 = .ok (provs, sup)) :
    (ctxTy ∈ sigArgs p ↔ (∃ q, Needed provs sup ret q ∧ (provs.getD q default).isAsync = true) ∨ Unsupplied provs sup ret ctxTy) ∧
    ((∃ q, Needed provs sup ret q ∧ (provs.getD q default).isAsync = true) → (sigArgs p).head? = some ctxTy) ∧
    (sigArgs p).Nodup ∧
    (∀ t, t ≠ ctxTy → (t ∈ sigArgs p ↔ Unsupplied provs sup ret t)) :=
  ctx_param h hs

/-- **error result exactly when some needed provider can return an error.** -/
theorem C10_error {provs0 : List PSpec} {ret : Nat} {p : PlanOut} {provs : List PSpec} {sup : SupMap}
    (h : plan provs0 ret = .ok p) (hs : supplierMap provs0 = .ok (provs, sup)) :
    p.b.isErr = true ↔ ∃ q, Needed provs sup ret q ∧ (provs.getD q default).isErr = true :=
  error_result h hs

/-- **Unneeded providers influence nothing**: replacing a provider that is not needed by any provider of the same
    shape (Async, fallible, other requirements) leaves the error result, the presence of the context and the
    parameter set unchanged. -/
theorem C10_unneeded_irrelevant {provs0 : List PSpec} {ret : Nat} {p p' : PlanOut} {provs : List PSpec} {sup : SupMap}
    (u : Nat) (x : PSpec) (hx : SameShape (provs0.getD u default) x)
    (h : plan provs0 ret = .ok p) (hs : supplierMap provs0 = .ok (provs, sup))
    (hu : ¬ Needed provs sup ret u) (h' : plan (provs0.set u x) ret = .ok p') :
    p'.b.isErr = p.b.isErr ∧ hasAsyncNodes p'.g = hasAsyncNodes p.g ∧ (sigArgs p').Perm (sigArgs p) :=
  unneeded_provider_irrelevant u x hx h hs hu h'

end C10
