import KV.PlanLemmas
/-! # C10 — injector signature follows the declaration

Property statements only.  `KV.sigArgs` / `PlanOut.b.isErr` are what the correspondence check compares with
the parameter list and error result of the real `Injector` (in-process) and with the `go/types` signature of
the emitted function (end-to-end).  Nodes of the planned graph are exactly the needed providers and the
unsupplied types they require (`KV.args_characterisation`, `KV/Args.lean`). -/
namespace C10
open KV

/-- **context.Context is the first parameter whenever a needed provider is Async**, and then occurs once. -/
theorem C10_ctx_first {provs : List PSpec} {ret : Nat} {p : PlanOut} (_h : plan provs ret = .ok p)
    (ha : hasAsyncNodes p.g = true) : ∃ rest, sigArgs p = ctxTy :: rest ∧ rest = (argTypes p).erase ctxTy := by
  unfold sigArgs; rw [ha]; exact ⟨_, rfl, rfl⟩

/-- **Without an Async needed provider the parameters are exactly the argument nodes**, in discovery order
    (so context.Context is a parameter only if it is itself an unsupplied type). -/
theorem C10_no_async {provs : List PSpec} {ret : Nat} {p : PlanOut} (_h : plan provs ret = .ok p)
    (ha : hasAsyncNodes p.g = false) : sigArgs p = argTypes p := by
  unfold sigArgs; rw [ha]; rfl

/-- **Adding the context never drops or duplicates another parameter**: apart from `context.Context`, the
    parameter list is the list of argument nodes' types. -/
theorem C10_params_are_args {provs : List PSpec} {ret : Nat} {p : PlanOut} (_h : plan provs ret = .ok p) :
    (sigArgs p).filter (fun t => !(t == ctxTy)) = (argTypes p).filter (fun t => !(t == ctxTy)) := by
  have herase : ∀ l : List Nat, (l.erase ctxTy).filter (fun t => !(t == ctxTy)) = l.filter (fun t => !(t == ctxTy)) := by
    intro l
    induction l with
    | nil => rfl
    | cons a l ih =>
      by_cases ha : a = ctxTy
      · subst ha; simp [List.erase_cons_head]
      · have hb : (a == ctxTy) = false := by simpa using ha
        rw [List.erase_cons_tail (by simpa using ha), List.filter_cons, List.filter_cons, hb, ih]
  unfold sigArgs
  split
  · rw [List.filter_cons]
    simp only [beq_self_eq_true, Bool.not_true, Bool.false_eq_true, if_false]
    exact herase _
  · rfl

end C10
