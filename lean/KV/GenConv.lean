import KV.VarPool
/-! # Model of `createASTTypeExpr` (internal/kessoku/graph.go)

The generator spells the types of injector parameters (and everything else it has to write that the user did not
write) from type information: `createASTTypeExpr` walks a `types.Type`; for a named type of another package it looks
the package up in the file's import table and, when it is not there yet, asks the **VarPool** (the same allocator that
names variables, see `KV/VarPool.lean`) for a fresh local name and adds the import.

Same shape as `KV/TypeConv.lean` (the migrate side), with two differences that matter: the local name of an import
comes from `VP.getNameFix` (fresh against *everything* the pool knows: reserved words, package-level names of the
user's package, variables), and interface literals are spelled out method by method.

Tied to the code by the `G` lines of the drivers. -/
namespace GConv
open VP

inductive Tag where
  | basic (n : Nat)
  | named (pkg : Nat) (name : Nat)        -- children: type arguments
  | ptr
  | slice
  | arr (len : Nat)
  | map
  | chan (dir : Nat)
  | func (nparams : Nat)                  -- children: parameters, then results
  | variadic
  | struct (fields : List (Nat × Bool))   -- (field name, embedded?)
  | iface (methods : List Nat)            -- method names (sorted, as go/types keeps them); children: their signatures
deriving DecidableEq, Repr

inductive Ty where
  | node (tag : Tag) (kids : List Ty)
deriving Repr

inductive ETag where
  | ident (n : Nat)
  | sel (q : String) (name : Nat)
  | star
  | slice
  | arr (len : Nat)
  | map
  | chan (dir : Nat)
  | func (nparams : Nat)
  | ellipsis
  | struct (fields : List (Nat × Bool))
  | iface (methods : List Nat)
deriving DecidableEq, Repr

inductive Ex where
  | node (tag : ETag) (kids : List Ex)
deriving Repr

/-- the generator's state while it spells types: the name pool and the file's import table (path ↦ local name) -/
structure St where
  pool : Pool
  imports : List (Nat × String)

/-- `imports[pkgPath]` if present, else `varPool.GetName(pkgName)` and a new table entry -/
def addImport (st : St) (path : Nat) (desired : String) : Option (St × String) :=
  match st.imports.lookup path with
  | some n => some (st, n)
  | none =>
    match getNameFix st.pool desired with
    | none => none
    | some (pool', n) => some ({ pool := pool', imports := (path, n) :: st.imports }, n)

def renderTag (cur : Nat) (pname : Nat → String) (st : St) : Tag → Option (St × ETag)
  | .basic n => some (st, .ident n)
  | .named p name =>
    if p = cur then some (st, .ident name)
    else match addImport st p (pname p) with
      | none => none
      | some (st', q) => some (st', .sel q name)
  | .ptr => some (st, .star)
  | .slice => some (st, .slice)
  | .arr n => some (st, .arr n)
  | .map => some (st, .map)
  | .chan d => some (st, .chan d)
  | .func n => some (st, .func n)
  | .variadic => some (st, .ellipsis)
  | .struct fs => some (st, .struct fs)
  | .iface ms => some (st, .iface ms)

mutual
def render (cur : Nat) (pname : Nat → String) : St → Ty → Option (St × Ex)
  | st, .node tag kids =>
    match renderTag cur pname st tag with
    | none => none
    | some (st1, etag) =>
      match renderList cur pname st1 kids with
      | none => none
      | some (st2, es) => some (st2, .node etag es)
def renderList (cur : Nat) (pname : Nat → String) : St → List Ty → Option (St × List Ex)
  | st, [] => some (st, [])
  | st, t :: ts =>
    match render cur pname st t with
    | none => none
    | some (st1, e) =>
      match renderList cur pname st1 ts with
      | none => none
      | some (st2, es) => some (st2, e :: es)
end

/-- the package a qualifier stands for: the import table read from name to path -/
def pathOf (imports : List (Nat × String)) (q : String) : Option Nat :=
  (imports.find? (fun pn => pn.2 == q)).map (·.1)

def resolveTag (cur : Nat) (st : St) : ETag → Option Tag
  | .ident n => if n < 16 then some (.basic n) else some (.named cur n)
  | .sel q name => (pathOf st.imports q).map (fun p => .named p name)
  | .star => some .ptr
  | .slice => some .slice
  | .arr n => some (.arr n)
  | .map => some .map
  | .chan d => some (.chan d)
  | .func n => some (.func n)
  | .ellipsis => some .variadic
  | .struct fs => some (.struct fs)
  | .iface ms => some (.iface ms)

mutual
def resolve (cur : Nat) (st : St) : Ex → Option Ty
  | .node etag es =>
    match resolveTag cur st etag with
    | none => none
    | some tag =>
      match resolveList cur st es with
      | none => none
      | some ts => some (.node tag ts)
def resolveList (cur : Nat) (st : St) : List Ex → Option (List Ty)
  | [] => some []
  | e :: es =>
    match resolve cur st e with
    | none => none
    | some t =>
      match resolveList cur st es with
      | none => none
      | some ts => some (t :: ts)
end

mutual
def quals : Ex → List String
  | .node (.sel q _) es => q :: qualsList es
  | .node _ es => qualsList es
def qualsList : List Ex → List String
  | [] => []
  | e :: es => quals e ++ qualsList es
end

mutual
/-- predeclared names are `< 16`, names of declared types `≥ 16` -/
def WF : Ty → Bool
  | .node tag kids =>
    (match tag with
     | .basic n => decide (n < 16)
     | .named _ name => decide (16 ≤ name)
     | _ => true) && WFList kids
def WFList : List Ty → Bool
  | [] => true
  | t :: ts => WF t && WFList ts
end

/-- every imported name is in use in the pool, and no two packages share a name -/
def Inv (st : St) : Prop :=
  (∀ p n, st.imports.lookup p = some n → 0 < count st.pool n) ∧
  (∀ p n, st.imports.lookup p = some n → pathOf st.imports n = some p)

/-! ## printing (driver protocol; the same notation as `TConv.exStr`) -/

def basicNames : List String := ["int", "string", "bool", "float64", "error", "any", "byte", "uint8",
  "int8", "int64", "uint", "float32", "complex128", "uintptr", "rune", "uint16"]

def nameStr (n : Nat) : String := if n < 16 then basicNames.getD n ("B" ++ toString n) else "N" ++ toString (n - 16)

def fieldStr (f : Nat × Bool) (s : String) : String := if f.2 then "~" ++ s else "F" ++ toString f.1 ++ " " ++ s

def zipFields : List (Nat × Bool) → List String → List String
  | f :: fs, s :: ss => fieldStr f s :: zipFields fs ss
  | _, _ => []

def zipMethods : List Nat → List String → List String
  | m :: ms, s :: ss => ("M" ++ toString m ++ " " ++ s) :: zipMethods ms ss
  | _, _ => []

mutual
def exStr : Ex → String
  | .node tag es =>
    let ks := exStrs es
    match tag with
    | .ident n => nameStr n ++ (if ks.isEmpty then "" else "[" ++ ",".intercalate ks ++ "]")
    | .sel q n => q ++ "." ++ nameStr n ++ (if ks.isEmpty then "" else "[" ++ ",".intercalate ks ++ "]")
    | .star => "*" ++ "".intercalate ks
    | .slice => "[]" ++ "".intercalate ks
    | .arr n => "[" ++ toString n ++ "]" ++ "".intercalate ks
    | .map => "map[" ++ ks.getD 0 "?" ++ "]" ++ ks.getD 1 "?"
    | .chan d => "chan" ++ toString d ++ "(" ++ "".intercalate ks ++ ")"
    | .func n => "func(" ++ ",".intercalate (ks.take n) ++ ";" ++ ",".intercalate (ks.drop n) ++ ")"
    | .ellipsis => "..." ++ "".intercalate ks
    | .struct fs => "struct{" ++ ";".intercalate (zipFields fs ks) ++ "}"
    | .iface ms => "interface{" ++ ";".intercalate (zipMethods ms ks) ++ "}"
def exStrs : List Ex → List String
  | [] => []
  | e :: es => exStr e :: exStrs es
end

end GConv
