/-! Model of `internal/llmsetup/install.go: InstallFile` as a list of file-system steps with a deferred
    clean-up. Definitions only (no proofs, no Mathlib) so that the driver links.

    The step list itself is *regenerated from the source* by `factgen` (`KV/Generated/Install.lean`);
    this file fixes what each step means.  Only two paths matter for one installation: the destination
    and this run's temp file (`os.CreateTemp` picks a fresh name, so garbage left by earlier crashed runs
    is a different path and is never touched). -/
namespace Inst

inductive Target where
  | tmp | final
deriving DecidableEq, Repr

inductive Op where
  | mkdirAll
  | createTemp
  | write (t : Target)
  | sync
  | closeF
  | chmod (t : Target) (mode : Nat)
  | rename                       -- tmp ↦ final, atomic replace
  | remove (t : Target)
  | unknown (what : String)      -- a call factgen does not recognise: no semantics, no theorem
deriving DecidableEq, Repr

/-- one statement of the function body: the call and whether its error is returned to the caller -/
structure Step where
  op : Op
  checked : Bool
deriving DecidableEq, Repr

inductive Guard where
  | notClosed | onError | onSuccess | always | unknown
deriving DecidableEq, Repr

structure Cleanup where
  guard : Guard
  op : Op
deriving DecidableEq, Repr

abbrev FileV := List Nat × Nat          -- (bytes, mode)

structure St where
  dest : Option FileV
  tmp : Option FileV
deriving Repr, DecidableEq

/-- effect of one complete step; `n` bytes of `content` are written by a `write` -/
def apply (content : List Nat) (n : Nat) : Op → St → St
  | .mkdirAll, s => s
  | .createTemp, s => { s with tmp := some ([], 0o600) }
  | .write .tmp, s => { s with tmp := s.tmp.map (fun f => (content.take n, f.2)) }
  | .write .final, s => { s with dest := some (content.take n, (s.dest.map (·.2)).getD 0o644) }
  | .sync, s => s
  | .closeF, s => s
  | .chmod .tmp m, s => { s with tmp := s.tmp.map (fun f => (f.1, m)) }
  | .chmod .final m, s => { s with dest := s.dest.map (fun f => (f.1, m)) }
  | .rename, s => match s.tmp with
      | some f => { dest := some f, tmp := none }
      | none => s
  | .remove .tmp, s => { s with tmp := none }
  | .remove .final, s => { s with dest := none }
  | .unknown _, s => s

def runOps (content : List Nat) (ops : List Op) (s : St) : St :=
  ops.foldl (fun s op => apply content content.length op s) s

/-- a step that is interrupted (crash) or fails: only a write can have a partial effect (`n` bytes) -/
def tornApply (content : List Nat) (n : Nat) : Op → St → St
  | .write t, s => apply content n (.write t) s
  | _, s => s

/-- the process dies after `k` complete steps; if step `k` is a write, `j` bytes of it happened -/
def runCrash (content : List Nat) (steps : List Step) (k j : Nat) (s : St) : St :=
  let s1 := runOps content ((steps.take k).map (·.op)) s
  match steps[k]? with
  | some st => tornApply content (min j content.length) st.op s1
  | none => s1

def guardHolds (closed failed : Bool) : Guard → Bool
  | .notClosed => !closed
  | .onError => failed
  | .onSuccess => !failed
  | .always => true
  | .unknown => false

def runCleanup (content : List Nat) (cl : List Cleanup) (closed failed : Bool) (s : St) : St :=
  cl.foldl (fun s c => if guardHolds closed failed c.guard then apply content content.length c.op s else s) s

def closedAfter (ops : List Op) : Bool := ops.contains .closeF

structure Outcome where
  st : St
  reported : Bool        -- InstallFile returned a non-nil error
deriving Repr, DecidableEq

/-- a complete run without crash and without fault -/
def runOK (content : List Nat) (steps : List Step) (cl : List Cleanup) (s : St) : Outcome :=
  let ops := steps.map (·.op)
  { st := runCleanup content cl (closedAfter ops) false (runOps content ops s), reported := false }

/-- step `i` fails (a failing write may have written `j` bytes first).  If its error is checked the
    function returns it and the deferred clean-up runs with `retErr ≠ nil`; if it is ignored, execution
    carries on and the function reports success. -/
def runFail (content : List Nat) (steps : List Step) (cl : List Cleanup) (i j : Nat) (s : St) : Outcome :=
  let pre := (steps.take i).map (·.op)
  let s1 := runOps content pre s
  match steps[i]? with
  | none => runOK content steps cl s
  | some st =>
    let s2 := tornApply content (min j content.length) st.op s1
    if st.checked then
      { st := runCleanup content cl (closedAfter pre) true s2, reported := true }
    else
      let rest := (steps.drop (i + 1)).map (·.op)
      { st := runCleanup content cl (closedAfter (pre ++ rest)) false (runOps content rest s2),
        reported := false }

/-! ## Symbolic version: finite, so the whole behaviour of a step list can be decided by evaluation.
    The run is parametrised by whether a previous destination file exists. -/

inductive Cont where
  | empty | part | full
deriving DecidableEq, Repr

inductive SFile where
  | absent
  | old (mode : Option Nat)               -- the previous bytes; `some m`: its mode was changed to `m`
  | new (c : Cont) (mode : Option Nat)    -- new bytes; mode `none`: the previous file's mode
deriving DecidableEq, Repr

structure SSt where
  dest : SFile
  tmp : SFile
deriving DecidableEq, Repr

def sApply (c : Cont) : Op → SSt → SSt
  | .mkdirAll, s => s
  | .createTemp, s => { s with tmp := .new .empty (some 0o600) }
  | .write .tmp, s => { s with tmp := match s.tmp with
      | .new _ m => .new c m
      | f => f }
  | .write .final, s => { s with dest := match s.dest with
      | .absent => .new c (some 0o644)
      | .old m => .new c m
      | .new _ m => .new c m }
  | .sync, s => s
  | .closeF, s => s
  | .chmod .tmp m, s => { s with tmp := match s.tmp with
      | .new c' _ => .new c' (some m)
      | .old _ => .old (some m)
      | .absent => .absent }
  | .chmod .final m, s => { s with dest := match s.dest with
      | .new c' _ => .new c' (some m)
      | .old _ => .old (some m)
      | .absent => .absent }
  | .rename, s => match s.tmp with
      | .absent => s
      | f => { dest := f, tmp := .absent }
  | .remove .tmp, s => { s with tmp := .absent }
  | .remove .final, s => { s with dest := .absent }
  | .unknown _, s => s

def sRunOps (ops : List Op) (s : SSt) : SSt := ops.foldl (fun s op => sApply .full op s) s

def sTornApply (c : Cont) : Op → SSt → SSt
  | .write t, s => sApply c (.write t) s
  | _, s => s

def contOf (partialWrite : Bool) : Cont := if partialWrite then .part else .full

def sRunCrash (steps : List Step) (k : Nat) (partialWrite : Bool) (s : SSt) : SSt :=
  let s1 := sRunOps ((steps.take k).map (·.op)) s
  match steps[k]? with
  | some st => sTornApply (contOf partialWrite) st.op s1
  | none => s1

def sRunCleanup (cl : List Cleanup) (closed failed : Bool) (s : SSt) : SSt :=
  cl.foldl (fun s c => if guardHolds closed failed c.guard then sApply .full c.op s else s) s

structure SOutcome where
  st : SSt
  reported : Bool
deriving DecidableEq, Repr

def sRunOK (steps : List Step) (cl : List Cleanup) (s : SSt) : SOutcome :=
  let ops := steps.map (·.op)
  { st := sRunCleanup cl (closedAfter ops) false (sRunOps ops s), reported := false }

def sRunFail (steps : List Step) (cl : List Cleanup) (i : Nat) (partialWrite : Bool) (s : SSt) : SOutcome :=
  let pre := (steps.take i).map (·.op)
  let s1 := sRunOps pre s
  match steps[i]? with
  | none => sRunOK steps cl s
  | some st =>
    let s2 := sTornApply (contOf partialWrite) st.op s1
    if st.checked then
      { st := sRunCleanup cl (closedAfter pre) true s2, reported := true }
    else
      let rest := (steps.drop (i + 1)).map (·.op)
      { st := sRunCleanup cl (closedAfter (pre ++ rest)) false (sRunOps rest s2), reported := false }

/-- initial symbolic state; `ex`: a previous destination file exists -/
def sInit (ex : Bool) : SSt := { dest := if ex then .old none else .absent, tmp := .absent }

def isUnknownOp : Op → Bool
  | .unknown _ => true
  | _ => false

def hasUnknown (steps : List Step) (cl : List Cleanup) : Bool :=
  steps.any (fun s => isUnknownOp s.op) || cl.any (fun c => isUnknownOp c.op || c.guard == .unknown)

def crashPoints (steps : List Step) : List (Nat × Bool) :=
  (List.range (steps.length + 1)).flatMap (fun k => [(k, false), (k, true)])

def faultPoints (steps : List Step) : List (Nat × Bool) :=
  (List.range steps.length).flatMap (fun k => [(k, false), (k, true)])

def crashOKAt (steps : List Step) (mode : Nat) (ex : Bool) (kp : Nat × Bool) : Bool :=
  let d := (sRunCrash steps kp.1 kp.2 (sInit ex)).dest
  d == (sInit ex).dest || d == .new .full (some mode)

/-- decidable: at every crash point the destination is symbolically the previous file (or still absent)
    or the complete new content with mode `mode` -/
def crashSafe (steps : List Step) (mode : Nat) : Bool :=
  [true, false].all (fun ex => (crashPoints steps).all (crashOKAt steps mode ex))

/-- decidable: a complete run reports success, installs the new content with mode `mode`, leaves no temp file -/
def completes (steps : List Step) (cl : List Cleanup) (mode : Nat) : Bool :=
  [true, false].all (fun ex =>
    let r := sRunOK steps cl (sInit ex)
    r.st.dest == .new .full (some mode) && r.st.tmp == .absent)

def faultOKAt (steps : List Step) (cl : List Cleanup) (ex : Bool) (ip : Nat × Bool) : Bool :=
  let r := sRunFail steps cl ip.1 ip.2 (sInit ex)
  r.reported && r.st.dest == (sInit ex).dest && r.st.tmp == .absent

/-- decidable: a single failing step is reported, the previous destination is intact, no temp file is left -/
def faultSafe (steps : List Step) (cl : List Cleanup) : Bool :=
  [true, false].all (fun ex => (faultPoints steps).all (faultOKAt steps cl ex))

/-- first crash point at which the destination is neither previous nor complete-new: the witness the
    failure path replays on the real binary (`ex`, step index, torn write?) -/
def crashWitness (steps : List Step) (mode : Nat) : Option (Bool × Nat × Bool) :=
  ([true, false].flatMap (fun ex => (crashPoints steps).map (fun kp => (ex, kp.1, kp.2)))).find?
    (fun w => !crashOKAt steps mode w.1 (w.2.1, w.2.2))

def faultWitness (steps : List Step) (cl : List Cleanup) : Option (Bool × Nat × Bool) :=
  ([true, false].flatMap (fun ex => (faultPoints steps).map (fun kp => (ex, kp.1, kp.2)))).find?
    (fun w => !faultOKAt steps cl w.1 (w.2.1, w.2.2))

end Inst
