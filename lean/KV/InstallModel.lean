/-! Model of `internal/llmsetup/install.go: InstallFile` as a list of file-system steps with a deferred
    clean-up. Definitions only (no proofs, no Mathlib) so that the driver links.

    The step list itself is *regenerated from the source* by `factgen` (`KV/Generated/Install.lean`);
    this file fixes what each step means.  Only two paths matter for one installation: the destination
    and this run's temp file (`os.CreateTemp` picks a fresh name, so garbage left by earlier crashed runs
    is a different path and is never touched). -/
namespace Inst

inductive Target where
  | tmp | final
deriving DecidableEq, Repr

inductive Op where
  | mkdirAll
  | createTemp
  | write (t : Target)
  | sync
  | closeF
  | chmod (t : Target) (mode : Nat)
  | rename                       -- tmp ↦ final, atomic replace
  | remove (t : Target)
  | unknown (what : String)      -- a call factgen does not recognise: no semantics, no theorem
deriving DecidableEq, Repr

/-- one statement of the function body: the call and whether its error is returned to the caller -/
structure Step where
  op : Op
  checked : Bool
deriving DecidableEq, Repr

inductive Guard where
  | notClosed | onError | onSuccess | always | unknown
deriving DecidableEq, Repr

structure Cleanup where
  guard : Guard
  op : Op
deriving DecidableEq, Repr

abbrev FileV := List Nat × Nat          -- (bytes, mode)

structure St where
  dest : Option FileV
  tmp : Option FileV
deriving Repr, DecidableEq

/-- effect of one complete step; `n` bytes of `content` are written by a `write` -/
def apply (content : List Nat) (n : Nat) : Op → St → St
  | .mkdirAll, s => s
  | .createTemp, s => { s with tmp := some ([], 0o600) }
  | .write .tmp, s => { s with tmp := s.tmp.map (fun f => (content.take n, f.2)) }
  | .write .final, s => { s with dest := some (content.take n, (s.dest.map (·.2)).getD 0o644) }
  | .sync, s => s
  | .closeF, s => s
  | .chmod .tmp m, s => { s with tmp := s.tmp.map (fun f => (f.1, m)) }
  | .chmod .final m, s => { s with dest := s.dest.map (fun f => (f.1, m)) }
  | .rename, s => match s.tmp with
      | some f => { dest := some f, tmp := none }
      | none => s
  | .remove .tmp, s => { s with tmp := none }
  | .remove .final, s => { s with dest := none }
  | .unknown _, s => s

def runOps (content : List Nat) (ops : List Op) (s : St) : St :=
  ops.foldl (fun s op => apply content content.length op s) s

/-- the process dies after `k` complete steps; if step `k` is a write, `j` bytes of it happened -/
def runCrash (content : List Nat) (steps : List Step) (k j : Nat) (s : St) : St :=
  let s1 := runOps content ((steps.take k).map (·.op)) s
  match steps[k]? with
  | some ⟨.write t, _⟩ => apply content (min j content.length) (.write t) s1
  | _ => s1

def guardHolds (closed failed : Bool) : Guard → Bool
  | .notClosed => !closed
  | .onError => failed
  | .onSuccess => !failed
  | .always => true
  | .unknown => false

def runCleanup (content : List Nat) (cl : List Cleanup) (closed failed : Bool) (s : St) : St :=
  cl.foldl (fun s c => if guardHolds closed failed c.guard then apply content content.length c.op s else s) s

def closedAfter (ops : List Op) : Bool := ops.contains .closeF

structure Outcome where
  st : St
  reported : Bool        -- InstallFile returned a non-nil error
deriving Repr, DecidableEq

/-- a complete run without crash and without fault -/
def runOK (content : List Nat) (steps : List Step) (cl : List Cleanup) (s : St) : Outcome :=
  let ops := steps.map (·.op)
  { st := runCleanup content cl (closedAfter ops) false (runOps content ops s), reported := false }

/-- step `i` fails (a failing write may have written `j` bytes first).  If its error is checked the
    function returns it and the deferred clean-up runs with `retErr ≠ nil`; if it is ignored, execution
    carries on and the function reports success. -/
def runFail (content : List Nat) (steps : List Step) (cl : List Cleanup) (i j : Nat) (s : St) : Outcome :=
  let pre := (steps.take i).map (·.op)
  let s1 := runOps content pre s
  match steps[i]? with
  | none => runOK content steps cl s
  | some st =>
    let s2 := match st.op with
      | .write t => apply content (min j content.length) (.write t) s1
      | _ => s1
    if st.checked then
      { st := runCleanup content cl (closedAfter pre) true s2, reported := true }
    else
      let rest := (steps.drop (i + 1)).map (·.op)
      { st := runCleanup content cl (closedAfter (pre ++ rest)) false (runOps content rest s2),
        reported := false }

/-! ## Symbolic version: finite, so the whole behaviour of a step list can be decided by evaluation -/

inductive Cont where
  | empty | part | full
deriving DecidableEq, Repr

inductive SFile where
  | absent
  | old                          -- whatever was at the destination before
  | new (c : Cont) (mode : Option Nat)    -- `none` mode: the mode of the previous destination (or 0644)
deriving DecidableEq, Repr

structure SSt where
  dest : SFile
  tmp : SFile
deriving DecidableEq, Repr

def sApply (c : Cont) : Op → SSt → SSt
  | .mkdirAll, s => s
  | .createTemp, s => { s with tmp := .new .empty (some 0o600) }
  | .write .tmp, s => { s with tmp := match s.tmp with
      | .new _ m => .new c m
      | f => f }
  | .write .final, s => { s with dest := match s.dest with
      | .new _ m => .new c m
      | _ => .new c none }
  | .sync, s => s
  | .closeF, s => s
  | .chmod .tmp m, s => { s with tmp := match s.tmp with
      | .new c' _ => .new c' (some m)
      | f => f }
  | .chmod .final m, s => { s with dest := match s.dest with
      | .new c' _ => .new c' (some m)
      | f => f }
  | .rename, s => match s.tmp with
      | .absent => s
      | f => { dest := f, tmp := .absent }
  | .remove .tmp, s => { s with tmp := .absent }
  | .remove .final, s => { s with dest := .absent }
  | .unknown _, s => s

def sRunOps (ops : List Op) (s : SSt) : SSt := ops.foldl (fun s op => sApply .full op s) s

def sRunCrash (steps : List Step) (k : Nat) (partialWrite : Bool) (s : SSt) : SSt :=
  let s1 := sRunOps ((steps.take k).map (·.op)) s
  match steps[k]? with
  | some ⟨.write t, _⟩ => sApply (if partialWrite then .part else .full) (.write t) s1
  | _ => s1

def sRunCleanup (cl : List Cleanup) (closed failed : Bool) (s : SSt) : SSt :=
  cl.foldl (fun s c => if guardHolds closed failed c.guard then sApply .full c.op s else s) s

structure SOutcome where
  st : SSt
  reported : Bool
deriving DecidableEq, Repr

def sRunFail (steps : List Step) (cl : List Cleanup) (i : Nat) (partialWrite : Bool) (s : SSt) : SOutcome :=
  let pre := (steps.take i).map (·.op)
  let s1 := sRunOps pre s
  match steps[i]? with
  | none => { st := sRunCleanup cl (closedAfter (steps.map (·.op))) false (sRunOps (steps.map (·.op)) s), reported := false }
  | some st =>
    let s2 := match st.op with
      | .write t => sApply (if partialWrite then .part else .full) (.write t) s1
      | _ => s1
    if st.checked then
      { st := sRunCleanup cl (closedAfter pre) true s2, reported := true }
    else
      let rest := (steps.drop (i + 1)).map (·.op)
      { st := sRunCleanup cl (closedAfter (pre ++ rest)) false (sRunOps rest s2), reported := false }

def sInit : SSt := { dest := .old, tmp := .absent }

def hasUnknown (steps : List Step) (cl : List Cleanup) : Bool :=
  steps.any (fun s => match s.op with | .unknown _ => true | _ => false) ||
  cl.any (fun c => (match c.op with | .unknown _ => true | _ => false) || c.guard == .unknown)

/-- decidable: at every crash point the destination is symbolically the old file or the complete new
    content with mode `mode` -/
def crashSafe (steps : List Step) (cl : List Cleanup) (mode : Nat) : Bool :=
  !hasUnknown steps cl &&
  (List.range (steps.length + 1)).all (fun k => [true, false].all (fun p =>
    let d := (sRunCrash steps k p sInit).dest
    d == .old || d == .new .full (some mode)))

/-- decidable: a complete run installs the new content with mode `mode` and leaves no temp file -/
def completes (steps : List Step) (cl : List Cleanup) (mode : Nat) : Bool :=
  !hasUnknown steps cl &&
  (let r := sRunCleanup cl (closedAfter (steps.map (·.op))) false (sRunOps (steps.map (·.op)) sInit)
   r.dest == .new .full (some mode) && r.tmp == .absent) &&
  (let r := sRunCleanup cl (closedAfter (steps.map (·.op))) false (sRunOps (steps.map (·.op)) { dest := .absent, tmp := .absent })
   r.dest == .new .full (some mode) && r.tmp == .absent)

/-- decidable: a single failing step is reported, the previous destination is intact, no temp file is left -/
def faultSafe (steps : List Step) (cl : List Cleanup) : Bool :=
  !hasUnknown steps cl &&
  (List.range steps.length).all (fun i => [true, false].all (fun p =>
    let r := sRunFail steps cl i p sInit
    r.reported && r.st.dest == .old && r.st.tmp == .absent))

/-- first crash point (k, partial?) at which the destination is neither old nor complete-new: the
    witness the failure path replays on the real binary -/
def crashWitness (steps : List Step) (mode : Nat) : Option (Nat × Bool) :=
  ((List.range (steps.length + 1)).flatMap (fun k => [(k, false), (k, true)])).find? (fun kp =>
    let d := (sRunCrash steps kp.1 kp.2 sInit).dest
    !(d == .old || d == .new .full (some mode)))

def faultWitness (steps : List Step) (cl : List Cleanup) : Option (Nat × Bool) :=
  ((List.range steps.length).flatMap (fun i => [(i, false), (i, true)])).find? (fun ip =>
    let r := sRunFail steps cl ip.1 ip.2 sInit
    !(r.reported && r.st.dest == .old && r.st.tmp == .absent))

end Inst
