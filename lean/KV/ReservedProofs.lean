import KV.Reserved
import KV.TypeConvProofs
/-! # Reserved names: proofs (`KV/Reserved.lean`)

The converter starts from a table whose `used` side already holds the reserved names.  `InvR` (the relaxed `Inv`) is
kept by `addImport` and by the `TypeToExpr` model, a new import never takes a name that was in `used` before, and the
round trip of `KV/TypeConvProofs.lean` still holds. -/
namespace Imp

/-! ### the starting table -/

theorem lookup_map_mem (names : List String) (r : String) (h : r ∈ names) :
    (names.map (fun n => (n, reservedPath))).lookup r = some reservedPath := by
  induction names with
  | nil => cases h
  | cons a as ih =>
    by_cases hra : r = a
    · subst hra
      simp only [List.map_cons]
      exact lookup_cons_self _ _ _
    · simp only [List.map_cons]
      rw [lookup_cons_ne _ _ _ _ hra]
      rcases List.mem_cons.mp h with e | e
      · exact absurd e hra
      · exact ih e

theorem lookup_map_val (names : List String) (r : String) (p : Nat)
    (h : (names.map (fun n => (n, reservedPath))).lookup r = some p) : p = reservedPath := by
  induction names with
  | nil => simp at h
  | cons a as ih =>
    simp only [List.map_cons] at h
    by_cases hra : r = a
    · subst hra
      rw [lookup_cons_self] at h
      exact (Option.some.inj h).symm
    · rw [lookup_cons_ne _ _ _ _ hra] at h
      exact ih h

theorem invR_withReserved (names : List String) : InvR (TC.withReserved names) := by
  refine ⟨?_, ?_, ?_⟩
  · intro p n h
    simp [TC.withReserved] at h
  · intro n p h hp
    exact absurd (lookup_map_val names n p h) hp
  · simp [TC.withReserved]

/-- `Inv` is the special case without reserved names -/
theorem invR_of_inv {tc : TC} (h : Inv tc) (hr : tc.imports.lookup reservedPath = none) : InvR tc :=
  ⟨h.1, fun n p hl _ => h.2 n p hl, hr⟩

/-! ### `addImport` -/

/-- adding a fresh pair (real path not imported, name not used) keeps `InvR` -/
theorem invR_add {tc : TC} (h : InvR tc) (path : Nat) (n : String) (hpr : path ≠ reservedPath)
    (hp : tc.imports.lookup path = none) (hn : tc.used.lookup n = none) (cs : List (String × Nat)) :
    InvR { imports := (path, n) :: tc.imports, used := (n, path) :: tc.used, counters := cs } := by
  refine ⟨?_, ?_, ?_⟩
  · intro p m hl
    by_cases hpp : p = path
    · subst hpp
      rw [lookup_cons_self] at hl; cases hl
      exact lookup_cons_self _ _ _
    · rw [lookup_cons_ne _ _ _ _ hpp] at hl
      have hu := h.1 p m hl
      have hmn : m ≠ n := by intro e; subst e; rw [hn] at hu; cases hu
      rw [lookup_cons_ne _ _ _ _ hmn]; exact hu
  · intro m p hl hpres
    by_cases hmn : m = n
    · subst hmn
      rw [lookup_cons_self] at hl; cases hl
      exact lookup_cons_self _ _ _
    · rw [lookup_cons_ne _ _ _ _ hmn] at hl
      have hi := h.2.1 m p hl hpres
      have hpp : p ≠ path := by intro e; subst e; rw [hp] at hi; cases hi
      rw [lookup_cons_ne _ _ _ _ hpp]; exact hi
  · show List.lookup reservedPath ((path, n) :: tc.imports) = none
    rw [lookup_cons_ne _ _ _ _ (Ne.symm hpr)]; exact h.2.2

theorem addImport_invR {tc tc' : TC} {p : Nat} {d n : String} (h : InvR tc) (hp : p ≠ reservedPath)
    (ha : addImport tc p d = some (tc', n)) : InvR tc' := by
  unfold addImport at ha
  split at ha
  · cases ha; exact h
  · rename_i hnone
    split at ha
    · split at ha
      · cases ha
      · rename_i k m hf
        cases ha
        exact invR_add h p _ hp hnone (findAlias_unused _ _ _ _ _ _ hf) _
    · rename_i hdes
      cases ha
      exact invR_add h p _ hp hnone hdes tc.counters

/-- a NEW import never takes a name that was already in `used` (in particular not a reserved one) -/
theorem addImport_avoids_used {tc tc' : TC} {p : Nat} {d n : String}
    (ha : addImport tc p d = some (tc', n)) (hnew : tc.imports.lookup p = none) : tc.used.lookup n = none := by
  unfold addImport at ha
  split at ha
  · rename_i m hm
    rw [hnew] at hm; cases hm
  · split at ha
    · split at ha
      · cases ha
      · rename_i k m hf
        cases ha
        exact findAlias_unused _ _ _ _ _ _ hf
    · rename_i hdes
      cases ha
      exact hdes

/-- (no `p ≠ reservedPath` needed: an existing entry is covered by the first clause of `InvR`, a new one is consed on
    both tables) -/
theorem addImport_result_R {tc tc' : TC} {p : Nat} {d n : String} (h : InvR tc)
    (ha : addImport tc p d = some (tc', n)) :
    tc'.imports.lookup p = some n ∧ tc'.used.lookup n = some p := by
  unfold addImport at ha
  split at ha
  · rename_i m hm
    cases ha
    exact ⟨hm, h.1 _ _ hm⟩
  · split at ha
    · split at ha
      · cases ha
      · cases ha
        exact ⟨lookup_cons_self _ _ _, lookup_cons_self _ _ _⟩
    · cases ha
      exact ⟨lookup_cons_self _ _ _, lookup_cons_self _ _ _⟩

/-- every import present after a call was there before or got a name that was not in `used` -/
theorem addImport_fresh {tc tc' : TC} {p : Nat} {d n : String} (ha : addImport tc p d = some (tc', n)) :
    ∀ p' n', tc'.imports.lookup p' = some n' → tc.imports.lookup p' = some n' ∨ tc.used.lookup n' = none := by
  intro p' n' hl
  rcases TConv.addImport_new ha p' n' hl with h1 | h1
  · exact Or.inl h1
  · subst h1
    cases hp : tc.imports.lookup p with
    | none => exact Or.inr (addImport_avoids_used ha hp)
    | some m =>
      have : addImport tc p d = some (tc, m) := by
        unfold addImport; rw [hp]
      rw [this] at ha
      cases ha
      exact Or.inl hl

end Imp

namespace TConv
open Imp

/-! ### types that do not mention the pseudo path -/

/-- the per-node part of `noRes` -/
def tagNoRes : Tag → Bool
  | .named p _ => decide (p ≠ reservedPath)
  | _ => true

mutual
/-- no named node of the type has package `reservedPath` (which is no import path) -/
def noRes : Ty → Bool
  | .node tag kids => tagNoRes tag && noResList kids
def noResList : List Ty → Bool
  | [] => true
  | t :: ts => noRes t && noResList ts
end

/-! ### one node -/

theorem renderTag_invR {cur : Option Nat} {pname : Nat → String} {tc tc1 : TC} {tag : Tag} {etag : ETag}
    (hi : InvR tc) (hnr : tagNoRes tag = true) (h : renderTag cur pname tc tag = some (tc1, etag)) : InvR tc1 := by
  rcases renderTag_cases h with ⟨rfl, _⟩ | ⟨p, name, c, q, rfl, _, _, ha, _⟩
  · exact hi
  · have hp : p ≠ reservedPath := by simpa [tagNoRes] using hnr
    exact addImport_invR hi hp ha

theorem renderTag_roundtrip_R {c : Nat} {pname : Nat → String} {tc tc1 : TC} {tag : Tag} {etag : ETag}
    (hi : InvR tc) (hwf : tagWF tag = true) (h : renderTag (some c) pname tc tag = some (tc1, etag)) :
    resolveTag (some c) tc1 etag = some tag := by
  cases tag with
  | basic n =>
    simp only [renderTag] at h; cases h
    have hn : n < 16 := by simpa [tagWF] using hwf
    simp [resolveTag, hn]
  | named p name =>
    have hn : 16 ≤ name := by simpa [tagWF] using hwf
    have hn' : ¬ name < 16 := by omega
    simp only [renderTag] at h
    split at h
    · rename_i hpc
      cases h
      simp [resolveTag, hn', hpc]
    · split at h
      · cases h
      · rename_i tc' q ha
        cases h
        simp [resolveTag, (addImport_result_R hi ha).2]
  | ifaceLit => simp [tagWF] at hwf
  | _ => simp only [renderTag] at h; cases h; simp [resolveTag]

theorem renderTag_fresh {cur : Option Nat} {pname : Nat → String} {tc tc1 : TC} {tag : Tag} {etag : ETag}
    (h : renderTag cur pname tc tag = some (tc1, etag)) :
    ∀ p n, tc1.imports.lookup p = some n → tc.imports.lookup p = some n ∨ tc.used.lookup n = none := by
  rcases renderTag_cases h with ⟨rfl, _⟩ | ⟨p, name, c, q, _, _, _, ha, _⟩
  · exact fun _ _ h => Or.inl h
  · exact addImport_fresh ha

/-- `used` only grows: a name unused afterwards was unused before -/
theorem unused_of_mono {tc tc1 : TC} (hm : ∀ q p, tc.used.lookup q = some p → tc1.used.lookup q = some p)
    {n : String} (h : tc1.used.lookup n = none) : tc.used.lookup n = none := by
  cases hq : tc.used.lookup n with
  | none => rfl
  | some r => rw [hm n r hq] at h; cases h

/-! ### `InvR` is kept -/

mutual
theorem render_invR {cur : Option Nat} {pname : Nat → String} :
    ∀ (t : Ty) (tc tc' : TC) (e : Ex), InvR tc → noRes t = true → render cur pname tc t = some (tc', e) → InvR tc'
  | .node tag kids, tc, tc', e, hi, hnr, h => by
    obtain ⟨tc1, etag, es, h1, h2, _⟩ := render_node_some h
    simp only [noRes, Bool.and_eq_true] at hnr
    exact renderList_invR kids tc1 tc' es (renderTag_invR hi hnr.1 h1) hnr.2 h2
theorem renderList_invR {cur : Option Nat} {pname : Nat → String} :
    ∀ (ts : List Ty) (tc tc' : TC) (es : List Ex), InvR tc → noResList ts = true →
      renderList cur pname tc ts = some (tc', es) → InvR tc'
  | [], tc, tc', es, hi, _, h => by
    obtain ⟨rfl, _⟩ := renderList_nil_some h
    exact hi
  | t :: ts, tc, tc', es, hi, hnr, h => by
    obtain ⟨tc1, e, es', h1, h2, _⟩ := renderList_cons_some h
    simp only [noResList, Bool.and_eq_true] at hnr
    exact renderList_invR ts tc1 tc' es' (render_invR t tc tc1 e hi hnr.1 h1) hnr.2 h2
end

/-! ### round trip -/

mutual
theorem render_roundtrip_R {c : Nat} {pname : Nat → String} :
    ∀ (t : Ty) (tc tc' : TC) (e : Ex), InvR tc → WF t = true → noRes t = true →
      render (some c) pname tc t = some (tc', e) → resolve (some c) tc' e = some t
  | .node tag kids, tc, tc', e, hi, hwf, hnr, h => by
    obtain ⟨tc1, etag, es, h1, h2, rfl⟩ := render_node_some h
    rw [WF_node, Bool.and_eq_true] at hwf
    simp only [noRes, Bool.and_eq_true] at hnr
    have r1 := renderTag_roundtrip_R hi hwf.1 h1
    have r2 := renderList_roundtrip_R kids tc1 tc' es (renderTag_invR hi hnr.1 h1) hwf.2 hnr.2 h2
    exact resolve_node_of (resolveTag_mono (renderList_mono kids tc1 tc' es h2).1 r1) r2
theorem renderList_roundtrip_R {c : Nat} {pname : Nat → String} :
    ∀ (ts : List Ty) (tc tc' : TC) (es : List Ex), InvR tc → WFList ts = true → noResList ts = true →
      renderList (some c) pname tc ts = some (tc', es) → resolveList (some c) tc' es = some ts
  | [], tc, tc', es, _, _, _, h => by
    obtain ⟨_, rfl⟩ := renderList_nil_some h
    simp only [resolveList]
  | t :: ts, tc, tc', es, hi, hwf, hnr, h => by
    obtain ⟨tc1, e, es', h1, h2, rfl⟩ := renderList_cons_some h
    simp only [WFList, Bool.and_eq_true] at hwf
    simp only [noResList, Bool.and_eq_true] at hnr
    have r1 := render_roundtrip_R t tc tc1 e hi hwf.1 hnr.1 h1
    have r2 := renderList_roundtrip_R ts tc1 tc' es' (render_invR t tc tc1 e hi hnr.1 h1) hwf.2 hnr.2 h2
    exact resolveList_cons_of (resolve_mono (renderList_mono ts tc1 tc' es' h2).1 e t r1) r2
end

/-! ### every import added while spelling a type got a name that was not in `used` before -/

mutual
theorem render_fresh_R {cur : Option Nat} {pname : Nat → String} :
    ∀ (t : Ty) (tc tc' : TC) (e : Ex), render cur pname tc t = some (tc', e) →
      ∀ p n, tc'.imports.lookup p = some n → tc.imports.lookup p = some n ∨ tc.used.lookup n = none
  | .node tag kids, tc, tc', e, h => by
    obtain ⟨tc1, etag, es, h1, h2, _⟩ := render_node_some h
    intro p n hl
    rcases renderList_fresh_R kids tc1 tc' es h2 p n hl with hl1 | hu
    · exact renderTag_fresh h1 p n hl1
    · exact Or.inr (unused_of_mono (renderTag_mono h1).1 hu)
theorem renderList_fresh_R {cur : Option Nat} {pname : Nat → String} :
    ∀ (ts : List Ty) (tc tc' : TC) (es : List Ex), renderList cur pname tc ts = some (tc', es) →
      ∀ p n, tc'.imports.lookup p = some n → tc.imports.lookup p = some n ∨ tc.used.lookup n = none
  | [], tc, tc', es, h => by
    obtain ⟨rfl, _⟩ := renderList_nil_some h
    exact fun _ _ hl => Or.inl hl
  | t :: ts, tc, tc', es, h => by
    obtain ⟨tc1, e, es', h1, h2, _⟩ := renderList_cons_some h
    intro p n hl
    rcases renderList_fresh_R ts tc1 tc' es' h2 p n hl with hl1 | hu
    · exact render_fresh_R t tc tc1 e h1 p n hl1
    · exact Or.inr (unused_of_mono (render_mono t tc tc1 e h1).1 hu)
end

end TConv

#print axioms Imp.lookup_map_mem
#print axioms Imp.invR_withReserved
#print axioms Imp.addImport_invR
#print axioms Imp.addImport_avoids_used
#print axioms Imp.addImport_result_R
#print axioms TConv.render_invR
#print axioms TConv.renderList_invR
#print axioms TConv.render_roundtrip_R
#print axioms TConv.renderList_roundtrip_R
#print axioms TConv.render_fresh_R
#print axioms TConv.renderList_fresh_R
