import KV.TypeConv
/-! # Proofs about the `TypeToExpr` model (`KV/TypeConv.lean`)

`render` is total, keeps the import tables inverse to each other, only ever adds entries, and — for the types of `WF` —
the expression it produces denotes, in the file it is written to, the type it was made from.  Every import it adds is
mentioned by the expression. -/
namespace TConv
open Imp

/-! ### `addImport` -/

theorem addImport_result {tc tc' : TC} {p : Nat} {d n : String} (h : Inv tc)
    (ha : addImport tc p d = some (tc', n)) :
    tc'.imports.lookup p = some n ∧ tc'.used.lookup n = some p := by
  obtain ⟨hi, hl⟩ := addImport_inv h ha
  exact ⟨hl, hi.1 _ _ hl⟩

/-- a `used` entry is never changed (no `Inv` needed: a new entry is only consed for an unused name) -/
theorem addImport_mono_used {tc tc' : TC} {p : Nat} {d n : String}
    (ha : addImport tc p d = some (tc', n)) :
    ∀ q r, tc.used.lookup q = some r → tc'.used.lookup q = some r := by
  unfold addImport at ha
  split at ha
  · cases ha; exact fun _ _ h => h
  · split at ha
    · split at ha
      · cases ha
      · rename_i k m hf
        intro q r hq
        have hu := findAlias_unused _ _ _ _ _ _ hf
        have hne : q ≠ m := by intro e; subst e; rw [hu] at hq; cases hq
        cases ha
        show List.lookup q (_ :: _) = _
        rw [lookup_cons_ne _ _ _ _ hne]; exact hq
    · rename_i hdes
      cases ha
      intro q r hq
      have hne : q ≠ d := by intro e; subst e; rw [hdes] at hq; cases hq
      show List.lookup q (_ :: _) = _
      rw [lookup_cons_ne _ _ _ _ hne]; exact hq

/-- the only import a call can add is the one it returns -/
theorem addImport_new {tc tc' : TC} {p : Nat} {d n : String}
    (ha : addImport tc p d = some (tc', n)) :
    ∀ p' n', tc'.imports.lookup p' = some n' → tc.imports.lookup p' = some n' ∨ n' = n := by
  unfold addImport at ha
  split at ha
  · cases ha; exact fun _ _ h => Or.inl h
  · split at ha
    · split at ha
      · cases ha
      · cases ha
        intro p' n' hl
        dsimp only at hl
        by_cases hp : p' = p
        · subst hp; rw [lookup_cons_self] at hl; exact Or.inr (Option.some.inj hl).symm
        · rw [lookup_cons_ne _ _ _ _ hp] at hl; exact Or.inl hl
    · cases ha
      intro p' n' hl
      dsimp only at hl
      by_cases hp : p' = p
      · subst hp; rw [lookup_cons_self] at hl; exact Or.inr (Option.some.inj hl).symm
      · rw [lookup_cons_ne _ _ _ _ hp] at hl; exact Or.inl hl

/-! ### one node -/

theorem renderTag_total (cur : Option Nat) (pname : Nat → String) (tc : TC) (tag : Tag) :
    renderTag cur pname tc tag ≠ none := by
  cases tag with
  | named p name =>
    simp only [renderTag]
    split
    · simp
    · split
      · simp
      · split
        · rename_i h; exact absurd h (addImport_total _ _ _)
        · simp
  | _ => simp [renderTag]

/-- either the node is stateless and not a selector, or it is a named type of a foreign package -/
theorem renderTag_cases {cur : Option Nat} {pname : Nat → String} {tc tc1 : TC} {tag : Tag} {etag : ETag}
    (h : renderTag cur pname tc tag = some (tc1, etag)) :
    (tc1 = tc ∧ ∀ q n, etag ≠ .sel q n) ∨
    (∃ p name c q, tag = .named p name ∧ cur = some c ∧ p ≠ c ∧
      addImport tc p (pname p) = some (tc1, q) ∧ etag = .sel q name) := by
  cases tag with
  | named p name =>
    simp only [renderTag] at h
    split at h
    · cases h; exact Or.inl ⟨rfl, by intro q n e; cases e⟩
    · rename_i c
      split at h
      · cases h; exact Or.inl ⟨rfl, by intro q n e; cases e⟩
      · rename_i hne
        split at h
        · cases h
        · rename_i tc' q ha
          cases h
          exact Or.inr ⟨p, name, c, q, rfl, rfl, hne, ha, rfl⟩
  | _ =>
    simp only [renderTag] at h
    cases h
    exact Or.inl ⟨rfl, by intro q n e; cases e⟩

theorem renderTag_inv {cur : Option Nat} {pname : Nat → String} {tc tc1 : TC} {tag : Tag} {etag : ETag}
    (hi : Inv tc) (h : renderTag cur pname tc tag = some (tc1, etag)) : Inv tc1 := by
  rcases renderTag_cases h with ⟨rfl, _⟩ | ⟨p, name, c, q, _, _, _, ha, _⟩
  · exact hi
  · exact (addImport_inv hi ha).1

theorem renderTag_mono {cur : Option Nat} {pname : Nat → String} {tc tc1 : TC} {tag : Tag} {etag : ETag}
    (h : renderTag cur pname tc tag = some (tc1, etag)) :
    (∀ q p, tc.used.lookup q = some p → tc1.used.lookup q = some p) ∧
    (∀ p n, tc.imports.lookup p = some n → tc1.imports.lookup p = some n) := by
  rcases renderTag_cases h with ⟨rfl, _⟩ | ⟨p, name, c, q, _, _, _, ha, _⟩
  · exact ⟨fun _ _ h => h, fun _ _ h => h⟩
  · exact ⟨addImport_mono_used ha, fun _ _ hq => addImport_keeps ha hq⟩

theorem renderTag_sel {cur : Option Nat} {pname : Nat → String} {tc tc1 : TC} {tag : Tag} {q : String} {name : Nat}
    (hi : Inv tc) (h : renderTag cur pname tc tag = some (tc1, .sel q name)) : (tc1.used.lookup q).isSome := by
  rcases renderTag_cases h with ⟨_, hns⟩ | ⟨p, name', c, q', _, _, _, ha, he⟩
  · exact absurd rfl (hns q name)
  · cases he
    rw [(addImport_result hi ha).2]; rfl

theorem renderTag_new {cur : Option Nat} {pname : Nat → String} {tc tc1 : TC} {tag : Tag} {etag : ETag}
    (h : renderTag cur pname tc tag = some (tc1, etag)) :
    ∀ p n, tc1.imports.lookup p = some n → tc.imports.lookup p = some n ∨ ∃ name, etag = .sel n name := by
  rcases renderTag_cases h with ⟨rfl, _⟩ | ⟨p, name, c, q, _, _, _, ha, he⟩
  · exact fun _ _ h => Or.inl h
  · intro p' n' hl
    rcases addImport_new ha p' n' hl with h1 | h1
    · exact Or.inl h1
    · subst h1; exact Or.inr ⟨name, he⟩

/-- the per-node part of `WF` -/
def tagWF : Tag → Bool
  | .basic n => decide (n < 16)
  | .named _ name => decide (16 ≤ name)
  | .ifaceLit => false
  | _ => true

theorem WF_node (tag : Tag) (kids : List Ty) : WF (.node tag kids) = (tagWF tag && WFList kids) := by
  cases tag <;> simp [WF, tagWF]

theorem renderTag_roundtrip {c : Nat} {pname : Nat → String} {tc tc1 : TC} {tag : Tag} {etag : ETag}
    (hi : Inv tc) (hwf : tagWF tag = true) (h : renderTag (some c) pname tc tag = some (tc1, etag)) :
    resolveTag (some c) tc1 etag = some tag := by
  cases tag with
  | basic n =>
    simp only [renderTag] at h; cases h
    have hn : n < 16 := by simpa [tagWF] using hwf
    simp [resolveTag, hn]
  | named p name =>
    have hn : 16 ≤ name := by simpa [tagWF] using hwf
    have hn' : ¬ name < 16 := by omega
    simp only [renderTag] at h
    split at h
    · rename_i hpc
      cases h
      simp [resolveTag, hn', hpc]
    · split at h
      · cases h
      · rename_i tc' q ha
        cases h
        simp [resolveTag, (addImport_result hi ha).2]
  | ifaceLit => simp [tagWF] at hwf
  | _ => simp only [renderTag] at h; cases h; simp [resolveTag]

theorem resolveTag_mono {cur : Option Nat} {tc tc'' : TC} {etag : ETag} {tag : Tag}
    (hm : ∀ q p, tc.used.lookup q = some p → tc''.used.lookup q = some p)
    (h : resolveTag cur tc etag = some tag) : resolveTag cur tc'' etag = some tag := by
  cases etag with
  | sel q name =>
    simp only [resolveTag] at h ⊢
    cases hq : tc.used.lookup q with
    | none => rw [hq] at h; cases h
    | some p => rw [hq] at h; rw [hm q p hq]; exact h
  | _ => simp only [resolveTag] at h ⊢; exact h

/-! ### inversion of the recursive definitions -/

theorem render_node_some {cur : Option Nat} {pname : Nat → String} {tc tc' : TC} {tag : Tag} {kids : List Ty} {e : Ex}
    (h : render cur pname tc (.node tag kids) = some (tc', e)) :
    ∃ tc1 etag es, renderTag cur pname tc tag = some (tc1, etag) ∧
      renderList cur pname tc1 kids = some (tc', es) ∧ e = .node etag es := by
  simp only [render] at h
  split at h
  · cases h
  · rename_i tc1 etag h1
    split at h
    · cases h
    · rename_i tc2 es h2
      cases h
      exact ⟨tc1, etag, es, h1, h2, rfl⟩

theorem renderList_nil_some {cur : Option Nat} {pname : Nat → String} {tc tc' : TC} {es : List Ex}
    (h : renderList cur pname tc [] = some (tc', es)) : tc' = tc ∧ es = [] := by
  simp only [renderList] at h
  cases h; exact ⟨rfl, rfl⟩

theorem renderList_cons_some {cur : Option Nat} {pname : Nat → String} {tc tc' : TC} {t : Ty} {ts : List Ty}
    {es : List Ex} (h : renderList cur pname tc (t :: ts) = some (tc', es)) :
    ∃ tc1 e es', render cur pname tc t = some (tc1, e) ∧
      renderList cur pname tc1 ts = some (tc', es') ∧ es = e :: es' := by
  simp only [renderList] at h
  split at h
  · cases h
  · rename_i tc1 e h1
    split at h
    · cases h
    · rename_i tc2 es' h2
      cases h
      exact ⟨tc1, e, es', h1, h2, rfl⟩

theorem resolve_node_some {cur : Option Nat} {tc : TC} {etag : ETag} {es : List Ex} {t : Ty}
    (h : resolve cur tc (.node etag es) = some t) :
    ∃ tag ts, resolveTag cur tc etag = some tag ∧ resolveList cur tc es = some ts ∧ t = .node tag ts := by
  simp only [resolve] at h
  split at h
  · cases h
  · rename_i tag h1
    split at h
    · cases h
    · rename_i ts h2
      cases h
      exact ⟨tag, ts, h1, h2, rfl⟩

theorem resolve_node_of {cur : Option Nat} {tc : TC} {etag : ETag} {es : List Ex} {tag : Tag} {ts : List Ty}
    (h1 : resolveTag cur tc etag = some tag) (h2 : resolveList cur tc es = some ts) :
    resolve cur tc (.node etag es) = some (.node tag ts) := by
  simp only [resolve, h1, h2]

theorem resolveList_cons_some {cur : Option Nat} {tc : TC} {e : Ex} {es : List Ex} {ts : List Ty}
    (h : resolveList cur tc (e :: es) = some ts) :
    ∃ t ts', resolve cur tc e = some t ∧ resolveList cur tc es = some ts' ∧ ts = t :: ts' := by
  simp only [resolveList] at h
  split at h
  · cases h
  · rename_i t h1
    split at h
    · cases h
    · rename_i ts' h2
      cases h
      exact ⟨t, ts', h1, h2, rfl⟩

theorem resolveList_cons_of {cur : Option Nat} {tc : TC} {e : Ex} {es : List Ex} {t : Ty} {ts : List Ty}
    (h1 : resolve cur tc e = some t) (h2 : resolveList cur tc es = some ts) :
    resolveList cur tc (e :: es) = some (t :: ts) := by
  simp only [resolveList, h1, h2]

theorem mem_quals_node {q : String} {etag : ETag} {es : List Ex} (h : q ∈ quals (.node etag es)) :
    (∃ name, etag = .sel q name) ∨ q ∈ qualsList es := by
  cases etag with
  | sel q' name =>
    simp only [quals, List.mem_cons] at h
    rcases h with rfl | h
    · exact Or.inl ⟨name, rfl⟩
    · exact Or.inr h
  | _ => simp only [quals] at h; exact Or.inr h

theorem mem_quals_sel (q : String) (name : Nat) (es : List Ex) : q ∈ quals (.node (.sel q name) es) := by
  simp [quals]

theorem mem_quals_of_list {q : String} (etag : ETag) {es : List Ex} (h : q ∈ qualsList es) :
    q ∈ quals (.node etag es) := by
  cases etag with
  | sel q' name => simp only [quals, List.mem_cons]; exact Or.inr h
  | _ => simp only [quals]; exact h

/-! ### 1. totality -/

mutual
theorem render_total (cur : Option Nat) (pname : Nat → String) :
    ∀ (tc : TC) (t : Ty), render cur pname tc t ≠ none
  | tc, .node tag kids => by
    simp only [render]
    split
    · rename_i h; exact absurd h (renderTag_total cur pname tc tag)
    · rename_i tc1 etag _
      split
      · rename_i h; exact absurd h (renderList_total cur pname tc1 kids)
      · simp
theorem renderList_total (cur : Option Nat) (pname : Nat → String) :
    ∀ (tc : TC) (ts : List Ty), renderList cur pname tc ts ≠ none
  | tc, [] => by simp [renderList]
  | tc, t :: ts => by
    simp only [renderList]
    split
    · rename_i h; exact absurd h (render_total cur pname tc t)
    · rename_i tc1 e _
      split
      · rename_i h; exact absurd h (renderList_total cur pname tc1 ts)
      · simp
end

/-! ### 2. the tables stay inverse -/

mutual
theorem render_inv {cur : Option Nat} {pname : Nat → String} :
    ∀ (t : Ty) (tc tc' : TC) (e : Ex), Inv tc → render cur pname tc t = some (tc', e) → Inv tc'
  | .node tag kids, tc, tc', e, hi, h => by
    obtain ⟨tc1, etag, es, h1, h2, _⟩ := render_node_some h
    exact renderList_inv kids tc1 tc' es (renderTag_inv hi h1) h2
theorem renderList_inv {cur : Option Nat} {pname : Nat → String} :
    ∀ (ts : List Ty) (tc tc' : TC) (es : List Ex), Inv tc → renderList cur pname tc ts = some (tc', es) → Inv tc'
  | [], tc, tc', es, hi, h => by
    obtain ⟨rfl, _⟩ := renderList_nil_some h
    exact hi
  | t :: ts, tc, tc', es, hi, h => by
    obtain ⟨tc1, e, es', h1, h2, _⟩ := renderList_cons_some h
    exact renderList_inv ts tc1 tc' es' (render_inv t tc tc1 e hi h1) h2
end

/-! ### 3. entries are only added (no `Inv` needed) -/

mutual
theorem render_mono {cur : Option Nat} {pname : Nat → String} :
    ∀ (t : Ty) (tc tc' : TC) (e : Ex), render cur pname tc t = some (tc', e) →
      (∀ q p, tc.used.lookup q = some p → tc'.used.lookup q = some p) ∧
      (∀ p n, tc.imports.lookup p = some n → tc'.imports.lookup p = some n)
  | .node tag kids, tc, tc', e, h => by
    obtain ⟨tc1, etag, es, h1, h2, _⟩ := render_node_some h
    obtain ⟨a1, b1⟩ := renderTag_mono h1
    obtain ⟨a2, b2⟩ := renderList_mono kids tc1 tc' es h2
    exact ⟨fun q p hq => a2 q p (a1 q p hq), fun p n hp => b2 p n (b1 p n hp)⟩
theorem renderList_mono {cur : Option Nat} {pname : Nat → String} :
    ∀ (ts : List Ty) (tc tc' : TC) (es : List Ex), renderList cur pname tc ts = some (tc', es) →
      (∀ q p, tc.used.lookup q = some p → tc'.used.lookup q = some p) ∧
      (∀ p n, tc.imports.lookup p = some n → tc'.imports.lookup p = some n)
  | [], tc, tc', es, h => by
    obtain ⟨rfl, _⟩ := renderList_nil_some h
    exact ⟨fun _ _ h => h, fun _ _ h => h⟩
  | t :: ts, tc, tc', es, h => by
    obtain ⟨tc1, e, es', h1, h2, _⟩ := renderList_cons_some h
    obtain ⟨a1, b1⟩ := render_mono t tc tc1 e h1
    obtain ⟨a2, b2⟩ := renderList_mono ts tc1 tc' es' h2
    exact ⟨fun q p hq => a2 q p (a1 q p hq), fun p n hp => b2 p n (b1 p n hp)⟩
end

/-! ### 4. what an expression denotes does not change when the table grows -/

mutual
theorem resolve_mono {cur : Option Nat} {tc tc'' : TC}
    (hm : ∀ q p, tc.used.lookup q = some p → tc''.used.lookup q = some p) :
    ∀ (e : Ex) (t : Ty), resolve cur tc e = some t → resolve cur tc'' e = some t
  | .node etag es, t, h => by
    obtain ⟨tag, ts, h1, h2, rfl⟩ := resolve_node_some h
    exact resolve_node_of (resolveTag_mono hm h1) (resolveList_mono hm es ts h2)
theorem resolveList_mono {cur : Option Nat} {tc tc'' : TC}
    (hm : ∀ q p, tc.used.lookup q = some p → tc''.used.lookup q = some p) :
    ∀ (es : List Ex) (ts : List Ty), resolveList cur tc es = some ts → resolveList cur tc'' es = some ts
  | [], ts, h => by
    simp only [resolveList] at h ⊢; exact h
  | e :: es, ts, h => by
    obtain ⟨t, ts', h1, h2, rfl⟩ := resolveList_cons_some h
    exact resolveList_cons_of (resolve_mono hm e t h1) (resolveList_mono hm es ts' h2)
end

/-! ### 5. round trip -/

mutual
theorem render_roundtrip {c : Nat} {pname : Nat → String} :
    ∀ (t : Ty) (tc tc' : TC) (e : Ex), Inv tc → WF t = true →
      render (some c) pname tc t = some (tc', e) → resolve (some c) tc' e = some t
  | .node tag kids, tc, tc', e, hi, hwf, h => by
    obtain ⟨tc1, etag, es, h1, h2, rfl⟩ := render_node_some h
    rw [WF_node, Bool.and_eq_true] at hwf
    have r1 := renderTag_roundtrip hi hwf.1 h1
    have r2 := renderList_roundtrip kids tc1 tc' es (renderTag_inv hi h1) hwf.2 h2
    exact resolve_node_of (resolveTag_mono (renderList_mono kids tc1 tc' es h2).1 r1) r2
theorem renderList_roundtrip {c : Nat} {pname : Nat → String} :
    ∀ (ts : List Ty) (tc tc' : TC) (es : List Ex), Inv tc → WFList ts = true →
      renderList (some c) pname tc ts = some (tc', es) → resolveList (some c) tc' es = some ts
  | [], tc, tc', es, hi, hwf, h => by
    obtain ⟨_, rfl⟩ := renderList_nil_some h
    simp only [resolveList]
  | t :: ts, tc, tc', es, hi, hwf, h => by
    obtain ⟨tc1, e, es', h1, h2, rfl⟩ := renderList_cons_some h
    simp only [WFList, Bool.and_eq_true] at hwf
    have r1 := render_roundtrip t tc tc1 e hi hwf.1 h1
    have r2 := renderList_roundtrip ts tc1 tc' es' (render_inv t tc tc1 e hi h1) hwf.2 h2
    exact resolveList_cons_of (resolve_mono (renderList_mono ts tc1 tc' es' h2).1 e t r1) r2
end

/-! ### 6. every qualifier is imported -/

theorem isSome_mono {tc tc' : TC} (hm : ∀ q p, tc.used.lookup q = some p → tc'.used.lookup q = some p) {q : String}
    (h : (tc.used.lookup q).isSome) : (tc'.used.lookup q).isSome := by
  cases hq : tc.used.lookup q with
  | none => rw [hq] at h; cases h
  | some p => rw [hm q p hq]; rfl

mutual
theorem render_quals_imported {cur : Option Nat} {pname : Nat → String} :
    ∀ (t : Ty) (tc tc' : TC) (e : Ex), Inv tc → render cur pname tc t = some (tc', e) →
      ∀ q ∈ quals e, (tc'.used.lookup q).isSome
  | .node tag kids, tc, tc', e, hi, h => by
    obtain ⟨tc1, etag, es, h1, h2, rfl⟩ := render_node_some h
    intro q hq
    rcases mem_quals_node hq with ⟨name, rfl⟩ | hq
    · exact isSome_mono (renderList_mono kids tc1 tc' es h2).1 (renderTag_sel hi h1)
    · exact renderList_quals_imported kids tc1 tc' es (renderTag_inv hi h1) h2 q hq
theorem renderList_quals_imported {cur : Option Nat} {pname : Nat → String} :
    ∀ (ts : List Ty) (tc tc' : TC) (es : List Ex), Inv tc → renderList cur pname tc ts = some (tc', es) →
      ∀ q ∈ qualsList es, (tc'.used.lookup q).isSome
  | [], tc, tc', es, hi, h => by
    obtain ⟨_, rfl⟩ := renderList_nil_some h
    intro q hq; simp [qualsList] at hq
  | t :: ts, tc, tc', es, hi, h => by
    obtain ⟨tc1, e, es', h1, h2, rfl⟩ := renderList_cons_some h
    intro q hq
    simp only [qualsList, List.mem_append] at hq
    rcases hq with hq | hq
    · exact isSome_mono (renderList_mono ts tc1 tc' es' h2).1 (render_quals_imported t tc tc1 e hi h1 q hq)
    · exact renderList_quals_imported ts tc1 tc' es' (render_inv t tc tc1 e hi h1) h2 q hq
end

/-! ### 7. every import added while spelling a type is used by it -/

mutual
theorem render_no_unused {cur : Option Nat} {pname : Nat → String} :
    ∀ (t : Ty) (tc tc' : TC) (e : Ex), render cur pname tc t = some (tc', e) →
      ∀ p n, tc'.imports.lookup p = some n → tc.imports.lookup p = some n ∨ n ∈ quals e
  | .node tag kids, tc, tc', e, h => by
    obtain ⟨tc1, etag, es, h1, h2, rfl⟩ := render_node_some h
    intro p n hl
    rcases renderList_no_unused kids tc1 tc' es h2 p n hl with hl1 | hm
    · rcases renderTag_new h1 p n hl1 with hl0 | ⟨name, rfl⟩
      · exact Or.inl hl0
      · exact Or.inr (mem_quals_sel n name es)
    · exact Or.inr (mem_quals_of_list etag hm)
theorem renderList_no_unused {cur : Option Nat} {pname : Nat → String} :
    ∀ (ts : List Ty) (tc tc' : TC) (es : List Ex), renderList cur pname tc ts = some (tc', es) →
      ∀ p n, tc'.imports.lookup p = some n → tc.imports.lookup p = some n ∨ n ∈ qualsList es
  | [], tc, tc', es, h => by
    obtain ⟨rfl, _⟩ := renderList_nil_some h
    exact fun _ _ hl => Or.inl hl
  | t :: ts, tc, tc', es, h => by
    obtain ⟨tc1, e, es', h1, h2, rfl⟩ := renderList_cons_some h
    intro p n hl
    simp only [qualsList, List.mem_append]
    rcases renderList_no_unused ts tc1 tc' es' h2 p n hl with hl1 | hm
    · rcases render_no_unused t tc tc1 e h1 p n hl1 with hl0 | hm
      · exact Or.inl hl0
      · exact Or.inr (Or.inl hm)
    · exact Or.inr (Or.inr hm)
end

/-! ### 8. `WF` is needed: a non-empty interface literal is spelled `any` -/

theorem render_iface_lossy (pname : Nat → String) :
    render (some 0) pname TC.empty (.node .ifaceLit []) = some (TC.empty, .node (.ident anyName) []) ∧
    resolve (some 0) TC.empty (.node (.ident anyName) []) = some (.node (.basic anyName) []) ∧
    (some (Ty.node (.basic anyName) []) ≠ some (Ty.node .ifaceLit [])) := by
  refine ⟨rfl, rfl, ?_⟩
  intro h
  cases h

/-! ### 9. non-vacuity -/

/-- `map[store.N0]func(store_1.N1[store.N0]) int` seen from package 0: packages 1 and 2 both declare the name `store` -/
def exTy : Ty :=
  .node .map [.node (.named 1 16) [],
              .node (.func 1) [.node (.named 2 17) [.node (.named 1 16) []], .node (.basic 0) []]]

example : WF exTy = true := by decide

example : render (some 0) (fun _ => "store") TC.empty exTy =
    some (⟨[(2, "store_1"), (1, "store")], [("store_1", 2), ("store", 1)], [("store", 1)]⟩,
      .node .map [.node (.sel "store" 16) [],
                  .node (.func 1) [.node (.sel "store_1" 17) [.node (.sel "store" 16) []], .node (.ident 0) []]]) := by
  rfl

/-- and the round trip holds for it -/
example : (render (some 0) (fun _ => "store") TC.empty exTy).bind (fun r => resolve (some 0) r.1 r.2) = some exTy := by
  rfl

end TConv

#print axioms TConv.render_total
#print axioms TConv.renderList_total
#print axioms TConv.render_inv
#print axioms TConv.renderList_inv
#print axioms TConv.render_mono
#print axioms TConv.renderList_mono
#print axioms TConv.resolve_mono
#print axioms TConv.resolveList_mono
#print axioms TConv.render_roundtrip
#print axioms TConv.renderList_roundtrip
#print axioms TConv.render_quals_imported
#print axioms TConv.renderList_quals_imported
#print axioms TConv.render_no_unused
#print axioms TConv.renderList_no_unused
#print axioms TConv.render_iface_lossy
