/-! Prototype (scratch): C14 — `TypeConverter.AddImport` keeps path→alias and alias→path mutually inverse,
    so distinct packages never share an alias, over every call sequence. -/
namespace Imp

structure TC where
  imports : List (Nat × String)      -- package path (id) ↦ local name
  used : List (String × Nat)         -- local name ↦ package path
  counters : List (String × Nat)

def alias (base : String) (k : Nat) : String := base ++ "_" ++ toString k

/-- find the first `k ≥ c+1` whose alias is unused (the Go loop has no bound; `fuel` is the model's) -/
def findAlias (used : List (String × Nat)) (base : String) : Nat → Nat → Option (Nat × String)
  | 0, _ => none
  | fuel + 1, c =>
    match used.lookup (alias base (c + 1)) with
    | none => some (c + 1, alias base (c + 1))
    | some _ => findAlias used base fuel (c + 1)

def addImport (tc : TC) (path : Nat) (desired : String) : Option (TC × String) :=
  match tc.imports.lookup path with
  | some n => some (tc, n)
  | none =>
    match tc.used.lookup desired with
    | some _ =>       -- taken by another path (the path itself is not imported yet)
      match findAlias tc.used desired (tc.used.length + 1) ((tc.counters.lookup desired).getD 0) with
      | none => none
      | some (k, n) =>
        some ({ imports := (path, n) :: tc.imports, used := (n, path) :: tc.used,
                counters := (desired, k) :: tc.counters }, n)
    | none =>
      some ({ tc with imports := (path, desired) :: tc.imports, used := (desired, path) :: tc.used }, desired)

/-- the two tables are inverse to each other -/
def Inv (tc : TC) : Prop :=
  (∀ p n, tc.imports.lookup p = some n → tc.used.lookup n = some p) ∧
  (∀ n p, tc.used.lookup n = some p → tc.imports.lookup p = some n)

theorem findAlias_unused (used : List (String × Nat)) (base : String) (fuel c k : Nat) (n : String)
    (h : findAlias used base fuel c = some (k, n)) : used.lookup n = none := by
  induction fuel generalizing c with
  | zero => simp [findAlias] at h
  | succ f ih =>
    simp only [findAlias] at h
    split at h
    · rename_i hn
      cases h; exact hn
    · exact ih (c + 1) h

theorem lookup_cons_ne {α β} [BEq α] [LawfulBEq α] (k k' : α) (v : β) (l : List (α × β)) (h : k ≠ k') :
    ((k', v) :: l).lookup k = l.lookup k := by
  simp only [List.lookup]
  have : (k == k') = false := by simpa using h
  rw [this]

theorem lookup_cons_self {α β} [BEq α] [LawfulBEq α] (k : α) (v : β) (l : List (α × β)) :
    ((k, v) :: l).lookup k = some v := by
  simp [List.lookup]

/-- adding a fresh pair (path not imported, name not used) keeps the tables inverse -/
theorem inv_add {tc : TC} (h : Inv tc) (path : Nat) (n : String) (hp : tc.imports.lookup path = none)
    (hn : tc.used.lookup n = none) (cs : List (String × Nat)) :
    Inv { imports := (path, n) :: tc.imports, used := (n, path) :: tc.used, counters := cs } := by
  constructor
  · intro p m hl
    by_cases hpp : p = path
    · subst hpp
      rw [lookup_cons_self] at hl; cases hl
      exact lookup_cons_self _ _ _
    · rw [lookup_cons_ne _ _ _ _ hpp] at hl
      have hu := h.1 p m hl
      have hmn : m ≠ n := by intro e; subst e; rw [hn] at hu; cases hu
      rw [lookup_cons_ne _ _ _ _ hmn]; exact hu
  · intro m p hl
    by_cases hmn : m = n
    · subst hmn
      rw [lookup_cons_self] at hl; cases hl
      exact lookup_cons_self _ _ _
    · rw [lookup_cons_ne _ _ _ _ hmn] at hl
      have hi := h.2 m p hl
      have hpp : p ≠ path := by intro e; subst e; rw [hp] at hi; cases hi
      rw [lookup_cons_ne _ _ _ _ hpp]; exact hi

theorem addImport_inv {tc tc' : TC} {path : Nat} {desired n : String} (h : Inv tc)
    (ha : addImport tc path desired = some (tc', n)) : Inv tc' ∧ tc'.imports.lookup path = some n := by
  unfold addImport at ha
  split at ha
  · rename_i m hm
    cases ha; exact ⟨h, hm⟩
  · rename_i hnone
    split at ha
    · split at ha
      · cases ha
      · rename_i k m hf
        cases ha
        exact ⟨inv_add h path _ hnone (findAlias_unused _ _ _ _ _ _ hf) _, lookup_cons_self _ _ _⟩
    · rename_i hdes
      cases ha
      exact ⟨inv_add h path _ hnone hdes tc.counters, lookup_cons_self _ _ _⟩

/-- **C14, alias consistency (prototype)**: whatever the sequence of `AddImport` calls, two different package
    paths never get the same local name. -/
theorem alias_injective {tc : TC} (h : Inv tc) {p q : Nat} {n : String}
    (hp : tc.imports.lookup p = some n) (hq : tc.imports.lookup q = some n) : p = q := by
  have h1 := h.1 p n hp
  have h2 := h.1 q n hq
  rw [h1] at h2; exact Option.some.inj h2

end Imp
