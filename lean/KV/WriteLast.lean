import KV.Generated.Orders
/-! C14 helper: a call list in which the file write is the last call and every earlier call returns its
    error never starts the write when an earlier call fails. -/
namespace Imp

/-- run a call list in which call number `failAt` fails: the names of the calls that were started, and
    whether an error is reported.  A failing call with `errReturns = true` stops the run (its name IS in
    the started list, later ones are not) and sets the error flag; a failing call whose error is not
    returned is ignored. -/
def runCalls : List Gen.CallFact → Option Nat → List String × Bool
  | [], _ => ([], false)
  | c :: cs, some 0 =>
    if c.errReturns then ([c.name], true)
    else (c.name :: (runCalls cs none).1, (runCalls cs none).2)
  | c :: cs, some (i + 1) => (c.name :: (runCalls cs (some i)).1, (runCalls cs (some i)).2)
  | c :: cs, none => (c.name :: (runCalls cs none).1, (runCalls cs none).2)

/-- every call returns its error (`errReturns`) and `w` occurs exactly once, as the last call -/
def WriteLast : List Gen.CallFact → String → Bool
  | [], _ => false
  | [c], w => c.errReturns && c.name == w
  | c :: c' :: cs, w => c.errReturns && c.name != w && WriteLast (c' :: cs) w

theorem writeLast_sound_aux (cs : List Gen.CallFact) (w : String) (h : WriteLast cs w = true) (i : Nat)
    (hi : i + 1 < cs.length) : w ∉ (runCalls cs (some i)).1 ∧ (runCalls cs (some i)).2 = true := by
  induction cs generalizing i with
  | nil => simp at hi
  | cons c rest ih =>
    cases rest with
    | nil => simp at hi
    | cons c' cs =>
      simp only [WriteLast, Bool.and_eq_true, bne_iff_ne, ne_eq] at h
      obtain ⟨⟨he, hne⟩, hrest⟩ := h
      cases i with
      | zero =>
        simp only [runCalls, he, ↓reduceIte, List.mem_singleton, and_true]
        exact fun e => hne e.symm
      | succ j =>
        obtain ⟨h1, h2⟩ := ih hrest j (by simpa using hi)
        simp only [runCalls, List.mem_cons, not_or]
        exact ⟨⟨fun e => hne e.symm, h1⟩, h2⟩

/-- if an earlier call fails, the write `w` is never started and an error is reported -/
theorem writeLast_sound {cs : List Gen.CallFact} {w : String} (h : WriteLast cs w = true) :
    ∀ i, i + 1 < cs.length → let r := runCalls cs (some i); w ∉ r.1 ∧ r.2 = true :=
  fun i hi => writeLast_sound_aux cs w h i hi

/-- with no failure every call is started, in order, and no error is reported -/
theorem runCalls_none (cs : List Gen.CallFact) : runCalls cs none = (cs.map (·.name), false) := by
  induction cs with
  | nil => rfl
  | cons c cs ih => simp only [runCalls, ih, List.map_cons]

/-- the last call of a `WriteLast` list is `w` -/
theorem writeLast_last {cs : List Gen.CallFact} {w : String} (h : WriteLast cs w = true) :
    cs.getLast?.map (·.name) = some w := by
  induction cs with
  | nil => simp [WriteLast] at h
  | cons c rest ih =>
    cases rest with
    | nil =>
      simp only [WriteLast, Bool.and_eq_true, beq_iff_eq] at h
      simp [h.2]
    | cons c' cs =>
      simp only [WriteLast, Bool.and_eq_true] at h
      rw [List.getLast?_cons_cons]
      exact ih h.2

end Imp
