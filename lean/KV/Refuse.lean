import KV.PlanLemmas
import KV.Acyclic
import KV.Top
import KV.Prov
/-! # C09 — the three refusal causes are refused by the planner model; accepted graphs are acyclic -/
namespace KV

/-! ## supplier-map bookkeeping -/

/-- existing bindings are never changed -/
def Persist (m m' : SupMap) : Prop := ∀ t v, m.lookup t = some v → m'.lookup t = some v

theorem Persist.refl (m : SupMap) : Persist m m := fun _ _ h => h

theorem Persist.trans {a b c : SupMap} (h1 : Persist a b) (h2 : Persist b c) : Persist a c :=
  fun t v h => h2 t v (h1 t v h)

theorem persist_snoc (m : SupMap) (k : Nat) (v : Nat × Nat) : Persist m (m ++ [(k, v)]) :=
  fun t x h => lookup_snoc_old m k t v x h

theorem lookup_snoc_none {β} (l : List (Nat × β)) (k q : Nat) (v : β) (h : l.lookup q = none) (hne : q ≠ k) :
    (l ++ [(k, v)]).lookup q = none := by
  rw [List.lookup_append, h]
  have : (q == k) = false := by simpa using hne
  simp [List.lookup, this]

theorem lookup_snoc_none_inv {β} (l : List (Nat × β)) (k q : Nat) (v : β) (h : (l ++ [(k, v)]).lookup q = none) :
    l.lookup q = none ∧ q ≠ k := by
  rw [List.lookup_append] at h
  cases hl : l.lookup q with
  | some y => rw [hl] at h; simp at h
  | none =>
    refine ⟨rfl, ?_⟩
    intro hqk
    subst hqk
    rw [hl] at h
    simp [List.lookup] at h

/-! ## pass 1 -/

theorem pass1Types_err {pi gi : Nat} (ts : List Nat) {m : SupMap} {e : PlanErr}
    (h : pass1Types pi gi ts m = .error e) : ∃ t, t ∈ ts ∧ e = .dup t := by
  induction ts generalizing m with
  | nil => simp [pass1Types, pure, Except.pure] at h
  | cons t ts ih =>
    simp only [pass1Types] at h
    split at h
    · split at h
      · cases h; exact ⟨t, List.mem_cons_self .., rfl⟩
      · obtain ⟨t', ht', he⟩ := ih h; exact ⟨t', List.mem_cons_of_mem _ ht', he⟩
    · obtain ⟨t', ht', he⟩ := ih h; exact ⟨t', List.mem_cons_of_mem _ ht', he⟩

theorem pass1Types_spec {pi gi : Nat} (ts : List Nat) {m m' : SupMap}
    (h : pass1Types pi gi ts m = .ok m') :
    Persist m m' ∧ (∀ t ∈ ts, ∃ g, m'.lookup t = some (pi, g)) ∧
    (∀ t, t ∉ ts → m.lookup t = none → m'.lookup t = none) := by
  induction ts generalizing m with
  | nil =>
    simp [pass1Types, pure, Except.pure] at h; subst h
    refine ⟨Persist.refl _, ?_, fun _ _ h => h⟩
    intro t ht; cases ht
  | cons t ts ih =>
    simp only [pass1Types] at h
    split at h
    · rename_i p g hl
      split at h
      · cases h
      · rename_i hp
        have hp' : p = pi := by
          apply Classical.byContradiction; intro hc; exact hp hc
        subst hp'
        obtain ⟨h1, h2, h3⟩ := ih h
        refine ⟨h1, ?_, ?_⟩
        · intro t' ht'
          rcases List.mem_cons.mp ht' with rfl | ht'
          · exact ⟨g, h1 _ _ hl⟩
          · exact h2 t' ht'
        · intro t' ht' hn
          exact h3 t' (fun hc => ht' (List.mem_cons_of_mem _ hc)) hn
    · rename_i hl
      obtain ⟨h1, h2, h3⟩ := ih h
      refine ⟨(persist_snoc _ _ _).trans h1, ?_, ?_⟩
      · intro t' ht'
        rcases List.mem_cons.mp ht' with rfl | ht'
        · exact ⟨gi, h1 _ _ (lookup_snoc_new _ _ _ hl)⟩
        · exact h2 t' ht'
      · intro t' ht' hn
        apply h3 t' (fun hc => ht' (List.mem_cons_of_mem _ hc))
        exact lookup_snoc_none _ _ _ _ hn (fun hc => ht' (by rw [hc]; exact List.mem_cons_self ..))

theorem pass1Groups_err {pi : Nat} (gs : List (List Nat)) {gi : Nat} {m : SupMap} {e : PlanErr}
    (h : pass1Groups pi gi gs m = .error e) : ∃ t, (∃ g ∈ gs, t ∈ g) ∧ e = .dup t := by
  induction gs generalizing gi m with
  | nil => simp [pass1Groups, pure, Except.pure] at h
  | cons g gs ih =>
    simp only [pass1Groups, bind, Except.bind] at h
    split at h
    · rename_i e' h1
      cases h
      obtain ⟨t, ht, he⟩ := pass1Types_err g h1
      exact ⟨t, ⟨g, List.mem_cons_self .., ht⟩, he⟩
    · obtain ⟨t, ⟨g', hg', ht⟩, he⟩ := ih h
      exact ⟨t, ⟨g', List.mem_cons_of_mem _ hg', ht⟩, he⟩

theorem pass1Groups_spec {pi : Nat} (gs : List (List Nat)) {gi : Nat} {m m' : SupMap}
    (h : pass1Groups pi gi gs m = .ok m') :
    Persist m m' ∧ (∀ g ∈ gs, ∀ t ∈ g, ∃ k, m'.lookup t = some (pi, k)) ∧
    (∀ t, (∀ g ∈ gs, t ∉ g) → m.lookup t = none → m'.lookup t = none) := by
  induction gs generalizing gi m with
  | nil =>
    simp [pass1Groups, pure, Except.pure] at h; subst h
    refine ⟨Persist.refl _, ?_, fun _ _ h => h⟩
    intro g hg; cases hg
  | cons g gs ih =>
    simp only [pass1Groups, bind, Except.bind] at h
    split at h
    · cases h
    · rename_i m1 h1
      obtain ⟨a1, a2, a3⟩ := pass1Types_spec g h1
      obtain ⟨b1, b2, b3⟩ := ih h
      refine ⟨a1.trans b1, ?_, ?_⟩
      · intro g' hg' t ht
        rcases List.mem_cons.mp hg' with rfl | hg'
        · obtain ⟨k, hk⟩ := a2 t ht
          exact ⟨k, b1 _ _ hk⟩
        · exact b2 g' hg' t ht
      · intro t ht hn
        exact b3 t (fun g' hg' => ht g' (List.mem_cons_of_mem _ hg')) (a3 t (ht g (List.mem_cons_self ..)) hn)

/-- type key `t` is listed (as a result type or a bound interface) by provider `q` -/
def Lists (q : PSpec) (t : Nat) : Prop := ∃ g ∈ q.provides, t ∈ g

theorem pass1_err (ps : List PSpec) {pi : Nat} {m : SupMap} {e : PlanErr}
    (h : pass1 pi ps m = .error e) : ∃ t, e = .dup t := by
  induction ps generalizing pi m with
  | nil => simp [pass1, pure, Except.pure] at h
  | cons p ps ih =>
    simp only [pass1] at h
    split at h
    · exact ih h
    · simp only [bind, Except.bind] at h
      split at h
      · rename_i e' h1
        cases h
        obtain ⟨t, _, he⟩ := pass1Groups_err _ h1
        exact ⟨t, he⟩
      · exact ih h

theorem pass1_spec (ps : List PSpec) {pi : Nat} {m m' : SupMap} (h : pass1 pi ps m = .ok m') :
    Persist m m' ∧
    (∀ k q, ps[k]? = some q → q.kind ≠ 1 → ∀ t, Lists q t → ∃ gi, m'.lookup t = some (pi + k, gi)) ∧
    (∀ t, (∀ q ∈ ps, q.kind ≠ 1 → ¬ Lists q t) → m.lookup t = none → m'.lookup t = none) := by
  induction ps generalizing pi m with
  | nil =>
    simp [pass1, pure, Except.pure] at h; subst h
    refine ⟨Persist.refl _, ?_, fun _ _ h => h⟩
    intro k q hk; simp at hk
  | cons p ps ih =>
    simp only [pass1] at h
    split at h
    · rename_i hk1
      obtain ⟨b1, b2, b3⟩ := ih h
      refine ⟨b1, ?_, ?_⟩
      · intro k q hk hq t ht
        cases k with
        | zero =>
          simp at hk; subst hk
          exact absurd (by simpa using hk1) hq
        | succ k =>
          simp at hk
          obtain ⟨gi, hgi⟩ := b2 k q hk hq t ht
          exact ⟨gi, by rw [hgi]; congr 2; omega⟩
      · intro t ht hn
        exact b3 t (fun q hq => ht q (List.mem_cons_of_mem _ hq)) hn
    · rename_i hk1
      simp only [bind, Except.bind] at h
      split at h
      · cases h
      · rename_i m1 h1
        obtain ⟨a1, a2, a3⟩ := pass1Groups_spec _ h1
        obtain ⟨b1, b2, b3⟩ := ih h
        refine ⟨a1.trans b1, ?_, ?_⟩
        · intro k q hk hq t ht
          cases k with
          | zero =>
            simp at hk; subst hk
            obtain ⟨g, hg, htg⟩ := ht
            obtain ⟨gi, hgi⟩ := a2 g hg t htg
            exact ⟨gi, b1 _ _ hgi⟩
          | succ k =>
            simp at hk
            obtain ⟨gi, hgi⟩ := b2 k q hk hq t ht
            exact ⟨gi, by rw [hgi]; congr 2; omega⟩
        · intro t ht hn
          apply b3 t (fun q hq => ht q (List.mem_cons_of_mem _ hq))
          apply a3 t _ hn
          intro g hg htg
          exact ht p (List.mem_cons_self ..) (by simpa using hk1) ⟨g, hg, htg⟩

/-! ## `newGraph2` propagates the errors of pass 1 and pass 2 -/

theorem newGraph2_pass1_err {provs : List PSpec} {e : PlanErr} (ret : Nat)
    (h : pass1 0 provs [] = .error e) : newGraph2 provs ret = .error e := by
  simp only [newGraph2, bind, Except.bind, h]

theorem newGraph2_pass2_err {provs : List PSpec} {sup1 : SupMap} {e : PlanErr} (ret : Nat)
    (h1 : pass1 0 provs [] = .ok sup1)
    (h2 : pass2 (provs.filter (·.kind == 1)) provs sup1 = .error e) : newGraph2 provs ret = .error e := by
  simp only [newGraph2, bind, Except.bind, h1, h2]

/-! ## 1. two function providers supplying the same type -/

/-- **C09 (duplicate providers)**: two different function providers (declaration indices `i ≠ j`, neither a
    struct expansion) that both list type key `t` — as a result type or a bound interface — are refused with a
    `dup` error, whatever is requested. -/
theorem dup_refused {provs : List PSpec} {i j : Nat} {pi pj : PSpec} {t : Nat} (ret : Nat)
    (hij : i ≠ j) (hi : provs[i]? = some pi) (hj : provs[j]? = some pj)
    (hki : pi.kind ≠ 1) (hkj : pj.kind ≠ 1) (hti : Lists pi t) (htj : Lists pj t) :
    ∃ t', newGraph2 provs ret = .error (.dup t') := by
  cases h : pass1 0 provs [] with
  | error e =>
    obtain ⟨t', he⟩ := pass1_err provs h
    exact ⟨t', by rw [newGraph2_pass1_err ret h, he]⟩
  | ok m' =>
    obtain ⟨_, h2, _⟩ := pass1_spec provs h
    obtain ⟨g1, hg1⟩ := h2 i pi hi hki t hti
    obtain ⟨g2, hg2⟩ := h2 j pj hj hkj t htj
    rw [hg1] at hg2
    simp only [Nat.zero_add, Option.some.injEq, Prod.mk.injEq] at hg2
    exact absurd hg2.1 hij

/-! ## pass 2: struct expansion -/

/-- field types of a struct provider -/
def fieldTys (sp : PSpec) : List Nat := sp.fields.map (·.2)

/-- all field types expanded by a list of struct providers (in list order; the repaired planner may expand in
    another order, which only permutes this list) -/
def allFieldTys (sps : List PSpec) : List Nat := sps.flatMap fieldTys

theorem allFieldTys_cons (sp : PSpec) (sps : List PSpec) :
    allFieldTys (sp :: sps) = fieldTys sp ++ allFieldTys sps := by
  simp [allFieldTys]

theorem expandFields_err {sty decl : Nat} (fs : List (String × Nat)) {provs : List PSpec} {m : SupMap} {e : PlanErr}
    (h : expandFields sty decl fs provs m = .error e) : ∃ t, t ∈ fs.map (·.2) ∧ e = .dup t := by
  induction fs generalizing provs m with
  | nil => simp [expandFields, pure, Except.pure] at h
  | cons f fs ih =>
    obtain ⟨fname, fty⟩ := f
    simp only [expandFields] at h
    split at h
    · cases h; exact ⟨fty, by simp, rfl⟩
    · obtain ⟨t, ht, he⟩ := ih h
      exact ⟨t, by simp only [List.map_cons, List.mem_cons]; exact Or.inr ht, he⟩

theorem expandFields_spec {sty decl : Nat} (fs : List (String × Nat)) {provs provs' : List PSpec} {m m' : SupMap}
    (h : expandFields sty decl fs provs m = .ok (provs', m')) :
    Persist m m' ∧ (fs.map (·.2)).Nodup ∧ (∀ t ∈ fs.map (·.2), m.lookup t = none) ∧
    (∀ t, m'.lookup t = none ↔ (m.lookup t = none ∧ t ∉ fs.map (·.2))) := by
  induction fs generalizing provs m with
  | nil =>
    simp [expandFields, pure, Except.pure] at h
    obtain ⟨_, rfl⟩ := h
    refine ⟨Persist.refl _, List.nodup_nil, ?_, ?_⟩
    · intro t ht; cases ht
    · intro t; simp
  | cons f fs ih =>
    obtain ⟨fname, fty⟩ := f
    simp only [expandFields] at h
    split at h
    · cases h
    · rename_i hl
      obtain ⟨a1, a2, a3, a4⟩ := ih h
      have hnot : fty ∉ fs.map (·.2) := by
        intro hc
        exact (lookup_snoc_none_inv _ _ _ _ (a3 fty hc)).2 rfl
      refine ⟨(persist_snoc _ _ _).trans a1, ?_, ?_, ?_⟩
      · simp only [List.map_cons]
        exact List.nodup_cons.mpr ⟨hnot, a2⟩
      · intro t ht
        simp only [List.map_cons, List.mem_cons] at ht
        rcases ht with rfl | ht
        · exact hl
        · exact (lookup_snoc_none_inv _ _ _ _ (a3 t ht)).1
      · intro t
        rw [a4 t]
        simp only [List.map_cons, List.mem_cons, not_or]
        constructor
        · rintro ⟨h1, h2⟩
          obtain ⟨h3, h4⟩ := lookup_snoc_none_inv _ _ _ _ h1
          exact ⟨h3, h4, h2⟩
        · rintro ⟨h1, h2, h3⟩
          exact ⟨lookup_snoc_none _ _ _ _ h1 h2, h3⟩

/-- the ordered expansion (`pass2Ordered`, the planner before the repair) fails only with `dup`, or with `orphan`
    for a struct whose type is supplied by nobody at the time it is expanded: not in the incoming supplier map and not a field of an earlier expanded struct -/
theorem pass2Ordered_err (sps : List PSpec) {provs : List PSpec} {m : SupMap} {e : PlanErr}
    (h : pass2Ordered sps provs m = .error e) :
    (∃ t, t ∈ allFieldTys sps ∧ e = .dup t) ∨
    (∃ pre sp post, sps = pre ++ sp :: post ∧ e = .orphan sp.structTy ∧ m.lookup sp.structTy = none ∧
      sp.structTy ∉ allFieldTys pre) := by
  induction sps generalizing provs m with
  | nil => simp [pass2Ordered, pure, Except.pure] at h
  | cons sp sps ih =>
    simp only [pass2Ordered] at h
    split at h
    · rename_i hl
      cases h
      exact Or.inr ⟨[], sp, sps, rfl, rfl, hl, by simp [allFieldTys]⟩
    · simp only [bind, Except.bind] at h
      split at h
      · rename_i e' h1
        cases h
        obtain ⟨t, ht, he⟩ := expandFields_err _ h1
        exact Or.inl ⟨t, by rw [allFieldTys_cons]; exact List.mem_append_left _ ht, he⟩
      · rename_i r h1
        obtain ⟨provs1, m1⟩ := r
        obtain ⟨_, _, _, a4⟩ := expandFields_spec _ h1
        rcases ih h with ⟨t, ht, he⟩ | ⟨pre, sp', post, hs, he, hn, hnp⟩
        · exact Or.inl ⟨t, by rw [allFieldTys_cons]; exact List.mem_append_right _ ht, he⟩
        · obtain ⟨hn1, hn2⟩ := (a4 _).mp hn
          refine Or.inr ⟨sp :: pre, sp', post, by rw [hs]; rfl, he, hn1, ?_⟩
          rw [allFieldTys_cons]
          intro hc
          rcases List.mem_append.mp hc with hc | hc
          · exact hn2 hc
          · exact hnp hc

theorem pass2Ordered_spec (sps : List PSpec) {provs provs' : List PSpec} {m m' : SupMap}
    (h : pass2Ordered sps provs m = .ok (provs', m')) :
    Persist m m' ∧ (allFieldTys sps).Nodup ∧ (∀ t ∈ allFieldTys sps, m.lookup t = none) ∧
    (∀ t, m'.lookup t = none ↔ (m.lookup t = none ∧ t ∉ allFieldTys sps)) := by
  induction sps generalizing provs m with
  | nil =>
    simp [pass2Ordered, pure, Except.pure] at h
    obtain ⟨_, rfl⟩ := h
    refine ⟨Persist.refl _, List.nodup_nil, ?_, ?_⟩
    · intro t ht; cases ht
    · intro t; simp [allFieldTys]
  | cons sp sps ih =>
    simp only [pass2Ordered] at h
    split at h
    · cases h
    · simp only [bind, Except.bind] at h
      split at h
      · cases h
      · rename_i r h1
        obtain ⟨provs1, m1⟩ := r
        obtain ⟨a1, a2, a3, a4⟩ := expandFields_spec _ h1
        obtain ⟨b1, b2, b3, b4⟩ := ih h
        rw [allFieldTys_cons]
        refine ⟨a1.trans b1, ?_, ?_, ?_⟩
        · refine List.nodup_append.mpr ⟨a2, b2, ?_⟩
          intro x hx y hy hxy
          subst hxy
          exact ((a4 x).mp (b3 x hy)).2 hx
        · intro t ht
          rcases List.mem_append.mp ht with ht | ht
          · exact a3 t ht
          · exact ((a4 t).mp (b3 t ht)).1
        · intro t
          rw [b4 t, a4 t]
          simp only [List.mem_append, not_or]
          constructor
          · rintro ⟨⟨h1, h2⟩, h3⟩; exact ⟨h1, h2, h3⟩
          · rintro ⟨h1, h2, h3⟩; exact ⟨⟨h1, h2⟩, h3⟩

/-! ### the repaired pass 2 (rounds): reduction to the ordered expansion of a reordering (`KV/StructRounds.lean`) -/

theorem allFieldTys_append (a b : List PSpec) : allFieldTys (a ++ b) = allFieldTys a ++ allFieldTys b := by
  simp [allFieldTys]

theorem allFieldTys_perm {a b : List PSpec} (h : a.Perm b) : (allFieldTys a).Perm (allFieldTys b) :=
  List.Perm.flatMap_right fieldTys h

theorem pass2_spec (sps : List PSpec) {provs provs' : List PSpec} {m m' : SupMap}
    (h : pass2 sps provs m = .ok (provs', m')) :
    Persist m m' ∧ (allFieldTys sps).Nodup ∧ (∀ t ∈ allFieldTys sps, m.lookup t = none) ∧
    (∀ t, m'.lookup t = none ↔ (m.lookup t = none ∧ t ∉ allFieldTys sps)) := by
  obtain ⟨sps', hp, ho⟩ := pass2_ok_ordered h
  obtain ⟨a1, a2, a3, a4⟩ := pass2Ordered_spec sps' ho
  have hperm := allFieldTys_perm hp
  refine ⟨a1, hperm.nodup_iff.mp a2, fun t ht => a3 t (hperm.mem_iff.mpr ht), ?_⟩
  intro t
  rw [a4 t, hperm.mem_iff]

/-- type key `t` eventually gets a supplier during struct expansion — an order-independent notion: it has one in
    the incoming supplier map `m`, or it is a field type of a struct provider of `sps` whose own struct type
    eventually gets a supplier -/
inductive Avail (m : SupMap) (sps : List PSpec) : Nat → Prop
  | base {t : Nat} (h : m.lookup t ≠ none) : Avail m sps t
  | field {t : Nat} (sp : PSpec) (hsp : sp ∈ sps) (hs : Avail m sps sp.structTy) (ht : t ∈ fieldTys sp) : Avail m sps t

theorem Avail.mono {m : SupMap} {sps sps' : List PSpec} {t : Nat} (hsub : ∀ sp ∈ sps, sp ∈ sps')
    (h : Avail m sps t) : Avail m sps' t := by
  induction h with
  | base h => exact .base h
  | field sp hsp _ ht ih => exact .field sp (hsub sp hsp) ih ht

theorem lookup_none_of_not_avail {m : SupMap} {sps : List PSpec} {t : Nat} (h : ¬ Avail m sps t) : m.lookup t = none := by
  cases hl : m.lookup t with
  | none => rfl
  | some v => exact absurd (Avail.base (by rw [hl]; intro hc; cases hc)) h

theorem pass2Ordered_avail (sps : List PSpec) {provs provs' : List PSpec} {m m' : SupMap}
    (h : pass2Ordered sps provs m = .ok (provs', m')) : ∀ sp ∈ sps, Avail m sps sp.structTy := by
  induction sps generalizing provs m with
  | nil => intro sp hsp; cases hsp
  | cons sp0 sps ih =>
    simp only [pass2Ordered] at h
    split at h
    · cases h
    · rename_i v hl
      simp only [bind, Except.bind] at h
      split at h
      · cases h
      · rename_i r h1
        obtain ⟨provs1, m1⟩ := r
        obtain ⟨_, _, _, a4⟩ := expandFields_spec _ h1
        have h0 : Avail m (sp0 :: sps) sp0.structTy := .base (by rw [hl]; intro hc; cases hc)
        have lift : ∀ t, Avail m1 sps t → Avail m (sp0 :: sps) t := by
          intro t ht
          induction ht with
          | @base t hb =>
            by_cases hm : m.lookup t = none
            · by_cases hf : t ∈ fieldTys sp0
              · exact .field sp0 (List.mem_cons_self ..) h0 hf
              · exact absurd ((a4 t).mpr ⟨hm, hf⟩) hb
            · exact .base hm
          | field sp hsp _ ht ih => exact .field sp (List.mem_cons_of_mem _ hsp) ih ht
        intro sp hsp
        rcases List.mem_cons.mp hsp with rfl | hsp'
        · exact h0
        · exact lift _ (ih h sp hsp')

/-- in an accepted expansion every struct type eventually gets a supplier -/
theorem pass2_avail (sps : List PSpec) {provs provs' : List PSpec} {m m' : SupMap}
    (h : pass2 sps provs m = .ok (provs', m')) : ∀ sp ∈ sps, Avail m sps sp.structTy := by
  obtain ⟨sps', hp, ho⟩ := pass2_ok_ordered h
  intro sp hsp
  exact (pass2Ordered_avail sps' ho sp (hp.mem_iff.mpr hsp)).mono (fun x hx => hp.mem_iff.mp hx)

/-- after the ordered expansion of `ord`, if no remaining provider (`pend`) has a supplier for its struct type,
    every type key that eventually gets a supplier has got one -/
theorem avail_supplied {sps ord pend provs provs' : List PSpec} {m m' : SupMap} (hp : (ord ++ pend).Perm sps)
    (ho : pass2Ordered ord provs m = .ok (provs', m')) (hn : ∀ sp ∈ pend, m'.lookup sp.structTy = none)
    {t : Nat} (h : Avail m sps t) : m'.lookup t ≠ none := by
  obtain ⟨a1, _, _, a4⟩ := pass2Ordered_spec ord ho
  induction h with
  | @base t hb =>
    cases hm : m.lookup t with
    | none => exact absurd hm hb
    | some v => rw [a1 _ _ hm]; intro hc; cases hc
  | @field t sp hsp _ ht ih =>
    have hmem : sp ∈ ord ++ pend := hp.mem_iff.mpr hsp
    rcases List.mem_append.mp hmem with ho' | hpe
    · intro hc
      exact ((a4 t).mp hc).2 (List.mem_flatMap.mpr ⟨sp, ho', ht⟩)
    · exact absurd (hn sp hpe) ih

/-- the repaired pass 2 fails only with `dup`, or with `orphan` for a struct provider whose struct type *never*
    gets a supplier: not in the incoming supplier map and not a field of a struct provider that can be expanded
    (in whatever order) -/
theorem pass2_err (sps : List PSpec) {provs : List PSpec} {m : SupMap} {e : PlanErr}
    (h : pass2 sps provs m = .error e) :
    (∃ t, t ∈ allFieldTys sps ∧ e = .dup t) ∨
    (∃ sp ∈ sps, e = .orphan sp.structTy ∧ ¬ Avail m sps sp.structTy) := by
  obtain ⟨ord, pend, hp, hc⟩ := pass2_err_cases h
  rcases hc with ⟨ho, t, ht⟩ | ⟨r, sp, ho, hsp, hn, he⟩
  · left
    rcases pass2Ordered_err ord ho with ⟨t', ht', he⟩ | ⟨_, sp, _, _, he, _, _⟩
    · refine ⟨t', ?_, he⟩
      apply (allFieldTys_perm hp).mem_iff.mp
      rw [allFieldTys_append]; exact List.mem_append_left _ ht'
    · rw [ht] at he; cases he
  · right
    obtain ⟨provs', m'⟩ := r
    refine ⟨sp, hp.mem_iff.mp (List.mem_append_right _ hsp), he, ?_⟩
    intro hav
    exact avail_supplied hp ho hn hav (hn sp hsp)

/-! ## list helpers -/

theorem nodup_getElem?_inj {α} {l : List α} (hnd : l.Nodup) {a b : Nat} {x : α}
    (ha : l[a]? = some x) (hb : l[b]? = some x) : a = b := by
  induction l generalizing a b with
  | nil => simp at ha
  | cons y ys ih =>
    obtain ⟨hy, hys⟩ := List.nodup_cons.mp hnd
    cases a with
    | zero =>
      cases b with
      | zero => rfl
      | succ b =>
        simp at ha hb
        subst ha
        exact absurd (List.mem_of_getElem? hb) hy
    | succ a =>
      cases b with
      | zero =>
        simp at ha hb
        subst hb
        exact absurd (List.mem_of_getElem? ha) hy
      | succ b =>
        simp at ha hb
        rw [ih hys ha hb]

theorem nodup_of_nodup_flatMap {α β} {f : α → List β} {l : List α} (h : (l.flatMap f).Nodup) {a : α} (ha : a ∈ l) :
    (f a).Nodup := by
  obtain ⟨l1, l2, rfl⟩ := List.append_of_mem ha
  rw [List.flatMap_append, List.flatMap_cons] at h
  exact (List.nodup_append.mp (List.nodup_append.mp h).2.1).1

/-- in a duplicate-free `flatMap` over a filtered list, an element occurs in the image of one position only -/
theorem flatMap_filter_index_inj {α β} {f : α → List β} {p : α → Bool} {l : List α}
    (h : ((l.filter p).flatMap f).Nodup) {i j : Nat} {a b : α} {t : β}
    (hi : l[i]? = some a) (hj : l[j]? = some b) (hpa : p a = true) (hpb : p b = true)
    (hta : t ∈ f a) (htb : t ∈ f b) : i = j := by
  induction l generalizing i j with
  | nil => simp at hi
  | cons x xs ih =>
    have hsub : ((xs.filter p).flatMap f).Nodup := by
      rw [List.filter_cons] at h
      split at h
      · rw [List.flatMap_cons] at h; exact (List.nodup_append.mp h).2.1
      · exact h
    have hhead : ∀ {k : Nat} {c : α}, p x = true → t ∈ f x → xs[k]? = some c → p c = true → t ∈ f c → False := by
      intro k c hpx htx hk hpc htc
      rw [List.filter_cons, if_pos hpx, List.flatMap_cons] at h
      refine (List.nodup_append.mp h).2.2 t htx t ?_ rfl
      exact List.mem_flatMap.mpr ⟨c, List.mem_filter.mpr ⟨List.mem_of_getElem? hk, hpc⟩, htc⟩
    cases i with
    | zero =>
      cases j with
      | zero => rfl
      | succ j =>
        simp at hi hj
        subst hi
        exact (hhead hpa hta hj hpb htb).elim
    | succ i =>
      cases j with
      | zero =>
        simp at hi hj
        subst hj
        exact (hhead hpb htb hi hpa hta).elim
      | succ j =>
        simp at hi hj
        rw [ih hsub hi hj]

/-! ## 2. a struct field clashing with another supplier of its type -/

/-- the error is one of the two declaration-level refusals of `NewGraph`'s first two passes -/
def DupOrOrphan (e : PlanErr) : Prop := (∃ t, e = .dup t) ∨ (∃ t, e = .orphan t)

/-- the struct providers, in declaration order (= the initial pending list of `pass2`) -/
def structsOf (provs : List PSpec) : List PSpec := provs.filter (·.kind == 1)

/-- some expanded struct field has a type that already has another supplier:
    (a) a function provider lists it, (b) another field of the same struct has it,
    (c) a field of a different struct provider has it -/
inductive FieldClash (provs : List PSpec) : Prop
  | withFunction (sp : PSpec) (f : String × Nat) (q : PSpec)
      (hsp : sp ∈ provs) (hk : sp.kind = 1) (hf : f ∈ sp.fields)
      (hq : q ∈ provs) (hqk : q.kind ≠ 1) (hl : Lists q f.2)
  | sameStruct (sp : PSpec) (a b : Nat) (fa fb : String × Nat)
      (hsp : sp ∈ provs) (hk : sp.kind = 1) (hab : a ≠ b)
      (ha : sp.fields[a]? = some fa) (hb : sp.fields[b]? = some fb) (hty : fa.2 = fb.2)
  | twoStructs (i j : Nat) (s1 s2 : PSpec) (f1 f2 : String × Nat)
      (hij : i ≠ j) (hi : provs[i]? = some s1) (hj : provs[j]? = some s2)
      (hk1 : s1.kind = 1) (hk2 : s2.kind = 1) (hf1 : f1 ∈ s1.fields) (hf2 : f2 ∈ s2.fields) (hty : f1.2 = f2.2)

theorem mem_fieldTys {sp : PSpec} {f : String × Nat} (h : f ∈ sp.fields) : f.2 ∈ fieldTys sp :=
  List.mem_map.mpr ⟨f, h, rfl⟩

theorem mem_structsOf {provs : List PSpec} {sp : PSpec} (h : sp ∈ provs) (hk : sp.kind = 1) : sp ∈ structsOf provs :=
  List.mem_filter.mpr ⟨h, by simp [hk]⟩

/-- with a field clash, pass 2 cannot succeed on the supplier map produced by pass 1 -/
theorem pass2_fails_of_clash {provs : List PSpec} (hc : FieldClash provs) {sup1 : SupMap}
    (h1 : pass1 0 provs [] = .ok sup1) (r : List PSpec × SupMap) :
    pass2 (structsOf provs) provs sup1 ≠ .ok r := by
  intro h2
  obtain ⟨provs', m'⟩ := r
  obtain ⟨_, hnd, hnone, _⟩ := pass2_spec _ h2
  cases hc with
  | withFunction sp f q hsp hk hf hq hqk hl =>
    have hmem : f.2 ∈ allFieldTys (structsOf provs) :=
      List.mem_flatMap.mpr ⟨sp, mem_structsOf hsp hk, mem_fieldTys hf⟩
    obtain ⟨k, hk'⟩ := List.mem_iff_getElem?.mp hq
    obtain ⟨gi, hgi⟩ := (pass1_spec provs h1).2.1 k q hk' hqk f.2 hl
    rw [hnone _ hmem] at hgi
    cases hgi
  | sameStruct sp a b fa fb hsp hk hab ha hb hty =>
    have hnd' : (fieldTys sp).Nodup := nodup_of_nodup_flatMap hnd (mem_structsOf hsp hk)
    apply hab
    apply nodup_getElem?_inj hnd' (x := fa.2)
    · simp only [fieldTys, List.getElem?_map, ha, Option.map_some]
    · simp only [fieldTys, List.getElem?_map, hb, Option.map_some, hty]
  | twoStructs i j s1 s2 f1 f2 hij hi hj hk1 hk2 hf1 hf2 hty =>
    apply hij
    exact flatMap_filter_index_inj (f := fieldTys) (p := fun q => q.kind == 1) hnd hi hj (by simp [hk1]) (by simp [hk2])
      (mem_fieldTys hf1) (by rw [hty]; exact mem_fieldTys hf2)

/-- **C09 (ambiguous struct field)**: if some expanded struct field has a type that a function provider
    lists, or that another field of the same struct has, or that a field of another struct provider has, the
    declaration is refused with `dup` or `orphan` (the latter only when some struct expansion never gets a
    source, see `field_dup_refused_dup`).  No assumption on pass 1 is needed: if pass 1 fails the
    error is a `dup` as well. -/
theorem field_dup_refused {provs : List PSpec} (ret : Nat) (hc : FieldClash provs) :
    ∃ e, newGraph2 provs ret = .error e ∧ DupOrOrphan e := by
  cases h1 : pass1 0 provs [] with
  | error e =>
    obtain ⟨t, he⟩ := pass1_err provs h1
    exact ⟨e, newGraph2_pass1_err ret h1, Or.inl ⟨t, he⟩⟩
  | ok sup1 =>
    cases h2 : pass2 (structsOf provs) provs sup1 with
    | ok r => exact absurd h2 (pass2_fails_of_clash hc h1 r)
    | error e =>
      refine ⟨e, newGraph2_pass2_err ret h1 h2, ?_⟩
      rcases pass2_err _ h2 with ⟨t, _, he⟩ | ⟨sp, _, he, _⟩
      · exact Or.inl ⟨t, he⟩
      · exact Or.inr ⟨sp.structTy, he⟩

/-- type key `t` eventually has a supplier, at the level of the declaration (order-independent): a function
    provider lists it, or it is a field type of a `Struct` provider whose own struct type eventually has a supplier.
    (`Struct[8]{x:5}`, `Struct[5]{y:6}` with a function returning 8: the keys 8, 5 and 6 are sourced.) -/
inductive Sourced (provs : List PSpec) : Nat → Prop
  | fn {t : Nat} (q : PSpec) (hq : q ∈ provs) (hk : q.kind ≠ 1) (hl : Lists q t) : Sourced provs t
  | field {t : Nat} (sp : PSpec) (hsp : sp ∈ provs) (hk : sp.kind = 1) (hs : Sourced provs sp.structTy)
      (ht : t ∈ fieldTys sp) : Sourced provs t

theorem mem_structsOf_iff {provs0 : List PSpec} {sp : PSpec} : sp ∈ structsOf provs0 ↔ sp ∈ provs0 ∧ sp.kind = 1 := by
  unfold structsOf
  rw [List.mem_filter]
  simp

/-- `Sourced` is `Avail` over the supplier map of pass 1 -/
theorem sourced_iff_avail {provs : List PSpec} {sup1 : SupMap} (h1 : pass1 0 provs [] = .ok sup1) (t : Nat) :
    Sourced provs t ↔ Avail sup1 (structsOf provs) t := by
  obtain ⟨_, b2, b3⟩ := pass1_spec provs h1
  constructor
  · intro h
    induction h with
    | fn q hq hk hl =>
      obtain ⟨k, hk'⟩ := List.mem_iff_getElem?.mp hq
      obtain ⟨gi, hgi⟩ := b2 k q hk' hk _ hl
      exact .base (by rw [hgi]; intro hc; cases hc)
    | field sp hsp hk _ ht ih => exact .field sp (mem_structsOf hsp hk) ih ht
  · intro h
    induction h with
    | @base t hb =>
      apply Classical.byContradiction
      intro hc
      exact hb (b3 t (fun q hq hk hl => hc (.fn q hq hk hl)) rfl)
    | field sp hsp _ ht ih =>
      obtain ⟨h0, hk⟩ := mem_structsOf_iff.mp hsp
      exact .field sp h0 hk ih ht

/-- every struct expansion eventually has a source for its struct: a function provider lists the struct type, or
    it is a field of a struct provider that itself eventually has a source (whatever the declaration order) -/
def StructsSourced (provs : List PSpec) : Prop :=
  ∀ sp ∈ provs, sp.kind = 1 → Sourced provs sp.structTy

/-- the criterion of the planner before the repair — each struct type is listed by a function provider or is a
    field of a struct provider declared *earlier* — is a special case -/
theorem structsSourced_of_ordered {provs : List PSpec}
    (h : ∀ pre sp post, structsOf provs = pre ++ sp :: post →
      (∃ q ∈ provs, q.kind ≠ 1 ∧ Lists q sp.structTy) ∨ sp.structTy ∈ allFieldTys pre) :
    StructsSourced provs := by
  have key : ∀ n pre sp post, pre.length = n → structsOf provs = pre ++ sp :: post → Sourced provs sp.structTy := by
    intro n
    induction n using Nat.strongRecOn with
    | _ n ih =>
      intro pre sp post hlen hsplit
      rcases h pre sp post hsplit with ⟨q, hq, hk, hl⟩ | hin
      · exact .fn q hq hk hl
      · obtain ⟨sp', hsp', ht⟩ := List.mem_flatMap.mp hin
        obtain ⟨pre1, post1, hpre⟩ := List.append_of_mem hsp'
        have hsplit' : structsOf provs = pre1 ++ sp' :: (post1 ++ sp :: post) := by
          rw [hsplit, hpre]; simp
        have hs' := ih pre1.length (by rw [← hlen, hpre]; simp) pre1 sp' _ rfl hsplit'
        have hmem : sp' ∈ structsOf provs := by rw [hsplit']; simp
        obtain ⟨h0, hk⟩ := mem_structsOf_iff.mp hmem
        exact .field sp' h0 hk hs' ht
  intro sp hsp hk
  obtain ⟨pre, post, hsplit⟩ := List.append_of_mem (mem_structsOf hsp hk)
  exact key pre.length pre sp post rfl hsplit

/-- with all struct expansions sourced, pass 2 never reports `orphan` -/
theorem pass2_no_orphan {provs : List PSpec} (hs : StructsSourced provs) {sup1 : SupMap}
    (h1 : pass1 0 provs [] = .ok sup1) {e : PlanErr} (h2 : pass2 (structsOf provs) provs sup1 = .error e) :
    ∃ t, e = .dup t := by
  rcases pass2_err _ h2 with ⟨t, _, he⟩ | ⟨sp, hsp, _, hna⟩
  · exact ⟨t, he⟩
  · obtain ⟨hsp0, hk⟩ := mem_structsOf_iff.mp hsp
    exact absurd ((sourced_iff_avail h1 _).mp (hs sp hsp0 hk)) hna

/-- **C09 (ambiguous struct field, exact error)**: if moreover every struct expansion has a source, the
    refusal is a `dup` error. -/
theorem field_dup_refused_dup {provs : List PSpec} (ret : Nat) (hc : FieldClash provs) (hs : StructsSourced provs) :
    ∃ t, newGraph2 provs ret = .error (.dup t) := by
  cases h1 : pass1 0 provs [] with
  | error e =>
    obtain ⟨t, he⟩ := pass1_err provs h1
    exact ⟨t, by rw [newGraph2_pass1_err ret h1, he]⟩
  | ok sup1 =>
    cases h2 : pass2 (structsOf provs) provs sup1 with
    | ok r => exact absurd h2 (pass2_fails_of_clash hc h1 r)
    | error e =>
      obtain ⟨t, he⟩ := pass2_no_orphan hs h1 h2
      exact ⟨t, by rw [newGraph2_pass2_err ret h1 h2, he]⟩

/-! ## 3. a struct expansion without a source -/

/-- **C09 (orphan struct), general form**: a `Struct` provider whose struct type never gets a source — no function
    provider lists it and it is not a field of a `Struct` provider that itself (recursively) has a source; this does
    not depend on the declaration order — makes the planner refuse the declaration: with the `orphan` of such a
    provider (this one or another unsourced one: the first that is still pending when a round makes no progress),
    unless an earlier step already failed with a `dup` (pass 1, or a clashing field). -/
theorem orphan_refused_unsourced {provs : List PSpec} {sp : PSpec} (ret : Nat)
    (hsp : sp ∈ provs) (hk : sp.kind = 1) (hns : ¬ Sourced provs sp.structTy) :
    ∃ e, newGraph2 provs ret = .error e ∧
      ((∃ sp' ∈ provs, sp'.kind = 1 ∧ ¬ Sourced provs sp'.structTy ∧ e = .orphan sp'.structTy) ∨ (∃ t, e = .dup t)) := by
  cases h1 : pass1 0 provs [] with
  | error e =>
    obtain ⟨t, he⟩ := pass1_err provs h1
    exact ⟨e, newGraph2_pass1_err ret h1, Or.inr ⟨t, he⟩⟩
  | ok sup1 =>
    cases h2 : pass2 (structsOf provs) provs sup1 with
    | ok r =>
      obtain ⟨provs', m'⟩ := r
      exact absurd ((sourced_iff_avail h1 _).mpr (pass2_avail _ h2 sp (mem_structsOf hsp hk))) hns
    | error e =>
      refine ⟨e, newGraph2_pass2_err ret h1 h2, ?_⟩
      rcases pass2_err _ h2 with ⟨t, _, he⟩ | ⟨sp', hsp', he, hna⟩
      · exact Or.inr ⟨t, he⟩
      · obtain ⟨h0, hk'⟩ := mem_structsOf_iff.mp hsp'
        exact Or.inl ⟨sp', h0, hk', fun hc => hna ((sourced_iff_avail h1 _).mp hc), he⟩

/-- **C09 (orphan struct), declaration-level form**: if the struct type of `Struct` provider `sp` is listed by no
    function provider and is not a field type of any expanded struct — wherever that struct is declared, before or
    after `sp` — the declaration is refused: with the `orphan` of some `Struct` provider (`sp` or another one without
    a source), unless an earlier step already failed with a `dup` (pass 1, or a clashing field). -/
theorem orphan_refused {provs : List PSpec} {sp : PSpec} (ret : Nat)
    (hsp : sp ∈ provs) (hk : sp.kind = 1)
    (hnofun : ∀ q ∈ provs, q.kind ≠ 1 → ¬ Lists q sp.structTy)
    (hnofield : sp.structTy ∉ allFieldTys (structsOf provs)) :
    ∃ e, newGraph2 provs ret = .error e ∧
      ((∃ sp' ∈ provs, sp'.kind = 1 ∧ ¬ Sourced provs sp'.structTy ∧ e = .orphan sp'.structTy) ∨ (∃ t, e = .dup t)) := by
  apply orphan_refused_unsourced ret hsp hk
  intro hs
  cases hs with
  | fn q hq hqk hl => exact hnofun q hq hqk hl
  | field sp' hsp' hk' _ ht => exact hnofield (List.mem_flatMap.mpr ⟨sp', mem_structsOf hsp' hk', ht⟩)

/-! ## 4. accepted graphs are acyclic -/

/-- in the graph built by the model of `NewGraph` the root is node 0 and every other node has an edge to an
    earlier-discovered node -/
theorem newGraph2_outBack {provs0 : List PSpec} {ret : Nat} {g : Graph} (h : newGraph2 provs0 ret = .ok g) :
    g.retNode = 0 ∧ ∀ n, 0 < n → n < g.nodes.length → ∃ e, e ∈ g.edges.getD n [] ∧ e.dst < n := by
  simp only [newGraph2, bind, Except.bind] at h
  split at h
  · cases h
  · rename_i sup1 hs1
    split at h
    · cases h
    · rename_i r hs2
      obtain ⟨provs, sup⟩ := r
      have hsup1 : SupOK' provs0 sup1 :=
        pass1_ok (provs := provs0) provs0 [] (by simp) rfl (by intro t p gi hl; simp at hl) hs1
      have hsup : SupOK' provs sup := pass2_ok _ hsup1 hs2
      simp only at h
      split at h
      · simp only [pure, Except.pure] at h
        cases h
        refine ⟨rfl, ?_⟩
        intro n h0 hl
        simp at hl; omega
      · rename_i rp ri hlook
        split at h
        · cases h
        · split at h
          · cases h
          · simp only [pure, Except.pure] at h
            cases h
            refine ⟨rfl, ?_⟩
            have ho : OutBack (bfsInit rp) := by
              intro n h0 hl
              simp [bfsInit] at hl; omega
            exact bfsLoop_outBack (supOK_of_supOK' hsup) (bfsFuel provs) (bfsInit_inv provs rp) ho

/-- a non-empty walk along the edges of the planned graph (`edges.getD n []` lists the edges from producer
    node `n` to its consumers `e.dst`) -/
inductive Path (g : Graph) : Nat → Nat → Prop
  | single {n m : Nat} (e : Edge) (he : e ∈ g.edges.getD n []) (hm : e.dst = m) : Path g n m
  | cons {n m k : Nat} (e : Edge) (he : e ∈ g.edges.getD n []) (hm : e.dst = m) (hp : Path g m k) : Path g n k

/-- every node of an accepted graph is in the Kahn order -/
theorem accepted_all_in_order {provs : List PSpec} {ret : Nat} {p : PlanOut} (h : plan provs ret = .ok p) :
    ∀ n, n < p.g.nodes.length → n ∈ topoOrder p.g := by
  obtain ⟨hg, hb, _⟩ := plan_ok h
  have hgw := newGraph2_gwf hg
  obtain ⟨hs, _, _⟩ := topoOrder_sound hgw.toGWF
  obtain ⟨hret, hout⟩ := newGraph2_outBack hg
  have hroot : 0 ∈ topoOrder p.g := by
    unfold build2 at hb
    simp only at hb
    split at hb
    · rename_i hc
      rw [hret] at hc
      simpa using hc
    · cases hb
  exact all_in_order hgw hs hout hroot

/-- along a walk of an accepted graph the Kahn position strictly increases -/
theorem path_forward {provs : List PSpec} {ret : Nat} {p : PlanOut} (h : plan provs ret = .ok p)
    {n m : Nat} (hp : Path p.g n m) : (topoOrder p.g).idxOf n < (topoOrder p.g).idxOf m := by
  obtain ⟨hg, _, _⟩ := plan_ok h
  have hgw := newGraph2_gwf hg
  obtain ⟨hs, hnd, _⟩ := topoOrder_sound hgw.toGWF
  have hall := accepted_all_in_order h
  induction hp with
  | single e he hm =>
    have hml : e.dst < p.g.nodes.length := hgw.dstLt _ e he
    exact (edges_forward hgw hs hnd he hm (by rw [← hm]; exact hall _ hml)).2
  | cons e he hm _ ih =>
    have hml : e.dst < p.g.nodes.length := hgw.dstLt _ e he
    exact Nat.lt_trans (edges_forward hgw hs hnd he hm (by rw [← hm]; exact hall _ hml)).2 ih

/-- **C09 (no cycle is ever accepted)**: the graph of an accepted declaration has no cycle — no node reaches
    itself along one or more edges (a self loop included). -/
theorem accepted_acyclic {provs : List PSpec} {ret : Nat} {p : PlanOut} (h : plan provs ret = .ok p) (n : Nat) :
    ¬ Path p.g n n :=
  fun hp => Nat.lt_irrefl _ (path_forward h hp)

/-- `a :: l` is a walk: each node is followed by the `dst` of one of its edges -/
def IsWalk (g : Graph) : List Nat → Prop
  | [] => True
  | [_] => True
  | a :: b :: rest => (∃ e, e ∈ g.edges.getD a [] ∧ e.dst = b) ∧ IsWalk g (b :: rest)

theorem path_of_walk {g : Graph} (l : List Nat) (a : Nat) (hne : l ≠ []) (hw : IsWalk g (a :: l)) :
    Path g a ((a :: l).getLast (by simp)) := by
  induction l generalizing a with
  | nil => exact absurd rfl hne
  | cons b rest ih =>
    obtain ⟨⟨e, he, hd⟩, hw'⟩ := hw
    cases rest with
    | nil => exact Path.single e he (by simpa using hd)
    | cons c rest' =>
      have := ih b (by simp) hw'
      refine Path.cons e he hd ?_
      simpa [List.getLast_cons] using this

/-- list form of `accepted_acyclic`: there is no list of nodes `n₀, n₁, …, n_k` with `k ≥ 1`, `n_k = n₀`, in which
    each `n_{i+1}` is the `dst` of an edge in `p.g.edges.getD n_i []` -/
theorem accepted_acyclic_list {provs : List PSpec} {ret : Nat} {p : PlanOut} (h : plan provs ret = .ok p)
    (n0 : Nat) (l : List Nat) (hne : l ≠ []) (hw : IsWalk p.g (n0 :: l)) :
    (n0 :: l).getLast (by simp) ≠ n0 := by
  intro hc
  have hp := path_of_walk l n0 hne hw
  rw [hc] at hp
  exact accepted_acyclic h n0 hp

/-! # 5. a reachable cycle of the supplier relation is refused (declaration level) -/

/-! ## one more BFS invariant: the root keeps its provider, and every provider node that feeds somebody is the
    memoised node of its provider -/

structure CInv (st : BfsSt) (rp : Nat) : Prop where
  rootLt : 0 < st.nodes.length
  root : st.nodes.getD 0 default = { isArg := false, prov := rp }
  reg : ∀ n2 e, e ∈ st.edges.getD n2 [] → (st.nodes.getD n2 default).isArg = false →
    st.provNode.lookup (st.nodes.getD n2 default).prov = some n2

theorem pickNode_provNode_persist (sup : SupMap) (t : Nat) (st : BfsSt) (p n : Nat)
    (h : st.provNode.lookup p = some n) : (pickNode sup t st).1.provNode.lookup p = some n := by
  unfold pickNode
  split
  · split
    · exact h
    · exact lookup_snoc_old _ _ _ _ _ h
  · split
    · exact h
    · exact h

theorem pickNode_reg {provs : List PSpec} {sup : SupMap} {st : BfsSt} {cur : Option (Nat × Nat)} (t : Nat)
    (h : BInv provs st cur) :
    ((pickNode sup t st).1.nodes.getD (pickNode sup t st).2.1 default).isArg = false →
    (pickNode sup t st).1.provNode.lookup ((pickNode sup t st).1.nodes.getD (pickNode sup t st).2.1 default).prov
      = some (pickNode sup t st).2.1 := by
  unfold pickNode
  split
  · rename_i p gi hlook
    split
    · rename_i n2 hpn
      obtain ⟨_, hnode⟩ := h.provNodeOK p n2 hpn
      intro _
      show st.provNode.lookup (st.nodes.getD n2 default).prov = some n2
      rw [hnode]; exact hpn
    · rename_i hpn
      have hnew : (st.nodes ++ [({ isArg := false, prov := p } : Node)]).getD st.nodes.length default
          = { isArg := false, prov := p } := getD_append_right_new _ _ _
      intro _
      show (st.provNode ++ [(p, st.nodes.length)]).lookup ((st.nodes ++ [_]).getD st.nodes.length default).prov
        = some st.nodes.length
      rw [hnew]
      exact lookup_snoc_new _ _ _ hpn
  · split
    · rename_i n2 han
      obtain ⟨_, h2, _⟩ := h.argNodeOK t n2 han
      intro hc
      change (st.nodes.getD n2 default).isArg = false at hc
      rw [h2] at hc; cases hc
    · have hnew : (st.nodes ++ [({ isArg := true, ty := t } : Node)]).getD st.nodes.length default
          = { isArg := true, ty := t } := getD_append_right_new _ _ _
      intro hc
      change ((st.nodes ++ [_]).getD st.nodes.length default).isArg = false at hc
      rw [hnew] at hc; cases hc

theorem reqStep_cinv {provs : List PSpec} {sup : SupMap} (hsup : SupOK provs sup) {st : BfsSt} {n1 i rp : Nat} (t : Nat)
    (h : BInv provs st (some (n1, i))) (hc : CInv st rp) : CInv (reqStep sup n1 i t st) rp := by
  obtain ⟨h1, hext, hlt, hsrc⟩ := pickNode_inv hsup t h
  refine ⟨Nat.lt_of_lt_of_le hc.rootLt hext.nodesLe, ?_, ?_⟩
  · show (pickNode sup t st).1.nodes.getD 0 default = _
    rw [hext.nodesKeep 0 hc.rootLt]; exact hc.root
  · intro n2 e he
    show ((pickNode sup t st).1.nodes.getD n2 default).isArg = false →
      (pickNode sup t st).1.provNode.lookup ((pickNode sup t st).1.nodes.getD n2 default).prov = some n2
    change e ∈ (listModify (pickNode sup t st).1.edges (pickNode sup t st).2.1
      (· ++ [{ dst := n1, src := (pickNode sup t st).2.2, slot := i }])).getD n2 [] at he
    have hcase : e ∈ (pickNode sup t st).1.edges.getD n2 [] ∨ n2 = (pickNode sup t st).2.1 := by
      by_cases hn : n2 = (pickNode sup t st).2.1
      · exact Or.inr hn
      · rw [getD_listModify_other _ _ _ _ _ hn] at he; exact Or.inl he
    rcases hcase with hold | hn
    · have hold' := pickNode_edges t st n2 e h.lenE hold
      obtain ⟨hn2l, _, _, _⟩ := h.edgeOK n2 e hold'
      rw [hext.nodesKeep n2 hn2l]
      intro ha
      exact pickNode_provNode_persist sup t st _ _ (hc.reg n2 e hold' ha)
    · rw [hn]; exact pickNode_reg t h

theorem bfsRequires_cinv {provs : List PSpec} {sup : SupMap} (hsup : SupOK provs sup) {n1 rp : Nat} (ts : List Nat)
    {i : Nat} {st : BfsSt} (h : BInv provs st (some (n1, i))) (hn1 : n1 ∈ st.visited) (hc : CInv st rp) :
    CInv (bfsRequires provs sup n1 i ts st) rp := by
  induction ts generalizing i st with
  | nil => simpa [bfsRequires] using hc
  | cons t ts ih =>
    rw [bfsRequires_cons]
    obtain ⟨h1, hext1⟩ := reqStep_inv hsup t h hn1
    exact ih h1 (by rw [hext1.visited]; exact hn1) (reqStep_cinv hsup t h hc)

theorem bfsLoop_cinv {provs : List PSpec} {sup : SupMap} (hsup : SupOK provs sup) (fuel : Nat) {st : BfsSt} {rp : Nat}
    (h : BInv provs st none) (hc : CInv st rp) : CInv (bfsLoop provs sup fuel st) rp := by
  induction fuel generalizing st with
  | zero => simpa [bfsLoop] using hc
  | succ k ih =>
    simp only [bfsLoop]
    split
    · exact hc
    · rename_i n1 q hq
      have hn1 : n1 < st.nodes.length := h.qLt n1 (by rw [hq]; exact List.mem_cons_self ..)
      split
      · rename_i hv
        have hv' : n1 ∈ st.visited := by simpa using hv
        have hc' : CInv { st with queue := q } rp := ⟨hc.rootLt, hc.root, hc.reg⟩
        refine ih ?_ hc'
        exact { lenE := h.lenE, lenR := h.lenR, vLt := h.vLt, edgeOK := h.edgeOK, revOK := h.revOK, uniq := h.uniq,
                revLen := h.revLen, provNodeOK := h.provNodeOK, argNodeOK := h.argNodeOK,
                qLt := fun m hm => h.qLt m (by rw [hq]; exact List.mem_cons_of_mem _ hm),
                seen := by
                  intro m hm
                  rcases h.seen m hm with h1 | h1
                  · rw [hq] at h1
                    simp only [List.mem_cons] at h1
                    rcases h1 with rfl | h1
                    · exact Or.inr hv'
                    · exact Or.inl h1
                  · exact Or.inr h1 }
      · rename_i hv
        have hnv : n1 ∉ st.visited := by simpa using hv
        have hvis := visit_inv h hq hnv
        have hcvis : CInv { st with queue := q, visited := st.visited ++ [n1] } rp := ⟨hc.rootLt, hc.root, hc.reg⟩
        have hget : st.nodes[n1]? = some (st.nodes.getD n1 default) := by
          rw [List.getElem?_eq_getElem hn1, getD_eq_getElem' _ _ _ hn1]
        split
        · rename_i hnone
          rw [show ({ st with queue := q, visited := st.visited ++ [n1] } : BfsSt).nodes = st.nodes from rfl] at hnone
          rw [hget] at hnone; cases hnone
        · rename_i nd hsome
          rw [show ({ st with queue := q, visited := st.visited ++ [n1] } : BfsSt).nodes = st.nodes from rfl] at hsome
          rw [hget] at hsome
          have hnd : nd = st.nodes.getD n1 default := (Option.some.inj hsome).symm
          split
          · rename_i harg
            apply ih _ hcvis
            apply hvis.closeCur
            show 0 = slotsOfNode provs (st.nodes.getD n1 default)
            rw [← hnd]; simp [slotsOfNode, harg]
          · rename_i harg
            have hn1v : n1 ∈ ({ st with queue := q, visited := st.visited ++ [n1] } : BfsSt).visited := by simp
            obtain ⟨h2, hext⟩ := bfsRequires_inv hsup (provs.getD nd.prov default).requires hvis hn1v
            apply ih _ (bfsRequires_cinv hsup _ hvis hn1v hcvis)
            apply h2.closeCur
            rw [hext.nodesKeep n1 hn1]
            show 0 + _ = slotsOfNode provs (st.nodes.getD n1 default)
            rw [← hnd]; simp [slotsOfNode, harg]

theorem bfsInit_cinv (rp : Nat) : CInv (bfsInit rp) rp := by
  refine ⟨by simp [bfsInit], by simp [bfsInit], ?_⟩
  intro n2 e he
  have : (bfsInit rp).edges.getD n2 [] = [] := by
    cases n2 <;> simp [bfsInit, List.getD_eq_getElem?_getD]
  rw [this] at he; simp at he

/-! ## the supplier relation on (expanded) providers -/

/-- passes 1 and 2 of `NewGraph`: the provider list extended with the synthetic field-access providers,
    and the supplier map -/
def expand (provs0 : List PSpec) : Except PlanErr (List PSpec × SupMap) := do
  let sup1 ← pass1 0 provs0 []
  pass2 (provs0.filter (·.kind == 1)) provs0 sup1

/-- provider `q` directly needs provider `q'`: it requires a type key whose supplier is `q'` -/
def Needs (provs : List PSpec) (sup : SupMap) (q q' : Nat) : Prop :=
  ∃ t, t ∈ (provs.getD q default).requires ∧ ∃ gi, sup.lookup t = some (q', gi)

/-- reflexive-transitive closure -/
inductive Reach {α : Type} (r : α → α → Prop) : α → α → Prop
  | refl (a : α) : Reach r a a
  | tail {a b c : α} : Reach r a b → r b c → Reach r a c

/-- `n` is a provider node of provider `q` -/
def IsNodeOf (st : BfsSt) (n q : Nat) : Prop :=
  n < st.nodes.length ∧ (st.nodes.getD n default).isArg = false ∧ (st.nodes.getD n default).prov = q

/-- **BFS completeness**: in a drained BFS state, every requirement of a provider node that has a supplier
    is wired to a provider node of that supplier. -/
theorem needs_edge {provs : List PSpec} {sup : SupMap} {st : BfsSt}
    (h : BInv provs st none) (hp : EProv provs sup st) (hq : st.queue = [])
    {m q q' : Nat} (hm : IsNodeOf st m q) (hn : Needs provs sup q q') :
    ∃ d e, e ∈ st.edges.getD d [] ∧ e.dst = m ∧ IsNodeOf st d q' := by
  obtain ⟨hml, hna, hprov⟩ := hm
  obtain ⟨t, ht, gi, hl⟩ := hn
  have hreq : reqOf provs st m = (provs.getD q default).requires := by
    unfold reqOf; rw [hna, hprov]; rfl
  rw [← hreq] at ht
  obtain ⟨i, hil, hget⟩ := List.getElem_of_mem ht
  have hmv : m ∈ st.visited := by
    rcases h.seen m hml with h1 | h1
    · rw [hq] at h1; simp at h1
    · exact h1
  have hrl := h.revLen m hml
  simp only [expectedRev, hmv, ↓reduceIte] at hrl
  have hslots : slotsOfNode provs (st.nodes.getD m default) = (reqOf provs st m).length := by
    unfold slotsOfNode reqOf
    rw [hna]; rfl
  have hirev : i < (st.rev.getD m []).length := by rw [hrl, hslots]; exact hil
  have hrev : (st.rev.getD m [])[i]? = some ((st.rev.getD m [])[i]) := List.getElem?_eq_getElem hirev
  obtain ⟨e, he, hed, hes⟩ := h.revOK m i _ hrev
  obtain ⟨t', ht', hpo⟩ := hp _ e he
  rw [hed, hes, List.getElem?_eq_getElem hil, hget] at ht'
  have htt : t = t' := Option.some.inj ht'
  subst htt
  obtain ⟨hdl, _, _, _⟩ := h.edgeOK _ e he
  rcases hpo with ⟨p, gi', hls, hia, hpr, _⟩ | ⟨hnone, _, _, _⟩
  · rw [hl] at hls
    simp only [Option.some.injEq, Prod.mk.injEq] at hls
    exact ⟨_, e, he, hed, hdl, hia, by rw [hpr, hls.1]⟩
  · rw [hl] at hnone; cases hnone

/-- every provider reachable from the root's provider has a node -/
theorem reach_node {provs : List PSpec} {sup : SupMap} {st : BfsSt} {rp : Nat}
    (h : BInv provs st none) (hp : EProv provs sup st) (hc : CInv st rp) (hq : st.queue = [])
    {q : Nat} (hr : Reach (Needs provs sup) rp q) : ∃ m, IsNodeOf st m q := by
  induction hr with
  | refl => exact ⟨0, hc.rootLt, by rw [hc.root], by rw [hc.root]⟩
  | tail _ hn ih =>
    obtain ⟨m, hm⟩ := ih
    obtain ⟨d, _, _, _, hd⟩ := needs_edge h hp hq hm hn
    exact ⟨d, hd⟩

/-- following a chain of needs backwards from a node of `q` yields a walk in the graph, ending in the
    memoised node of the last provider -/
theorem needs_path {provs : List PSpec} {sup : SupMap} {st : BfsSt} {rp : Nat} {g : Graph}
    (hge : g.edges = st.edges)
    (h : BInv provs st none) (hp : EProv provs sup st) (hc : CInv st rp) (hq : st.queue = [])
    {m q q' : Nat} (hm : IsNodeOf st m q) (hn : Relation.TransGen (Needs provs sup) q q') :
    ∃ d, Path g d m ∧ IsNodeOf st d q' ∧ st.provNode.lookup q' = some d := by
  induction hn with
  | single hn =>
    obtain ⟨d, e, he, hed, hd⟩ := needs_edge h hp hq hm hn
    refine ⟨d, Path.single e (by rw [hge]; exact he) hed, hd, ?_⟩
    have := hc.reg d e he hd.2.1
    rw [hd.2.2] at this; exact this
  | tail _ hn ih =>
    obtain ⟨d1, hpath, hd1, _⟩ := ih
    obtain ⟨d, e, he, hed, hd⟩ := needs_edge h hp hq hd1 hn
    refine ⟨d, Path.cons e (by rw [hge]; exact he) hed hpath, hd, ?_⟩
    have := hc.reg d e he hd.2.1
    rw [hd.2.2] at this; exact this

/-- the graph accepted by `newGraph2` is read off the drained BFS state -/
theorem newGraph2_ok_bfs {provs0 : List PSpec} {ret : Nat} {g : Graph} {provs : List PSpec} {sup : SupMap} {rp ri : Nat}
    (h : newGraph2 provs0 ret = .ok g) (hexp : expand provs0 = .ok (provs, sup))
    (hret : sup.lookup ret = some (rp, ri)) :
    SupOK' provs sup ∧ g.edges = (bfsLoop provs sup (bfsFuel provs) (bfsInit rp)).edges ∧
    (bfsLoop provs sup (bfsFuel provs) (bfsInit rp)).queue = [] := by
  cases hs1 : pass1 0 provs0 [] with
  | error e => simp only [expand, bind, Except.bind, hs1] at hexp; cases hexp
  | ok sup1 =>
    cases hs2 : pass2 (provs0.filter (·.kind == 1)) provs0 sup1 with
    | error e => simp only [expand, bind, Except.bind, hs1, hs2] at hexp; cases hexp
    | ok r =>
      simp only [expand, bind, Except.bind, hs1, hs2] at hexp
      cases hexp
      have hsup1 : SupOK' provs0 sup1 :=
        pass1_ok (provs := provs0) provs0 [] (by simp) rfl (by intro t p gi hl; simp at hl) hs1
      have hsup : SupOK' provs sup := pass2_ok _ hsup1 hs2
      simp only [newGraph2, bind, Except.bind, hs1, hs2, hret] at h
      split at h
      · cases h
      · split at h
        · cases h
        · rename_i hqe _
          simp only [pure, Except.pure] at h
          cases h
          refine ⟨hsup, rfl, ?_⟩
          cases hqq : (bfsLoop provs sup (bfsFuel provs) (bfsInit rp)).queue with
          | nil => rfl
          | cons a as => rw [hqq] at hqe; simp at hqe

/-- **C09 (dependency cycle), declaration level**: let `provs`, `sup` be the expanded provider list and the
    supplier map of the declaration.  If the supplier `rp` of the requested type reaches (through zero or more
    "needs" steps) a provider `q` that lies on a cycle of the "needs" relation — `q` needs … needs `q`, a provider
    requiring its own output included — the declaration is not accepted. -/
theorem cycle_refused {provs0 : List PSpec} {ret : Nat} {provs : List PSpec} {sup : SupMap} {rp ri q : Nat}
    (hexp : expand provs0 = .ok (provs, sup)) (hret : sup.lookup ret = some (rp, ri))
    (hreach : Reach (Needs provs sup) rp q) (hcyc : Relation.TransGen (Needs provs sup) q q) :
    ∃ e, plan provs0 ret = .error e := by
  cases hpl : plan provs0 ret with
  | error e => exact ⟨e, rfl⟩
  | ok p =>
    exfalso
    obtain ⟨hg, _, _⟩ := plan_ok hpl
    obtain ⟨hsup', hge, hq⟩ := newGraph2_ok_bfs hg hexp hret
    have hsup := supOK_of_supOK' hsup'
    have hB := bfsLoop_inv hsup (bfsFuel provs) (bfsInit_inv provs rp)
    have hP := bfsLoop_prov hsup (bfsFuel provs) (bfsInit_inv provs rp) (bfsInit_prov provs sup rp)
    have hC := bfsLoop_cinv hsup (bfsFuel provs) (bfsInit_inv provs rp) (bfsInit_cinv rp)
    obtain ⟨m0, hm0⟩ := reach_node hB hP hC hq hreach
    obtain ⟨d1, _, hd1, hl1⟩ := needs_path hge hB hP hC hq hm0 hcyc
    obtain ⟨d2, hpath, _, hl2⟩ := needs_path hge hB hP hC hq hd1 hcyc
    rw [hl1] at hl2
    have : d1 = d2 := Option.some.inj hl2
    subst this
    exact accepted_acyclic hpl d1 hpath

/-! ### a corollary purely in terms of the declared function providers -/

theorem expand_ok {provs0 provs : List PSpec} {sup : SupMap} (h : expand provs0 = .ok (provs, sup)) :
    ∃ sup1, pass1 0 provs0 [] = .ok sup1 ∧ pass2 (structsOf provs0) provs0 sup1 = .ok (provs, sup) := by
  cases hs1 : pass1 0 provs0 [] with
  | error e => simp only [expand, bind, Except.bind, hs1] at h; cases h
  | ok sup1 =>
    simp only [expand, bind, Except.bind, hs1] at h
    exact ⟨sup1, rfl, h⟩

theorem expand_err {provs0 : List PSpec} {e : PlanErr} (ret : Nat) (h : expand provs0 = .error e) :
    newGraph2 provs0 ret = .error e := by
  cases hs1 : pass1 0 provs0 [] with
  | error e' =>
    simp only [expand, bind, Except.bind, hs1] at h
    cases h
    exact newGraph2_pass1_err ret hs1
  | ok sup1 =>
    simp only [expand, bind, Except.bind, hs1] at h
    exact newGraph2_pass2_err ret hs1 h

theorem plan_err_of_newGraph2_err {provs0 : List PSpec} {ret : Nat} {e : PlanErr}
    (h : newGraph2 provs0 ret = .error e) : plan provs0 ret = .error e := by
  simp only [plan, bind, Except.bind, h]

theorem expandFields_extends {sty decl : Nat} (fs : List (String × Nat)) {provs provs' : List PSpec} {m m' : SupMap}
    (h : expandFields sty decl fs provs m = .ok (provs', m')) : ∃ extra, provs' = provs ++ extra := by
  induction fs generalizing provs m with
  | nil =>
    simp [expandFields, pure, Except.pure] at h
    exact ⟨[], by simp [h.1]⟩
  | cons f fs ih =>
    obtain ⟨fname, fty⟩ := f
    simp only [expandFields] at h
    split at h
    · cases h
    · obtain ⟨extra, he⟩ := ih h
      exact ⟨mkFieldProv sty decl fname fty :: extra, by rw [he]; simp [mkFieldProv]⟩

theorem pass2Ordered_extends (sps : List PSpec) {provs provs' : List PSpec} {m m' : SupMap}
    (h : pass2Ordered sps provs m = .ok (provs', m')) : ∃ extra, provs' = provs ++ extra := by
  induction sps generalizing provs m with
  | nil =>
    simp [pass2Ordered, pure, Except.pure] at h
    exact ⟨[], by simp [h.1]⟩
  | cons sp sps ih =>
    simp only [pass2Ordered] at h
    split at h
    · cases h
    · simp only [bind, Except.bind] at h
      split at h
      · cases h
      · rename_i r h1
        obtain ⟨provs1, m1⟩ := r
        obtain ⟨x1, hx1⟩ := expandFields_extends _ h1
        obtain ⟨x2, hx2⟩ := ih h
        exact ⟨x1 ++ x2, by rw [hx2, hx1]; simp⟩

theorem pass2_extends (sps : List PSpec) {provs provs' : List PSpec} {m m' : SupMap}
    (h : pass2 sps provs m = .ok (provs', m')) : ∃ extra, provs' = provs ++ extra := by
  obtain ⟨sps', _, ho⟩ := pass2_ok_ordered h
  exact pass2Ordered_extends sps' ho

/-- declaration-level "needs" between declared providers: `q` requires a type key that function provider `q'`
    lists (as a result type or a bound interface) -/
def NeedsFn (provs0 : List PSpec) (q q' : Nat) : Prop :=
  ∃ pq pq' t, provs0[q]? = some pq ∧ provs0[q']? = some pq' ∧ pq'.kind ≠ 1 ∧ t ∈ pq.requires ∧ Lists pq' t

theorem needs_of_needsFn {provs0 provs : List PSpec} {sup : SupMap} (hexp : expand provs0 = .ok (provs, sup))
    {q q' : Nat} (h : NeedsFn provs0 q q') : Needs provs sup q q' := by
  obtain ⟨sup1, h1, h2⟩ := expand_ok hexp
  obtain ⟨pq, pq', t, hq, hq', hk, ht, hl⟩ := h
  obtain ⟨gi, hgi⟩ := (pass1_spec provs0 h1).2.1 q' pq' hq' hk t hl
  rw [Nat.zero_add] at hgi
  obtain ⟨extra, hx⟩ := pass2_extends _ h2
  have hql : q < provs0.length := by
    apply Classical.byContradiction; intro hc
    rw [List.getElem?_eq_none (Nat.le_of_not_lt hc)] at hq; cases hq
  have hget : provs.getD q default = pq := by
    rw [hx, getD_append_left _ _ _ _ hql, List.getD_eq_getElem?_getD, hq]; rfl
  exact ⟨t, by rw [hget]; exact ht, gi, (pass2_spec _ h2).1 _ _ hgi⟩

theorem Reach.mono {α : Type} {r s : α → α → Prop} (hrs : ∀ a b, r a b → s a b) {a b : α} (h : Reach r a b) :
    Reach s a b := by
  induction h with
  | refl => exact Reach.refl _
  | tail _ h2 ih => exact Reach.tail ih (hrs _ _ h2)

theorem transGen_mono {α : Type} {r s : α → α → Prop} (hrs : ∀ a b, r a b → s a b) {a b : α}
    (h : Relation.TransGen r a b) : Relation.TransGen s a b := by
  induction h with
  | single h1 => exact Relation.TransGen.single (hrs _ _ h1)
  | tail _ h2 ih => exact Relation.TransGen.tail ih (hrs _ _ h2)

/-- **C09 (dependency cycle among declared function providers)**: if the requested type is listed by function
    provider `rp`, and `rp` reaches — along "requires a type listed by" steps — a provider lying on a cycle of
    such steps (of any length, a provider requiring its own output included), the declaration is not accepted
    (whatever else is wrong with it). -/
theorem cycle_refused_decl {provs0 : List PSpec} {ret rp q : Nat} {prp : PSpec}
    (hrp : provs0[rp]? = some prp) (hk : prp.kind ≠ 1) (hl : Lists prp ret)
    (hreach : Reach (NeedsFn provs0) rp q) (hcyc : Relation.TransGen (NeedsFn provs0) q q) :
    ∃ e, plan provs0 ret = .error e := by
  cases hexp : expand provs0 with
  | error e => exact ⟨e, plan_err_of_newGraph2_err (expand_err ret hexp)⟩
  | ok r =>
    obtain ⟨provs, sup⟩ := r
    obtain ⟨sup1, h1, h2⟩ := expand_ok hexp
    obtain ⟨gi, hgi⟩ := (pass1_spec provs0 h1).2.1 rp prp hrp hk ret hl
    rw [Nat.zero_add] at hgi
    have hret : sup.lookup ret = some (rp, gi) := (pass2_spec _ h2).1 _ _ hgi
    exact cycle_refused hexp hret (Reach.mono (fun _ _ => needs_of_needsFn hexp) hreach)
      (transGen_mono (fun _ _ => needs_of_needsFn hexp) hcyc)

/-! ## the hypotheses are satisfiable: tiny concrete declarations -/
namespace RefuseExamples

def errOf {α} : Except PlanErr α → Option PlanErr
  | .ok _ => none
  | .error e => some e

def isOk {α} : Except PlanErr α → Bool
  | .ok _ => true
  | .error _ => false

/-- 1: two function providers of type 1 (the second one through a bound interface in a group) -/
def dupDecl : List PSpec := [{ provides := [[1]] }, { provides := [[2, 1]] }]

example : ∃ t', newGraph2 dupDecl 7 = .error (.dup t') :=
  dup_refused (i := 0) (j := 1) (t := 1) 7 (by decide) rfl rfl (by decide) (by decide)
    ⟨[1], by simp, by simp⟩ ⟨[2, 1], by simp, by simp⟩
example : errOf (newGraph2 dupDecl 7) = some (.dup 1) := by decide

/-- 2a: field `A` of struct 5 has type 6, which function provider 1 supplies as well -/
def clashFnDecl : List PSpec :=
  [{ provides := [[5]] }, { provides := [[6]] }, { kind := 1, structTy := 5, fields := [("A", 6)] }]

theorem clashFn : FieldClash clashFnDecl :=
  .withFunction { kind := 1, structTy := 5, fields := [("A", 6)] } ("A", 6) { provides := [[6]] }
    (by simp [clashFnDecl]) rfl (by simp) (by simp [clashFnDecl]) (by decide) ⟨[6], by simp, by simp⟩

theorem clashFn_sourced : StructsSourced clashFnDecl := by
  intro sp hsp hk
  simp only [clashFnDecl, List.mem_cons, List.not_mem_nil, or_false] at hsp
  rcases hsp with rfl | rfl | rfl
  · cases hk
  · cases hk
  · exact .fn { provides := [[5]] } (by simp [clashFnDecl]) (by decide) ⟨[5], by simp, by simp⟩

example : ∃ e, newGraph2 clashFnDecl 6 = .error e ∧ DupOrOrphan e := field_dup_refused 6 clashFn
example : ∃ t, newGraph2 clashFnDecl 6 = .error (.dup t) := field_dup_refused_dup 6 clashFn clashFn_sourced
example : errOf (newGraph2 clashFnDecl 6) = some (.dup 6) := by decide

/-- 2b: two fields of the same type in one struct -/
def clashSameDecl : List PSpec :=
  [{ provides := [[5]] }, { kind := 1, structTy := 5, fields := [("A", 6), ("B", 6)] }]

example : FieldClash clashSameDecl :=
  .sameStruct { kind := 1, structTy := 5, fields := [("A", 6), ("B", 6)] } 0 1 ("A", 6) ("B", 6)
    (by simp [clashSameDecl]) rfl (by decide) rfl rfl rfl
example : errOf (newGraph2 clashSameDecl 6) = some (.dup 6) := by decide

/-- 2c: two struct providers expanding a field of the same type -/
def clashTwoDecl : List PSpec :=
  [{ provides := [[5]] }, { provides := [[8]] }, { kind := 1, structTy := 5, fields := [("A", 6)] },
   { kind := 1, structTy := 8, fields := [("B", 6)] }]

example : FieldClash clashTwoDecl :=
  .twoStructs 2 3 { kind := 1, structTy := 5, fields := [("A", 6)] } { kind := 1, structTy := 8, fields := [("B", 6)] }
    ("A", 6) ("B", 6) (by decide) rfl rfl rfl rfl (by simp) (by simp) rfl
example : errOf (newGraph2 clashTwoDecl 6) = some (.dup 6) := by decide

/-- 3: a struct expansion of struct type 5 that nobody supplies -/
def orphanDecl : List PSpec := [{ provides := [[4]] }, { kind := 1, structTy := 5, fields := [("A", 6)] }]

example : ∃ e, newGraph2 orphanDecl 6 = .error e ∧
    ((∃ sp' ∈ orphanDecl, sp'.kind = 1 ∧ ¬ Sourced orphanDecl sp'.structTy ∧ e = .orphan sp'.structTy) ∨
      (∃ t, e = .dup t)) :=
  orphan_refused (sp := { kind := 1, structTy := 5, fields := [("A", 6)] }) 6 (by simp [orphanDecl]) rfl
    (by
      intro q hq hk hl
      simp only [orphanDecl, List.mem_cons, List.not_mem_nil, or_false] at hq
      rcases hq with rfl | rfl
      · obtain ⟨g, hg, ht⟩ := hl
        simp at hg; subst hg; simp at ht
      · exact hk rfl)
    (by decide)
example : errOf (newGraph2 orphanDecl 6) = some (.orphan 5) := by decide

/-- 4: an accepted declaration (a diamond), so `accepted_acyclic` is not vacuous -/
def okDecl : List PSpec :=
  [{ provides := [[1]], requires := [2, 3] }, { provides := [[2]], requires := [3] }, { provides := [[3]], requires := [9] }]

example : isOk (plan okDecl 1) = true := by decide

/-- 5: cycles: a two-provider cycle, a provider requiring its own output, and a cycle through a struct field -/
def cycDecl : List PSpec := [{ provides := [[1]], requires := [2] }, { provides := [[2]], requires := [1] }]
def selfDecl : List PSpec := [{ provides := [[7]], requires := [1] }, { provides := [[1]], requires := [1] }]
def fieldCycDecl : List PSpec :=
  [{ provides := [[5]], requires := [6] }, { kind := 1, structTy := 5, fields := [("A", 6)] }]

theorem cyc01 : NeedsFn cycDecl 0 1 := ⟨_, _, 2, rfl, rfl, by decide, by simp, ⟨[2], by simp, by simp⟩⟩
theorem cyc10 : NeedsFn cycDecl 1 0 := ⟨_, _, 1, rfl, rfl, by decide, by simp, ⟨[1], by simp, by simp⟩⟩

example : ∃ e, plan cycDecl 1 = .error e :=
  cycle_refused_decl (rp := 0) (q := 0) rfl (by decide) ⟨[1], by simp, by simp⟩ (Reach.refl _)
    (Relation.TransGen.tail (Relation.TransGen.single cyc01) cyc10)
example : errOf (plan cycDecl 1) = some .cycle := by decide

theorem self01 : NeedsFn selfDecl 0 1 := ⟨_, _, 1, rfl, rfl, by decide, by simp, ⟨[1], by simp, by simp⟩⟩
theorem self11 : NeedsFn selfDecl 1 1 := ⟨_, _, 1, rfl, rfl, by decide, by simp, ⟨[1], by simp, by simp⟩⟩

example : ∃ e, plan selfDecl 7 = .error e :=
  cycle_refused_decl (rp := 0) (q := 1) rfl (by decide) ⟨[7], by simp, by simp⟩ (Reach.tail (Reach.refl _) self01)
    (Relation.TransGen.single self11)
example : errOf (plan selfDecl 7) = some .cycle := by decide

/-- the provider of struct 5 requires its own field: provider 0 needs the synthetic field provider 2, which
    needs provider 0 -/
example : ∃ e, plan fieldCycDecl 5 = .error e :=
  cycle_refused (provs := fieldCycDecl ++ [mkFieldProv 5 0 "A" 6]) (sup := [(5, (0, 0)), (6, (2, 0))])
    (rp := 0) (ri := 0) (q := 0) rfl rfl (Reach.refl _)
    (Relation.TransGen.tail (Relation.TransGen.single ⟨6, by decide, 0, rfl⟩) ⟨5, by decide, 0, rfl⟩)
example : errOf (plan fieldCycDecl 5) = some .cycle := by decide

end RefuseExamples

end KV

#print axioms KV.dup_refused
#print axioms KV.field_dup_refused
#print axioms KV.field_dup_refused_dup
#print axioms KV.orphan_refused_unsourced
#print axioms KV.structsSourced_of_ordered
#print axioms KV.orphan_refused
#print axioms KV.accepted_acyclic
#print axioms KV.accepted_acyclic_list
#print axioms KV.cycle_refused
#print axioms KV.cycle_refused_decl
