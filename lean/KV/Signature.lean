import KV.PlanLemmas
import KV.Acyclic
import KV.Value
/-! # C10 — the planned signature is the one the declaration determines

Specification (`Needed`, `Unsupplied`) written directly from the property statement, and the proof that the
signature planned by `KV.plan` (`argTypes`, `sigArgs`, `PlanOut.b.isErr`) is exactly the one it describes. -/
namespace KV

/-! ## Specification -/

/-- provider index `q` is needed for `ret`: it supplies `ret`, or supplies a type required by a needed provider -/
inductive Needed (provs : List PSpec) (sup : SupMap) (ret : Nat) : Nat → Prop
  | root {q gi} : sup.lookup ret = some (q, gi) → Needed provs sup ret q
  | step {q q' gi t} : Needed provs sup ret q → t ∈ (provs.getD q default).requires →
      sup.lookup t = some (q', gi) → Needed provs sup ret q'

/-- `t` is an unsupplied type required by a needed provider, or the unsupplied requested type itself -/
def Unsupplied (provs : List PSpec) (sup : SupMap) (ret : Nat) (t : Nat) : Prop :=
  sup.lookup t = none ∧ (t = ret ∨ ∃ q, Needed provs sup ret q ∧ t ∈ (provs.getD q default).requires)

/-- nothing is needed when nobody supplies the requested type -/
theorem not_needed_of_unsupplied_ret {provs : List PSpec} {sup : SupMap} {ret : Nat} (h : sup.lookup ret = none)
    (q : Nat) : ¬ Needed provs sup ret q := by
  intro hn
  induction hn with
  | root hl => rw [h] at hl; cases hl
  | step _ _ _ ih => exact ih

/-- `Needed` only reads the `requires` of needed providers -/
theorem needed_congr {provs provs' : List PSpec} {sup : SupMap} {ret : Nat}
    (hagree : ∀ q, Needed provs sup ret q → (provs'.getD q default).requires = (provs.getD q default).requires)
    (q : Nat) : Needed provs' sup ret q ↔ Needed provs sup ret q := by
  constructor
  · intro h
    induction h with
    | root hl => exact .root hl
    | step _ ht hl ih => exact .step ih (by rw [← hagree _ ih]; exact ht) hl
  · intro h
    induction h with
    | root hl => exact .root hl
    | step hq ht hl ih => exact .step ih (by rw [hagree _ hq]; exact ht) hl

/-! ## `newGraph2` factors through the supplier map -/

theorem newGraph2_factors (provs0 : List PSpec) (ret : Nat) :
    newGraph2 provs0 ret = (supplierMap provs0 >>= fun ps => graphOf ps.1 ps.2 ret) := by
  simp only [newGraph2, supplierMap, graphOf, bind, Except.bind]
  cases pass1 0 provs0 [] with
  | error e => rfl
  | ok sup1 =>
    simp only
    cases pass2 (provs0.filter (·.kind == 1)) provs0 sup1 with
    | error e => rfl
    | ok r => rfl

theorem newGraph2_ok_iff {provs0 : List PSpec} {ret : Nat} {g : Graph} :
    newGraph2 provs0 ret = .ok g ↔ ∃ provs sup, supplierMap provs0 = .ok (provs, sup) ∧ graphOf provs sup ret = .ok g := by
  rw [newGraph2_factors]
  simp only [bind, Except.bind]
  cases supplierMap provs0 with
  | error e => simp
  | ok r =>
    obtain ⟨provs, sup⟩ := r
    constructor
    · intro h; exact ⟨provs, sup, rfl, h⟩
    · rintro ⟨provs', sup', he, h⟩
      cases he; exact h

theorem supplierMap_supOK_sig {provs0 provs : List PSpec} {sup : SupMap} (h : supplierMap provs0 = .ok (provs, sup)) :
    SupOK' provs sup := by
  simp only [supplierMap, bind, Except.bind] at h
  split at h
  · cases h
  · rename_i sup1 hs1
    have hsup1 : SupOK' provs0 sup1 :=
      pass1_ok (provs := provs0) provs0 [] (by simp) rfl (by intro t p gi hl; simp at hl) hs1
    exact pass2_ok _ hsup1 h

/-! ## BFS: one more invariant (the root node stays what it was) -/

/-- whatever the requirement steps preserve, and the queue bookkeeping cannot see, the BFS loop preserves -/
theorem bfsLoop_preserve {provs : List PSpec} {sup : SupMap} (hsup : SupOK provs sup) (Q : BfsSt → Prop)
    (hqv : ∀ (st : BfsSt) (q v : List Nat), Q st → Q { st with queue := q, visited := v })
    (hstep : ∀ (st : BfsSt) (n1 i t : Nat), BInv provs st (some (n1, i)) → n1 ∈ st.visited → Q st →
      Q (reqStep sup n1 i t st))
    (fuel : Nat) {st : BfsSt} (h : BInv provs st none) (hQ : Q st) : Q (bfsLoop provs sup fuel st) := by
  have hreqs : ∀ (n1 : Nat) (ts : List Nat) (i : Nat) (st : BfsSt), BInv provs st (some (n1, i)) → n1 ∈ st.visited →
      Q st → Q (bfsRequires provs sup n1 i ts st) := by
    intro n1 ts
    induction ts with
    | nil => intro i st _ _ hq; simpa [bfsRequires] using hq
    | cons t ts ih =>
      intro i st hb hn1 hq
      rw [bfsRequires_cons]
      obtain ⟨h1, hext1⟩ := reqStep_inv hsup t hb hn1
      exact ih _ _ h1 (by rw [hext1.visited]; exact hn1) (hstep st n1 i t hb hn1 hq)
  induction fuel generalizing st with
  | zero => simpa [bfsLoop] using hQ
  | succ k ih =>
    simp only [bfsLoop]
    split
    · exact hQ
    · rename_i n1 q hq
      have hn1 : n1 < st.nodes.length := h.qLt n1 (by rw [hq]; exact List.mem_cons_self ..)
      split
      · rename_i hv
        have hv' : n1 ∈ st.visited := by simpa using hv
        have hQ' : Q { st with queue := q } := hqv st q st.visited hQ
        refine ih ?_ hQ'
        exact { lenE := h.lenE, lenR := h.lenR, vLt := h.vLt, edgeOK := h.edgeOK, revOK := h.revOK, uniq := h.uniq,
                revLen := h.revLen, provNodeOK := h.provNodeOK, argNodeOK := h.argNodeOK,
                qLt := fun m hm => h.qLt m (by rw [hq]; exact List.mem_cons_of_mem _ hm),
                seen := by
                  intro m hm
                  rcases h.seen m hm with h1 | h1
                  · rw [hq] at h1
                    simp only [List.mem_cons] at h1
                    rcases h1 with rfl | h1
                    · exact Or.inr hv'
                    · exact Or.inl h1
                  · exact Or.inr h1 }
      · rename_i hv
        have hnv : n1 ∉ st.visited := by simpa using hv
        have hvis := visit_inv h hq hnv
        have hQvis : Q { st with queue := q, visited := st.visited ++ [n1] } := hqv st q _ hQ
        have hget : st.nodes[n1]? = some (st.nodes.getD n1 default) := by
          rw [List.getElem?_eq_getElem hn1, getD_eq_getElem' _ _ _ hn1]
        split
        · rename_i hnone
          rw [show ({ st with queue := q, visited := st.visited ++ [n1] } : BfsSt).nodes = st.nodes from rfl] at hnone
          rw [hget] at hnone; cases hnone
        · rename_i nd hsome
          rw [show ({ st with queue := q, visited := st.visited ++ [n1] } : BfsSt).nodes = st.nodes from rfl] at hsome
          rw [hget] at hsome
          have hnd : nd = st.nodes.getD n1 default := (Option.some.inj hsome).symm
          split
          · rename_i harg
            apply ih _ hQvis
            apply hvis.closeCur
            show 0 = slotsOfNode provs (st.nodes.getD n1 default)
            rw [← hnd]; simp [slotsOfNode, harg]
          · rename_i harg
            have hn1v : n1 ∈ ({ st with queue := q, visited := st.visited ++ [n1] } : BfsSt).visited := by simp
            obtain ⟨h2, hext⟩ := bfsRequires_inv hsup (provs.getD nd.prov default).requires hvis hn1v
            apply ih _ (hreqs n1 _ 0 _ hvis hn1v hQvis)
            apply h2.closeCur
            rw [hext.nodesKeep n1 hn1]
            show 0 + _ = slotsOfNode provs (st.nodes.getD n1 default)
            rw [← hnd]; simp [slotsOfNode, harg]

/-- node 0 exists and is `nd` -/
def RootIs (nd : Node) (st : BfsSt) : Prop := 0 < st.nodes.length ∧ st.nodes.getD 0 default = nd

theorem bfsLoop_root_sig {provs : List PSpec} {sup : SupMap} (hsup : SupOK provs sup) (nd : Node) (fuel : Nat) {st : BfsSt}
    (h : BInv provs st none) (hr : RootIs nd st) : RootIs nd (bfsLoop provs sup fuel st) := by
  refine bfsLoop_preserve hsup (RootIs nd) (fun st q v hq => hq) ?_ fuel h hr
  intro st n1 i t hb hn1 hq
  obtain ⟨_, hext⟩ := reqStep_inv hsup t hb hn1
  exact ⟨Nat.lt_of_lt_of_le hq.1 hext.nodesLe, by rw [hext.nodesKeep 0 hq.1]; exact hq.2⟩

/-! ## The nodes of a drained BFS state are the needed providers and the unsupplied keys they require -/

theorem bfs_nodes_needed {provs : List PSpec} {sup : SupMap} {ret rp ri : Nat} {st : BfsSt}
    (hl : sup.lookup ret = some (rp, ri))
    (h : BInv provs st none) (hp : EProv provs sup st) (ho : OutBack st) (hq : st.queue = [])
    (hroot : RootIs { isArg := false, prov := rp } st) (q : Nat) :
    (∃ n, n < st.nodes.length ∧ (st.nodes.getD n default).isArg = false ∧ (st.nodes.getD n default).prov = q) ↔
      Needed provs sup ret q := by
  constructor
  · rintro ⟨n, hn, hna, hpq⟩
    induction n using Nat.strongRecOn generalizing q with
    | _ n ih =>
      by_cases hn0 : n = 0
      · subst hn0
        rw [hroot.2] at hpq
        subst hpq
        exact .root hl
      · obtain ⟨e, he, hlt⟩ := ho n (by omega) hn
        obtain ⟨t, ht, hpo⟩ := hp n e he
        obtain ⟨_, hdv, _, _⟩ := h.edgeOK n e he
        have hdl := h.vLt _ hdv
        have hdna : (st.nodes.getD e.dst default).isArg = false := by
          cases hd : (st.nodes.getD e.dst default).isArg with
          | false => rfl
          | true => unfold reqOf at ht; rw [hd] at ht; simp at ht
        have hneed := ih e.dst hlt _ hdl hdna rfl
        have htm : t ∈ (provs.getD (st.nodes.getD e.dst default).prov default).requires := by
          have := List.mem_of_getElem? ht
          unfold reqOf at this; rw [hdna] at this; simpa using this
        rcases hpo with ⟨p, gi, hls, _, hpp, _⟩ | ⟨_, hia, _, _⟩
        · rw [hpq] at hpp; subst hpp
          exact .step hneed htm hls
        · rw [hna] at hia; cases hia
  · intro hn
    induction hn with
    | root hl' =>
      rw [hl] at hl'; cases hl'
      exact ⟨0, hroot.1, by rw [hroot.2], by rw [hroot.2]⟩
    | @step q0 q' gi t _ ht hls ih =>
      obtain ⟨m, hm, hna, hpm⟩ := ih
      have ht' : t ∈ reqOf provs st m := by unfold reqOf; rw [hna, hpm]; simpa using ht
      obtain ⟨i, hil, hget⟩ := List.getElem_of_mem ht'
      have hmv : m ∈ st.visited := by
        rcases h.seen m hm with h1 | h1
        · rw [hq] at h1; simp at h1
        · exact h1
      have hrl := h.revLen m hm
      simp only [expectedRev, hmv, ↓reduceIte] at hrl
      have hslots : slotsOfNode provs (st.nodes.getD m default) = (reqOf provs st m).length := by
        unfold slotsOfNode reqOf
        rw [hna]; rfl
      have hirev : i < (st.rev.getD m []).length := by rw [hrl, hslots]; exact hil
      have hrev : (st.rev.getD m [])[i]? = some ((st.rev.getD m [])[i]) := List.getElem?_eq_getElem hirev
      obtain ⟨e, he, hed, hes⟩ := h.revOK m i _ hrev
      obtain ⟨t', ht'', hpo⟩ := hp _ e he
      rw [hed, hes, List.getElem?_eq_getElem hil, hget] at ht''
      have htt : t = t' := Option.some.inj ht''
      subst htt
      obtain ⟨hdl, _, _, _⟩ := h.edgeOK _ e he
      rcases hpo with ⟨p, gi', hls', hia, hpp, _⟩ | ⟨hnone, _, _, _⟩
      · rw [hls] at hls'; cases hls'
        exact ⟨_, hdl, hia, hpp⟩
      · rw [hls] at hnone; cases hnone

/-! ## What `newGraph2` delivers, in terms of the specification -/

structure GSpec (provs : List PSpec) (sup : SupMap) (ret : Nat) (g : Graph) : Prop where
  provsEq : g.provs = provs
  retNode : g.retNode = 0
  gwf : GWF2 g
  outBack : ∀ n, 0 < n → n < g.nodes.length → ∃ e, e ∈ g.edges.getD n [] ∧ e.dst < n
  provNodes : ∀ q, (∃ n, n < g.nodes.length ∧ (g.nodes.getD n default).isArg = false ∧
      (g.nodes.getD n default).prov = q) ↔ Needed provs sup ret q
  argNodes : ∀ t, (∃ n, n < g.nodes.length ∧ (g.nodes.getD n default).isArg = true ∧
      (g.nodes.getD n default).ty = t) ↔ Unsupplied provs sup ret t
  argInj : ∀ n n', n < g.nodes.length → n' < g.nodes.length → (g.nodes.getD n default).isArg = true →
      (g.nodes.getD n' default).isArg = true → (g.nodes.getD n default).ty = (g.nodes.getD n' default).ty → n = n'

theorem graphOf_spec {provs : List PSpec} {sup : SupMap} {ret : Nat} {g : Graph} (hsup' : SupOK' provs sup)
    (hg : graphOf provs sup ret = .ok g) : GSpec provs sup ret g := by
  have hsup : SupOK provs sup := supOK_of_supOK' hsup'
  unfold graphOf at hg
  split at hg
  · rename_i hlook
    simp only [pure, Except.pure] at hg
    cases hg
    have hnode : ∀ n, n < 1 → ([{ isArg := true, ty := ret }] : List Node).getD n default = { isArg := true, ty := ret } := by
      intro n hn
      have : n = 0 := by omega
      subst this; rfl
    refine { provsEq := rfl, retNode := rfl, gwf := gwf2_single_arg provs ret, outBack := ?_, provNodes := ?_,
             argNodes := ?_, argInj := ?_ }
    · intro n h0 hn
      simp only [List.length_singleton] at hn
      omega
    · intro q
      constructor
      · rintro ⟨n, hn, hna, _⟩
        simp only [List.length_singleton] at hn
        rw [hnode n hn] at hna; cases hna
      · intro hn; exact absurd hn (not_needed_of_unsupplied_ret hlook q)
    · intro t
      constructor
      · rintro ⟨n, hn, _, hty⟩
        simp only [List.length_singleton] at hn
        rw [hnode n hn] at hty
        simp only at hty
        subst hty
        exact ⟨hlook, Or.inl rfl⟩
      · rintro ⟨_, hr | ⟨q, hq, _⟩⟩
        · subst hr
          exact ⟨0, by simp, rfl, rfl⟩
        · exact absurd hq (not_needed_of_unsupplied_ret hlook q)
    · intro n n' hn hn' _ _ _
      simp only [List.length_singleton] at hn hn'
      omega
  · rename_i rp ri hlook
    simp only at hg
    split at hg
    · cases hg
    · split at hg
      · cases hg
      · rename_i hq _
        simp only [pure, Except.pure] at hg
        cases hg
        have hqe : (bfsLoop provs sup (bfsFuel provs) (bfsInit rp)).queue = [] := by
          cases hqq : (bfsLoop provs sup (bfsFuel provs) (bfsInit rp)).queue with
          | nil => rfl
          | cons a as => rw [hqq] at hq; simp at hq
        have hB0 := bfsInit_inv provs rp
        have hB := bfsLoop_inv hsup (bfsFuel provs) hB0
        have hP := bfsLoop_prov hsup (bfsFuel provs) hB0 (bfsInit_prov provs sup rp)
        have hA := bfsLoop_ainv hsup (bfsFuel provs) hB0 (bfsInit_ainv rp)
        have hO : OutBack (bfsLoop provs sup (bfsFuel provs) (bfsInit rp)) := by
          apply bfsLoop_outBack hsup (bfsFuel provs) hB0
          intro n h0 hn
          simp [bfsInit] at hn; omega
        have hR : RootIs { isArg := false, prov := rp } (bfsLoop provs sup (bfsFuel provs) (bfsInit rp)) :=
          bfsLoop_root_sig hsup _ (bfsFuel provs) hB0 ⟨by simp [bfsInit], rfl⟩
        generalize bfsLoop provs sup (bfsFuel provs) (bfsInit rp) = st at hqe hB hP hA hO hR
        have hneeded := bfs_nodes_needed hlook hB hP hO hqe hR
        obtain ⟨hc1, hc2, hc3⟩ := args_characterisation hB hP hA hqe (by rw [hR.2])
        refine { provsEq := rfl, retNode := rfl, gwf := gwf2_of_binv hB hqe ri, outBack := hO, provNodes := hneeded,
                 argNodes := ?_, argInj := hc3 }
        intro t
        constructor
        · rintro ⟨n, hn, hia, hty⟩
          obtain ⟨hnone, m, i, hm, hma, hreq⟩ := hc1 n hn hia
          rw [hty] at hnone hreq
          refine ⟨hnone, Or.inr ⟨(st.nodes.getD m default).prov, (hneeded _).mp ⟨m, hm, hma, rfl⟩, ?_⟩⟩
          have := List.mem_of_getElem? hreq
          unfold reqOf at this; rw [hma] at this; simpa using this
        · rintro ⟨hnone, hr | ⟨q, hq, hreq⟩⟩
          · subst hr; rw [hlook] at hnone; cases hnone
          · obtain ⟨m, hm, hma, hpm⟩ := (hneeded q).mpr hq
            exact hc2 m hm hma t (by unfold reqOf; rw [hma, hpm]; simpa using hreq) hnone

/-- the graph of an accepted declaration, in terms of the specification -/
theorem newGraph2_spec {provs0 provs : List PSpec} {sup : SupMap} {ret : Nat} {g : Graph}
    (hs : supplierMap provs0 = .ok (provs, sup)) (hg : newGraph2 provs0 ret = .ok g) : GSpec provs sup ret g := by
  obtain ⟨provs', sup', hs', hg'⟩ := newGraph2_ok_iff.mp hg
  rw [hs] at hs'; cases hs'
  exact graphOf_spec (supplierMap_supOK_sig hs) hg'

/-! ## First pass of `Build`: the injector arguments and the error flag -/

def nodeIsErr (g : Graph) (n : Nat) : Bool := (g.provs.getD (g.nodes.getD n default).prov default).isErr

/-- after the prefix `done`: `args` lists the parameters of the argument nodes of `done`, in order; the error
    flag is set iff a provider node of `done` can fail -/
structure P1Sig (g : Graph) (done : List Nat) (st : P1St) : Prop where
  argsLt : ∀ v ∈ st.args, v < st.params.length
  argsNodes : st.args.map (fun v => (st.params.getD v default).node) = done.filter (isArgNode g)
  err : st.isErr = true ↔ ∃ n ∈ done, isArgNode g n = false ∧ nodeIsErr g n = true

theorem p1Init_sig (g : Graph) (k : Nat) : P1Sig g [] (p1Init g k) where
  argsLt := by intro v hv; simp [p1Init] at hv
  argsNodes := by simp [p1Init]
  err := by simp [p1Init]

theorem map_node_append (ps qs : List Param) (l : List Nat) (hl : ∀ v ∈ l, v < ps.length) :
    l.map (fun v => ((ps ++ qs).getD v default).node) = l.map (fun v => (ps.getD v default).node) := by
  apply List.map_congr_left
  intro v hv
  rw [getD_append_left _ _ _ _ (hl v hv)]

theorem p1Step_sig {g : Graph} {done : List Nat} {st : P1St} (n : Nat) (h : P1Sig g done st) :
    P1Sig g (done ++ [n]) (p1Step g st n) := by
  unfold p1Step
  by_cases harg : (g.nodes.getD n default).isArg = true
  · have hA : isArgNode g n = true := harg
    simp only [harg, ↓reduceIte]
    refine { argsLt := ?_, argsNodes := ?_, err := ?_ }
    · intro v hv
      simp only [List.mem_append, List.mem_singleton] at hv
      simp only [List.length_append, List.length_singleton]
      rcases hv with hv | rfl
      · have := h.argsLt v hv; omega
      · omega
    · simp only [List.map_append, List.map_cons, List.map_nil, List.filter_append, List.filter_cons, List.filter_nil,
        hA, ↓reduceIte]
      rw [map_node_append _ _ _ h.argsLt, h.argsNodes, getD_append_right_new]
    · show st.isErr = true ↔ _
      rw [h.err]
      constructor
      · rintro ⟨m, hm, h1, h2⟩; exact ⟨m, List.mem_append_left _ hm, h1, h2⟩
      · rintro ⟨m, hm, h1, h2⟩
        simp only [List.mem_append, List.mem_singleton] at hm
        rcases hm with hm | rfl
        · exact ⟨m, hm, h1, h2⟩
        · rw [hA] at h1; cases h1
  · have harg' : (g.nodes.getD n default).isArg = false := by simpa using harg
    have hA : isArgNode g n = false := harg'
    simp only [harg', Bool.false_eq_true, ↓reduceIte]
    refine { argsLt := ?_, argsNodes := ?_, err := ?_ }
    · intro v hv
      simp only [List.length_append]
      have := h.argsLt v hv; omega
    · simp only [List.filter_append, List.filter_cons, List.filter_nil, hA, Bool.false_eq_true, ↓reduceIte,
        List.append_nil]
      rw [map_node_append _ _ _ h.argsLt, h.argsNodes]
    · show (st.isErr || nodeIsErr g n) = true ↔ _
      rw [Bool.or_eq_true, h.err]
      constructor
      · rintro (⟨m, hm, h1, h2⟩ | he)
        · exact ⟨m, List.mem_append_left _ hm, h1, h2⟩
        · exact ⟨n, by simp, hA, he⟩
      · rintro ⟨m, hm, h1, h2⟩
        simp only [List.mem_append, List.mem_singleton] at hm
        rcases hm with hm | rfl
        · exact Or.inl ⟨m, hm, h1, h2⟩
        · exact Or.inr h2

theorem foldl_p1_sig {g : Graph} (l : List Nat) (done : List Nat) (st : P1St) (h : P1Sig g done st) :
    P1Sig g (done ++ l) (l.foldl (p1Step g) st) := by
  induction l generalizing done st with
  | nil => simpa using h
  | cons x xs ih =>
    simp only [List.foldl_cons]
    have := ih (done ++ [x]) (p1Step g st x) (p1Step_sig x h)
    simpa [List.append_assoc] using this

theorem bpass1_sig (g : Graph) (order : List Nat) (k : Nat) : P1Sig g order (bpass1 g order k) := by
  have := foldl_p1_sig (g := g) order [] (p1Init g k) (p1Init_sig g k)
  simpa [bpass1] using this

theorem build2_sig {g : Graph} {b : BuildOut} (hb : build2 g = .ok b) :
    g.retNode ∈ topoOrder g ∧
    b.args.map (fun v => (b.params.getD v default).node) = (topoOrder g).filter (isArgNode g) ∧
    (b.isErr = true ↔ ∃ n ∈ topoOrder g, isArgNode g n = false ∧ nodeIsErr g n = true) := by
  simp only [build2] at hb
  split at hb
  · rename_i hc
    cases hb
    have h1 := bpass1_sig g (topoOrder g) (maxAntichain g)
    have h2 := bpass2_inv g (topoOrder g) (bpass1 g (topoOrder g) (maxAntichain g))
      (listModify (bpass1 g (topoOrder g) (maxAntichain g)).params
        (retParamOf g (bpass1 g (topoOrder g) (maxAntichain g))) refBump)
    refine ⟨by simpa using hc, ?_, h1.err⟩
    rw [← h1.argsNodes]
    apply List.map_congr_left
    intro v _
    show ((bpass2 _ _ _ _).params.getD v default).node = _
    rw [h2.pnode v, (getD_listModify_fields _ _ v).2.1]
  · cases hb

/-! ## The plan of an accepted declaration -/

/-- every discovered node is emitted, the emission order has no duplicates, and the argument list / error flag
    of the plan are read off that order -/
theorem plan_sig_facts {provs0 provs : List PSpec} {sup : SupMap} {ret : Nat} {p : PlanOut}
    (h : plan provs0 ret = .ok p) (hs : supplierMap provs0 = .ok (provs, sup)) :
    GSpec provs sup ret p.g ∧ (∀ n, n ∈ topoOrder p.g ↔ n < p.g.nodes.length) ∧ (topoOrder p.g).Nodup ∧
    argTypes p = ((topoOrder p.g).filter (isArgNode p.g)).map (fun n => (p.g.nodes.getD n default).ty) ∧
    (p.b.isErr = true ↔ ∃ n, n < p.g.nodes.length ∧ isArgNode p.g n = false ∧ nodeIsErr p.g n = true) := by
  obtain ⟨hg, hb, _⟩ := plan_ok h
  have hspec := newGraph2_spec hs hg
  obtain ⟨hsound, hnd, hlt⟩ := topoOrder_sound hspec.gwf.toGWF
  obtain ⟨hret, hargs, herr⟩ := build2_sig hb
  rw [hspec.retNode] at hret
  have hall := all_in_order hspec.gwf hsound hspec.outBack hret
  have hmem : ∀ n, n ∈ topoOrder p.g ↔ n < p.g.nodes.length := fun n => ⟨hlt n, hall n⟩
  refine ⟨hspec, hmem, hnd, ?_, ?_⟩
  · unfold argTypes
    rw [← hargs, List.map_map]
    rfl
  · rw [herr]
    constructor
    · rintro ⟨n, hn, h1, h2⟩; exact ⟨n, (hmem n).mp hn, h1, h2⟩
    · rintro ⟨n, hn, h1, h2⟩; exact ⟨n, (hmem n).mpr hn, h1, h2⟩

/-! ## C10 -/

/-- **1.** the planned graph keeps the providers of the supplier map, and its provider nodes are exactly the
    needed providers -/
theorem nodes_are_needed {provs0 provs : List PSpec} {sup : SupMap} {ret : Nat} {p : PlanOut}
    (h : plan provs0 ret = .ok p) (hs : supplierMap provs0 = .ok (provs, sup)) :
    p.g.provs = provs ∧
    ∀ q, (∃ n, n < p.g.nodes.length ∧ (p.g.nodes.getD n default).isArg = false ∧ (p.g.nodes.getD n default).prov = q) ↔
      Needed provs sup ret q := by
  obtain ⟨hspec, _⟩ := plan_sig_facts h hs
  exact ⟨hspec.provsEq, hspec.provNodes⟩

theorem mem_argTypes_iff {provs0 provs : List PSpec} {sup : SupMap} {ret : Nat} {p : PlanOut}
    (h : plan provs0 ret = .ok p) (hs : supplierMap provs0 = .ok (provs, sup)) (t : Nat) :
    t ∈ argTypes p ↔ ∃ n, n < p.g.nodes.length ∧ (p.g.nodes.getD n default).isArg = true ∧
      (p.g.nodes.getD n default).ty = t := by
  obtain ⟨_, hmem, _, hargs, _⟩ := plan_sig_facts h hs
  rw [hargs]
  simp only [List.mem_map, List.mem_filter]
  constructor
  · rintro ⟨n, ⟨hn, hia⟩, hty⟩; exact ⟨n, (hmem n).mp hn, hia, hty⟩
  · rintro ⟨n, hn, hia, hty⟩; exact ⟨n, ⟨(hmem n).mpr hn, hia⟩, hty⟩

/-- **2.** the parameters (before the context is injected) are exactly the unsupplied types, each exactly once -/
theorem params_exact {provs0 provs : List PSpec} {sup : SupMap} {ret : Nat} {p : PlanOut}
    (h : plan provs0 ret = .ok p) (hs : supplierMap provs0 = .ok (provs, sup)) :
    (∀ t, t ∈ argTypes p ↔ Unsupplied provs sup ret t) ∧ (argTypes p).Nodup := by
  obtain ⟨hspec, hmem, hnd, hargs, _⟩ := plan_sig_facts h hs
  refine ⟨fun t => (mem_argTypes_iff h hs t).trans (hspec.argNodes t), ?_⟩
  rw [hargs]
  have hnd' : ((topoOrder p.g).filter (isArgNode p.g)).Nodup := hnd.sublist List.filter_sublist
  unfold List.Nodup at hnd' ⊢
  rw [List.pairwise_map]
  refine hnd'.imp_of_mem ?_
  intro a b ha hb hab hty
  simp only [List.mem_filter] at ha hb
  exact hab (hspec.argInj a b ((hmem a).mp ha.1) ((hmem b).mp hb.1) ha.2 hb.2 hty)

theorem isAsyncNode_lt (g : Graph) {n : Nat} (hn : n < g.nodes.length) :
    isAsyncNode g n = (!(g.nodes.getD n default).isArg && (g.provs.getD (g.nodes.getD n default).prov default).isAsync) := by
  unfold isAsyncNode
  rw [List.getElem?_eq_getElem hn, getD_eq_getElem' _ _ _ hn]

/-- an Async node is planned iff a needed provider is Async -/
theorem hasAsync_iff {provs0 provs : List PSpec} {sup : SupMap} {ret : Nat} {p : PlanOut}
    (h : plan provs0 ret = .ok p) (hs : supplierMap provs0 = .ok (provs, sup)) :
    hasAsyncNodes p.g = true ↔ ∃ q, Needed provs sup ret q ∧ (provs.getD q default).isAsync = true := by
  obtain ⟨hspec, _⟩ := plan_sig_facts h hs
  unfold hasAsyncNodes
  rw [List.any_eq_true]
  constructor
  · rintro ⟨n, hn, ha⟩
    rw [List.mem_range] at hn
    rw [isAsyncNode_lt _ hn, Bool.and_eq_true, Bool.not_eq_true', hspec.provsEq] at ha
    exact ⟨_, (hspec.provNodes _).mp ⟨n, hn, ha.1, rfl⟩, ha.2⟩
  · rintro ⟨q, hq, ha⟩
    obtain ⟨n, hn, hna, hpq⟩ := (hspec.provNodes q).mpr hq
    refine ⟨n, List.mem_range.mpr hn, ?_⟩
    rw [isAsyncNode_lt _ hn, hna, hpq, hspec.provsEq, ha]; rfl

/-- **3.** `context.Context` is a parameter exactly when a needed provider is Async or it is itself an unsupplied
    type; it comes first whenever a needed provider is Async; no parameter is repeated; and every other type is
    a parameter exactly when it is an unsupplied type -/
theorem ctx_param {provs0 provs : List PSpec} {sup : SupMap} {ret : Nat} {p : PlanOut}
    (h : plan provs0 ret = .ok p) (hs : supplierMap provs0 = .ok (provs, sup)) :
    (ctxTy ∈ sigArgs p ↔
      (∃ q, Needed provs sup ret q ∧ (provs.getD q default).isAsync = true) ∨ Unsupplied provs sup ret ctxTy) ∧
    ((∃ q, Needed provs sup ret q ∧ (provs.getD q default).isAsync = true) → (sigArgs p).head? = some ctxTy) ∧
    (sigArgs p).Nodup ∧
    (∀ t, t ≠ ctxTy → (t ∈ sigArgs p ↔ Unsupplied provs sup ret t)) := by
  obtain ⟨hmem, hnd⟩ := params_exact h hs
  have hasync := hasAsync_iff h hs
  by_cases ha : hasAsyncNodes p.g = true
  · have hsig : sigArgs p = ctxTy :: (argTypes p).erase ctxTy := by unfold sigArgs; rw [if_pos ha]
    rw [hsig]
    refine ⟨?_, fun _ => rfl, ?_, ?_⟩
    · constructor
      · intro _; exact Or.inl (hasync.mp ha)
      · intro _; exact List.mem_cons_self ..
    · rw [List.nodup_cons]
      exact ⟨fun hc => (hnd.mem_erase_iff.mp hc).1 rfl, hnd.erase _⟩
    · intro t ht
      rw [List.mem_cons, List.mem_erase_of_ne ht, hmem t]
      constructor
      · rintro (h1 | h1)
        · exact absurd h1 ht
        · exact h1
      · intro h1; exact Or.inr h1
  · have hsig : sigArgs p = argTypes p := by unfold sigArgs; rw [if_neg ha]
    rw [hsig]
    have hno : ¬ ∃ q, Needed provs sup ret q ∧ (provs.getD q default).isAsync = true := fun hc => ha (hasync.mpr hc)
    refine ⟨?_, fun hc => absurd hc hno, hnd, fun t _ => hmem t⟩
    rw [hmem ctxTy]
    constructor
    · intro h1; exact Or.inr h1
    · rintro (h1 | h1)
      · exact absurd h1 hno
      · exact h1

/-- **4.** the injector returns an error exactly when some needed provider can -/
theorem error_result {provs0 provs : List PSpec} {sup : SupMap} {ret : Nat} {p : PlanOut}
    (h : plan provs0 ret = .ok p) (hs : supplierMap provs0 = .ok (provs, sup)) :
    p.b.isErr = true ↔ ∃ q, Needed provs sup ret q ∧ (provs.getD q default).isErr = true := by
  obtain ⟨hspec, _, _, _, herr⟩ := plan_sig_facts h hs
  rw [herr]
  constructor
  · rintro ⟨n, hn, hna, he⟩
    unfold nodeIsErr at he
    rw [hspec.provsEq] at he
    exact ⟨_, (hspec.provNodes _).mp ⟨n, hn, hna, rfl⟩, he⟩
  · rintro ⟨q, hq, he⟩
    obtain ⟨n, hn, hna, hpq⟩ := (hspec.provNodes q).mpr hq
    refine ⟨n, hn, hna, ?_⟩
    unfold nodeIsErr
    rw [hspec.provsEq, hpq]; exact he

/-- an accepted declaration has a provider node: `buildStmts2` refuses (`noInitial`) a plan without one -/
theorem plan_has_provider_node {provs0 : List PSpec} {ret : Nat} {p : PlanOut} (h : plan provs0 ret = .ok p) :
    ∃ n, n < p.g.nodes.length ∧ (p.g.nodes.getD n default).isArg = false := by
  apply Classical.byContradiction
  intro hno
  have hall : ∀ n, n < p.g.nodes.length → isArgNode p.g n = true := by
    intro n hn
    cases hc : isArgNode p.g n with
    | true => rfl
    | false => exact absurd ⟨n, hn, hc⟩ hno
  obtain ⟨hg, hb, hst⟩ := plan_ok h
  have hgw := newGraph2_gwf hg
  obtain ⟨_, hnd, hlt⟩ := topoOrder_sound hgw.toGWF
  have h1 := bpass1_inv (g := p.g) (topoOrder p.g) (maxAntichain p.g) hnd hlt
  have hempty : ∀ i, p.b.pools.getD i [] = [] := by
    intro i
    rw [build2_pools hb]
    cases hp : (bpass1 p.g (topoOrder p.g) (maxAntichain p.g)).pools.getD i [] with
    | nil => rfl
    | cons n ns =>
      have hmem : n ∈ (bpass1 p.g (topoOrder p.g) (maxAntichain p.g)).pools.getD i [] := by rw [hp]; exact List.mem_cons_self ..
      have h2 := h1.poolOf i n hmem
      have h3 := h1.argNoPool n (hall n (hlt n ((h1.sub i).subset hmem)))
      rw [h3] at h2; cases h2
  unfold buildStmts2 at hst
  split at hst
  · cases hst
  · rename_i st hss
    unfold stmtsState at hss
    simp only at hss
    split at hss
    · cases hss
    · rename_i hne
      cases hi : (List.range p.b.pools.length).filter (isInitial p.g p.b.pools) with
      | nil => rw [hi] at hne; simp at hne
      | cons i is =>
        have : i ∈ (List.range p.b.pools.length).filter (isInitial p.g p.b.pools) := by rw [hi]; exact List.mem_cons_self ..
        exact isInitial_nonempty (List.mem_filter.mp this).2 (hempty i)

/-- hence the requested type of an accepted declaration always has a supplier (the `t = ret` alternative of
    `Unsupplied` never applies to a declaration the model accepts) -/
theorem plan_ret_supplied {provs0 provs : List PSpec} {sup : SupMap} {ret : Nat} {p : PlanOut}
    (h : plan provs0 ret = .ok p) (hs : supplierMap provs0 = .ok (provs, sup)) :
    ∃ rp ri, sup.lookup ret = some (rp, ri) ∧ Needed provs sup ret rp := by
  obtain ⟨n, hn, hna⟩ := plan_has_provider_node h
  have hneed := ((nodes_are_needed h hs).2 _).mp ⟨n, hn, hna, rfl⟩
  cases hl : sup.lookup ret with
  | none => exact absurd hneed (not_needed_of_unsupplied_ret hl _)
  | some r => exact ⟨r.1, r.2, rfl, .root hl⟩

/-- the supplier map exists whenever the declaration is accepted, so the hypotheses above are always met -/
theorem plan_supplierMap {provs0 : List PSpec} {ret : Nat} {p : PlanOut} (h : plan provs0 ret = .ok p) :
    ∃ provs sup, supplierMap provs0 = .ok (provs, sup) := by
  obtain ⟨provs, sup, hs, _⟩ := newGraph2_ok_iff.mp (plan_ok h).1
  exact ⟨provs, sup, hs⟩

/-- **C10, in one statement.** -/
theorem C10_signature {provs0 : List PSpec} {ret : Nat} {p : PlanOut} (h : plan provs0 ret = .ok p) :
    ∃ provs sup, supplierMap provs0 = .ok (provs, sup) ∧
      (∀ t, t ∈ argTypes p ↔ Unsupplied provs sup ret t) ∧ (argTypes p).Nodup ∧
      (∀ t, t ≠ ctxTy → (t ∈ sigArgs p ↔ Unsupplied provs sup ret t)) ∧
      (ctxTy ∈ sigArgs p ↔
        (∃ q, Needed provs sup ret q ∧ (provs.getD q default).isAsync = true) ∨ Unsupplied provs sup ret ctxTy) ∧
      ((∃ q, Needed provs sup ret q ∧ (provs.getD q default).isAsync = true) → (sigArgs p).head? = some ctxTy) ∧
      (sigArgs p).Nodup ∧
      (p.b.isErr = true ↔ ∃ q, Needed provs sup ret q ∧ (provs.getD q default).isErr = true) := by
  obtain ⟨provs, sup, hs⟩ := plan_supplierMap h
  obtain ⟨h1, h2⟩ := params_exact h hs
  obtain ⟨h3, h4, h5, h6⟩ := ctx_param h hs
  exact ⟨provs, sup, hs, h1, h2, h6, h3, h4, h5, error_result h hs⟩

/-! ## Unneeded providers influence nothing -/

/-- without a needed Async provider there is no context parameter unless it is itself an unsupplied type, and
    without a needed fallible provider there is no error result — whatever the unneeded providers are -/
theorem unneeded_no_ctx_no_err {provs0 provs : List PSpec} {sup : SupMap} {ret : Nat} {p : PlanOut}
    (h : plan provs0 ret = .ok p) (hs : supplierMap provs0 = .ok (provs, sup)) :
    ((∀ q, Needed provs sup ret q → (provs.getD q default).isAsync = false) → sigArgs p = argTypes p) ∧
    ((∀ q, Needed provs sup ret q → (provs.getD q default).isErr = false) → p.b.isErr = false) := by
  constructor
  · intro hall
    unfold sigArgs
    rw [if_neg]
    intro hc
    obtain ⟨q, hq, ha⟩ := (hasAsync_iff h hs).mp hc
    rw [hall q hq] at ha; cases ha
  · intro hall
    cases he : p.b.isErr with
    | false => rfl
    | true =>
      obtain ⟨q, hq, ha⟩ := (error_result h hs).mp he
      rw [hall q hq] at ha; cases ha

theorem unsupplied_congr {provs provs' : List PSpec} {sup : SupMap} {ret : Nat}
    (hagree : ∀ q, Needed provs sup ret q → (provs'.getD q default).requires = (provs.getD q default).requires)
    (t : Nat) : Unsupplied provs' sup ret t ↔ Unsupplied provs sup ret t := by
  unfold Unsupplied
  constructor
  · rintro ⟨h1, h2 | ⟨q, hq, ht⟩⟩
    · exact ⟨h1, Or.inl h2⟩
    · have hq' := (needed_congr hagree q).mp hq
      exact ⟨h1, Or.inr ⟨q, hq', by rw [← hagree q hq']; exact ht⟩⟩
  · rintro ⟨h1, h2 | ⟨q, hq, ht⟩⟩
    · exact ⟨h1, Or.inl h2⟩
    · exact ⟨h1, Or.inr ⟨q, (needed_congr hagree q).mpr hq, by rw [hagree q hq]; exact ht⟩⟩

/-- two accepted declarations with the same supplier map whose providers agree on everything the specification
    reads of the *needed* ones have the same signature: same error result, same parameters (as a duplicate-free
    list, up to order), context first in both or in neither -/
theorem signature_of_needed {provs0 provs0' provs provs' : List PSpec} {sup : SupMap} {ret : Nat} {p p' : PlanOut}
    (h : plan provs0 ret = .ok p) (hs : supplierMap provs0 = .ok (provs, sup))
    (h' : plan provs0' ret = .ok p') (hs' : supplierMap provs0' = .ok (provs', sup))
    (hagree : ∀ q, Needed provs sup ret q →
      (provs'.getD q default).requires = (provs.getD q default).requires ∧
      (provs'.getD q default).isAsync = (provs.getD q default).isAsync ∧
      (provs'.getD q default).isErr = (provs.getD q default).isErr) :
    p'.b.isErr = p.b.isErr ∧ hasAsyncNodes p'.g = hasAsyncNodes p.g ∧ (sigArgs p').Perm (sigArgs p) := by
  have hreq : ∀ q, Needed provs sup ret q → (provs'.getD q default).requires = (provs.getD q default).requires :=
    fun q hq => (hagree q hq).1
  have hN := needed_congr hreq
  have hU := unsupplied_congr hreq
  have hasyncEx : (∃ q, Needed provs' sup ret q ∧ (provs'.getD q default).isAsync = true) ↔
      (∃ q, Needed provs sup ret q ∧ (provs.getD q default).isAsync = true) := by
    constructor
    · rintro ⟨q, hq, ha⟩
      have hq' := (hN q).mp hq
      exact ⟨q, hq', by rw [← (hagree q hq').2.1]; exact ha⟩
    · rintro ⟨q, hq, ha⟩
      exact ⟨q, (hN q).mpr hq, by rw [(hagree q hq).2.1]; exact ha⟩
  refine ⟨?_, ?_, ?_⟩
  · rw [Bool.eq_iff_iff, error_result h hs, error_result h' hs']
    constructor
    · rintro ⟨q, hq, ha⟩
      have hq' := (hN q).mp hq
      exact ⟨q, hq', by rw [← (hagree q hq').2.2]; exact ha⟩
    · rintro ⟨q, hq, ha⟩
      exact ⟨q, (hN q).mpr hq, by rw [(hagree q hq).2.2]; exact ha⟩
  · rw [Bool.eq_iff_iff, hasAsync_iff h hs, hasAsync_iff h' hs']
    exact hasyncEx
  · obtain ⟨hc, _, hnd, hoth⟩ := ctx_param h hs
    obtain ⟨hc', _, hnd', hoth'⟩ := ctx_param h' hs'
    rw [List.perm_ext_iff_of_nodup hnd' hnd]
    intro t
    by_cases ht : t = ctxTy
    · subst ht
      rw [hc, hc', hasyncEx, hU]
    · rw [hoth t ht, hoth' t ht, hU]

/-! ### the supplier map does not read `requires`, `isAsync`, `isErr` -/

/-- two provider specs that differ at most in `requires`, `isAsync`, `isErr` (and the field name) -/
def SameShape (a b : PSpec) : Prop :=
  a.kind = b.kind ∧ a.provides = b.provides ∧ a.structTy = b.structTy ∧ a.decl = b.decl ∧ a.fields = b.fields

theorem SameShape.refl (a : PSpec) : SameShape a a := ⟨rfl, rfl, rfl, rfl, rfl⟩

/-- position by position, the same shape -/
inductive Shaped : List PSpec → List PSpec → Prop
  | nil : Shaped [] []
  | cons {a b l l'} : SameShape a b → Shaped l l' → Shaped (a :: l) (b :: l')

theorem shaped_refl : ∀ l : List PSpec, Shaped l l
  | [] => .nil
  | a :: l => .cons (SameShape.refl a) (shaped_refl l)

theorem shaped_set : ∀ (l : List PSpec) (u : Nat) (x : PSpec), SameShape (l.getD u default) x →
    Shaped l (l.set u x)
  | [], _, _, _ => .nil
  | _ :: l, 0, _, h => .cons h (shaped_refl l)
  | a :: l, u + 1, x, h => .cons (SameShape.refl a) (shaped_set l u x h)

theorem shaped_length {l l' : List PSpec} (h : Shaped l l') :
    l.length = l'.length := by
  induction h with
  | nil => rfl
  | cons _ _ ih => simp [ih]

theorem shaped_getD {l l' : List PSpec} (h : Shaped l l') (i : Nat) :
    SameShape (l.getD i default) (l'.getD i default) := by
  induction h generalizing i with
  | nil => exact SameShape.refl _
  | cons hab _ ih =>
    cases i with
    | zero => exact hab
    | succ i => exact ih i

theorem pass1_shape {ps ps' : List PSpec} (h : Shaped ps ps') (pi : Nat) (m : SupMap) :
    pass1 pi ps' m = pass1 pi ps m := by
  induction h generalizing pi m with
  | nil => rfl
  | @cons a b l l' hab _ ih =>
    obtain ⟨hk, hp, _⟩ := hab
    simp only [pass1, hk, hp, bind, Except.bind]
    split
    · exact ih _ _
    · cases pass1Groups pi 0 b.provides m with
      | error e => rfl
      | ok m' => exact ih _ _

theorem filter_shape {ps ps' : List PSpec} (h : Shaped ps ps') :
    Shaped (ps.filter (·.kind == 1)) (ps'.filter (·.kind == 1)) := by
  induction h with
  | nil => exact .nil
  | @cons a b l l' hab _ ih =>
    simp only [List.filter_cons, hab.1]
    split
    · exact .cons hab ih
    · exact ih

theorem expandFields_shape (sty decl : Nat) (fs : List (String × Nat)) {provs provs' : List PSpec} {m m' : SupMap}
    (h : expandFields sty decl fs provs m = .ok (provs', m')) :
    ∃ ex, provs' = provs ++ ex ∧ ∀ provsB : List PSpec, provsB.length = provs.length →
      expandFields sty decl fs provsB m = .ok (provsB ++ ex, m') := by
  induction fs generalizing provs m with
  | nil =>
    simp only [expandFields, pure, Except.pure] at h
    cases h
    exact ⟨[], by simp, fun provsB _ => by simp [expandFields, pure, Except.pure]⟩
  | cons f fs ih =>
    obtain ⟨fname, fty⟩ := f
    simp only [expandFields] at h
    split at h
    · cases h
    · rename_i hl
      obtain ⟨ex, he, hB⟩ := ih h
      refine ⟨mkFieldProv sty decl fname fty :: ex, by rw [he]; simp [mkFieldProv], ?_⟩
      intro provsB hlen
      simp only [expandFields, hl]
      rw [hlen]
      have := hB (provsB ++ [mkFieldProv sty decl fname fty]) (by simp [hlen])
      simp only [mkFieldProv] at this
      rw [this]; simp [mkFieldProv]

theorem pass2Round_shape {sps spsB : List PSpec} (hsh : Shaped sps spsB) {provs : List PSpec}
    {m : SupMap} {r : List PSpec × SupMap × List PSpec} (h : pass2Round sps provs m = .ok r) :
    ∃ ex dB, r.1 = provs ++ ex ∧ Shaped r.2.2 dB ∧ ∀ provsB : List PSpec, provsB.length = provs.length →
      pass2Round spsB provsB m = .ok (provsB ++ ex, r.2.1, dB) := by
  induction hsh generalizing provs m r with
  | nil =>
    rw [pass2Round_nil] at h
    cases h
    exact ⟨[], [], by simp, .nil, fun provsB _ => by simp [pass2Round_nil]⟩
  | @cons a b l l' hab _ ih =>
    obtain ⟨_, _, hst, hd, hf⟩ := hab
    cases hlk : m.lookup a.structTy with
    | none =>
      rw [pass2Round_cons_none _ _ hlk] at h
      cases hr : pass2Round l provs m with
      | error e => rw [hr] at h; cases h
      | ok r1 =>
        rw [hr] at h; cases h
        obtain ⟨ex, dB, he, hsd, hB⟩ := ih hr
        refine ⟨ex, b :: dB, he, .cons ⟨by assumption, by assumption, hst, hd, hf⟩ hsd, ?_⟩
        intro provsB hlen
        rw [pass2Round_cons_none _ _ (by rw [← hst]; exact hlk), hB provsB hlen]
    | some v =>
      rw [pass2Round_cons_some _ _ hlk] at h
      cases he : expandFields a.structTy a.decl a.fields provs m with
      | error e => rw [he] at h; cases h
      | ok r1 =>
        rw [he] at h
        obtain ⟨provs1, m1⟩ := r1
        obtain ⟨ex1, he1, hB1⟩ := expandFields_shape _ _ _ he
        obtain ⟨ex2, dB, he2, hsd, hB2⟩ := ih h
        refine ⟨ex1 ++ ex2, dB, by rw [he2]; simp only; rw [he1]; simp, hsd, ?_⟩
        intro provsB hlen
        rw [pass2Round_cons_some _ _ (by rw [← hst]; exact hlk), ← hst, ← hd, ← hf, hB1 provsB hlen]
        simp only
        rw [hB2 (provsB ++ ex1) (by rw [he1]; simp [hlen])]
        simp

theorem pass2Rounds_shape (fuel : Nat) : ∀ {sps spsB : List PSpec}, Shaped sps spsB → ∀ {provs provs' : List PSpec}
    {m m' : SupMap}, pass2Rounds fuel sps provs m = .ok (provs', m') →
    ∃ ex, provs' = provs ++ ex ∧ ∀ provsB : List PSpec, provsB.length = provs.length →
      pass2Rounds fuel spsB provsB m = .ok (provsB ++ ex, m') := by
  induction fuel with
  | zero =>
    intro sps spsB hsh provs provs' m m' h
    cases hsh with
    | nil =>
      rw [pass2Rounds_nil] at h; cases h
      exact ⟨[], by simp, fun provsB _ => by simp [pass2Rounds_nil]⟩
    | cons hab hl => simp only [pass2Rounds] at h; cases h
  | succ fuel ih =>
    intro sps spsB hsh provs provs' m m' h
    cases hsh with
    | nil =>
      rw [pass2Rounds_nil] at h; cases h
      exact ⟨[], by simp, fun provsB _ => by simp [pass2Rounds_nil]⟩
    | @cons a b l l' hab hl =>
      have hsh : Shaped (a :: l) (b :: l') := .cons hab hl
      rw [pass2Rounds_succ_cons] at h
      cases hr : pass2Round (a :: l) provs m with
      | error e => rw [hr] at h; cases h
      | ok r =>
        rw [hr] at h
        simp only at h
        by_cases hnp : r.2.2.length = (a :: l).length
        · rw [if_pos hnp] at h; cases h
        · rw [if_neg hnp] at h
          obtain ⟨ex1, dB, he1, hsd, hB1⟩ := pass2Round_shape hsh hr
          obtain ⟨ex2, he2, hB2⟩ := ih hsd h
          refine ⟨ex1 ++ ex2, by rw [he2, he1]; simp, ?_⟩
          intro provsB hlen
          rw [pass2Rounds_succ_cons, hB1 provsB hlen]
          simp only
          rw [if_neg (by rw [← shaped_length hsd, ← shaped_length hsh]; exact hnp),
            hB2 (provsB ++ ex1) (by rw [he1]; simp [hlen])]
          simp

theorem pass2_shape {sps spsB : List PSpec} (hsh : Shaped sps spsB) {provs provs' : List PSpec}
    {m m' : SupMap} (h : pass2 sps provs m = .ok (provs', m')) :
    ∃ ex, provs' = provs ++ ex ∧ ∀ provsB : List PSpec, provsB.length = provs.length →
      pass2 spsB provsB m = .ok (provsB ++ ex, m') := by
  unfold pass2 at h ⊢
  rw [← shaped_length hsh]
  exact pass2Rounds_shape _ hsh h

/-- the supplier map of a declaration is the same when providers are changed in `requires`, `isAsync`, `isErr`
    only: same suppliers, same synthetic field providers -/
theorem supplierMap_shape {provs0 provs0' provs : List PSpec} {sup : SupMap}
    (hsh : Shaped provs0 provs0') (hs : supplierMap provs0 = .ok (provs, sup)) :
    ∃ ex, provs = provs0 ++ ex ∧ supplierMap provs0' = .ok (provs0' ++ ex, sup) := by
  simp only [supplierMap, bind, Except.bind] at hs ⊢
  rw [pass1_shape hsh]
  split at hs
  · cases hs
  · rename_i sup1 hs1
    obtain ⟨ex, he, hB⟩ := pass2_shape (filter_shape hsh) hs
    exact ⟨ex, he, hB provs0' (shaped_length hsh).symm⟩

theorem getD_append_right_ge (l r : List PSpec) (i : Nat) (h : l.length ≤ i) :
    (l ++ r).getD i default = r.getD (i - l.length) default := by
  simp only [List.getD_eq_getElem?_getD, List.getElem?_append_right h]

/-- **Unneeded providers influence nothing.** Change, in an accepted declaration, the `requires`, `isAsync` and
    `isErr` of any providers that are not needed (same kinds, same provided types, same struct fields): if the
    changed declaration is accepted too, it has the same error result, the same parameters (duplicate-free, up to
    order) and the context parameter in the same place. -/
theorem unneeded_providers_irrelevant {provs0 provs0' provs : List PSpec} {sup : SupMap} {ret : Nat} {p p' : PlanOut}
    (hsh : Shaped provs0 provs0')
    (h : plan provs0 ret = .ok p) (hs : supplierMap provs0 = .ok (provs, sup)) (h' : plan provs0' ret = .ok p')
    (hagree : ∀ q, q < provs0.length → Needed provs sup ret q →
      (provs0'.getD q default).requires = (provs0.getD q default).requires ∧
      (provs0'.getD q default).isAsync = (provs0.getD q default).isAsync ∧
      (provs0'.getD q default).isErr = (provs0.getD q default).isErr) :
    p'.b.isErr = p.b.isErr ∧ hasAsyncNodes p'.g = hasAsyncNodes p.g ∧ (sigArgs p').Perm (sigArgs p) := by
  obtain ⟨ex, he, hs'⟩ := supplierMap_shape hsh hs
  subst he
  refine signature_of_needed h hs h' hs' ?_
  intro q hq
  have hlen := shaped_length hsh
  by_cases hql : q < provs0.length
  · rw [getD_append_left _ _ _ _ hql, getD_append_left _ _ _ _ (by rw [← hlen]; exact hql)]
    exact hagree q hql hq
  · rw [getD_append_right_ge _ _ _ (Nat.le_of_not_lt hql), getD_append_right_ge _ _ _ (by rw [← hlen]; exact Nat.le_of_not_lt hql),
      hlen]
    exact ⟨rfl, rfl, rfl⟩

/-- the same for one provider: replacing an unneeded provider `u` by any `x` of the same shape -/
theorem unneeded_provider_irrelevant {provs0 provs : List PSpec} {sup : SupMap} {ret : Nat} {p p' : PlanOut}
    (u : Nat) (x : PSpec) (hx : SameShape (provs0.getD u default) x)
    (h : plan provs0 ret = .ok p) (hs : supplierMap provs0 = .ok (provs, sup)) (hu : ¬ Needed provs sup ret u)
    (h' : plan (provs0.set u x) ret = .ok p') :
    p'.b.isErr = p.b.isErr ∧ hasAsyncNodes p'.g = hasAsyncNodes p.g ∧ (sigArgs p').Perm (sigArgs p) := by
  refine unneeded_providers_irrelevant (shaped_set provs0 u x hx) h hs h' ?_
  intro q _ hq
  have hqu : q ≠ u := fun e => hu (e ▸ hq)
  rw [getD_set_other _ _ _ _ _ hqu]
  exact ⟨rfl, rfl, rfl⟩

/-! ## A concrete instance -/

/-- signature of the planned injector: parameters and "returns an error" -/
def sigOf (provs0 : List PSpec) (ret : Nat) : Option (List Nat × Bool) :=
  match plan provs0 ret with
  | .ok p => some (sigArgs p, p.b.isErr)
  | .error _ => none

/-- provider 0 makes type 1 from type 2 (which nobody supplies); provider 1 — Async and fallible — makes type 3
    from type 4 and is not needed for type 1 -/
def exDecl : List PSpec :=
  [ { requires := [2], provides := [[1]] },
    { requires := [4], provides := [[3]], isAsync := true, isErr := true } ]

/-- no context parameter and no error result for type 1: the Async, fallible provider is not needed -/
example : sigOf exDecl 1 = some ([2], false) := by decide

/-- asking for type 3 instead needs it: context first, then the unsupplied type 4, and an error result -/
example : sigOf exDecl 3 = some ([ctxTy, 4], true) := by decide

/-- a needed Async provider whose unsupplied requirement is `context.Context` itself: one context parameter -/
example : sigOf [{ requires := [5, ctxTy], provides := [[1]], isAsync := true }] 1 = some ([ctxTy, 5], false) := by decide

/-- a requested type nobody supplies is refused by the model (`plan_ret_supplied`) -/
example : sigOf exDecl 7 = none := by decide

/-- the hypotheses of the theorems above are met by this declaration -/
example : supplierMap exDecl = .ok (exDecl, [(1, (0, 0)), (3, (1, 0))]) := rfl

example : Needed exDecl [(1, (0, 0)), (3, (1, 0))] 1 0 := .root (gi := 0) rfl

example : ¬ Needed exDecl [(1, (0, 0)), (3, (1, 0))] 1 1 := by
  have key : ∀ q, Needed exDecl [(1, (0, 0)), (3, (1, 0))] 1 q → q = 0 := by
    intro q hq
    induction hq with
    | root hl => simp [List.lookup] at hl; exact hl.1.symm
    | step _ ht hl ih =>
      subst ih
      simp [exDecl] at ht
      subst ht
      simp [List.lookup] at hl
  intro hc
  have := key 1 hc
  omega

example : Unsupplied exDecl [(1, (0, 0)), (3, (1, 0))] 1 2 :=
  ⟨rfl, Or.inr ⟨0, .root (gi := 0) rfl, by simp [exDecl]⟩⟩

/-- the declaration is accepted, so `plan … = .ok p` is met as well -/
example : ∃ p, plan exDecl 1 = .ok p := ⟨_, rfl⟩

/-- … and `unneeded_provider_irrelevant` applies to it: provider 1 may be replaced by a synchronous, infallible
    provider with another requirement -/
example : SameShape (exDecl.getD 1 default) { requires := [9], provides := [[3]] } := ⟨rfl, rfl, rfl, rfl, rfl⟩

example : ∃ p', plan (exDecl.set 1 { requires := [9], provides := [[3]] }) 1 = .ok p' := ⟨_, rfl⟩

/-- with `plan_ret_supplied`: the parameters are the unsupplied requirements of needed providers -/
theorem params_exact_needed {provs0 provs : List PSpec} {sup : SupMap} {ret : Nat} {p : PlanOut}
    (h : plan provs0 ret = .ok p) (hs : supplierMap provs0 = .ok (provs, sup)) (t : Nat) :
    t ∈ argTypes p ↔ sup.lookup t = none ∧ ∃ q, Needed provs sup ret q ∧ t ∈ (provs.getD q default).requires := by
  rw [(params_exact h hs).1 t]
  unfold Unsupplied
  constructor
  · rintro ⟨h1, h2 | h2⟩
    · obtain ⟨rp, ri, hl, _⟩ := plan_ret_supplied h hs
      subst h2; rw [hl] at h1; cases h1
    · exact ⟨h1, h2⟩
  · rintro ⟨h1, h2⟩; exact ⟨h1, Or.inr h2⟩

end KV
