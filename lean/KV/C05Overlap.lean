import KV.PlanLemmas
import KV.C05
import KV.Sched
/-! # C05 — the overlap schedule exists

Composition of the placement half of C05 (`bpass1_zfirst`: in every pool an input-free Async node is preceded
only by input-free synchronous nodes) with the schedule construction (`T1.all_targets_reachable`): for the
program `emitted p` of any accepted declaration there is one reachable state in which *every* emitted
input-free Async provider is inside its provider function.

Part 1 (namespace `T1`) is about emitted programs in general: given a predicate `isT` on node ids such that in
every thread a marked node and everything in front of it have no arguments (hence no `wait`) and nothing in
front of it is marked, all marked nodes can be entered simultaneously.  Part 2 (namespace `KV`) discharges the
hypothesis for `emitted p` from the Tier 2 invariants. -/

namespace T1

/-! ### blocks of nodes without arguments -/

theorem block_noargs {nd : NodeInfo} (h : nd.args = []) :
    block nd = enterOf nd :: exitOf nd :: closesOf nd := by
  simp only [block, waitsOf, h, List.filter_nil, List.map_nil, List.nil_append, List.cons_append]

theorem free_of_block_noargs {nd : NodeInfo} (h : nd.args = []) {op : Op} (hop : op ∈ block nd) :
    freeOp op := by
  rw [block_noargs h] at hop
  simp only [List.mem_cons, closesOf, List.mem_map] at hop
  rcases hop with rfl | rfl | ⟨r, _, rfl⟩ <;> exact True.intro

theorem free_of_flatMap_noargs {l : List NodeInfo} (h : ∀ m ∈ l, m.args = []) {op : Op}
    (hop : op ∈ l.flatMap block) : freeOp op := by
  simp only [List.mem_flatMap] at hop
  obtain ⟨m, hm, hb⟩ := hop
  exact free_of_block_noargs (h m hm) hb

/-- In `(pre ++ a :: post).flatMap block ++ rest`, if `a` and all of `pre` have no arguments, the op at offset
    `|blocks of pre|` is `a`'s `enter`, and everything up to and including it is free. -/
theorem prefix_enter {pre post : List NodeInfo} {a : NodeInfo} (rest : List Op)
    (ha : a.args = []) (hpre : ∀ m ∈ pre, m.args = []) :
    ((pre ++ a :: post).flatMap block ++ rest)[(pre.flatMap block).length]? = some (enterOf a) ∧
    ∀ j, j < (pre.flatMap block).length + 1 →
      ∃ op, ((pre ++ a :: post).flatMap block ++ rest)[j]? = some op ∧ freeOp op := by
  have hshape : (pre ++ a :: post).flatMap block ++ rest =
      pre.flatMap block ++ (enterOf a :: (exitOf a :: closesOf a ++ (post.flatMap block ++ rest))) := by
    rw [List.flatMap_append, List.flatMap_cons, block_noargs ha]
    simp only [List.append_assoc, List.cons_append]
  have henter : ((pre ++ a :: post).flatMap block ++ rest)[(pre.flatMap block).length]? = some (enterOf a) := by
    rw [hshape, List.getElem?_append_right (Nat.le_refl _), Nat.sub_self]
    rfl
  refine ⟨henter, ?_⟩
  intro j hj
  by_cases hjl : j < (pre.flatMap block).length
  · refine ⟨(pre.flatMap block)[j], ?_, free_of_flatMap_noargs hpre (List.getElem_mem hjl)⟩
    rw [hshape, List.getElem?_append_left hjl, List.getElem?_eq_getElem hjl]
  · have : j = (pre.flatMap block).length := by omega
    subst this
    exact ⟨enterOf a, henter, True.intro⟩

/-! ### the target offset inside a list of node blocks -/

/-- offset just behind the `enter` of the first marked node of `l` (inside `l.flatMap block`) -/
def tgtO (isT : Nat → Bool) : List NodeInfo → Option Nat
  | [] => none
  | nd :: rest => if isT nd.id then some 1 else (tgtO isT rest).map ((block nd).length + ·)

theorem tgtO_split (isT : Nat → Bool) {pre post : List NodeInfo} {a : NodeInfo}
    (ha : isT a.id = true) (hpre : ∀ m ∈ pre, isT m.id = false) :
    tgtO isT (pre ++ a :: post) = some ((pre.flatMap block).length + 1) := by
  induction pre with
  | nil => simp [tgtO, ha]
  | cons x xs ih =>
    have hx : isT x.id = false := hpre x (List.mem_cons_self ..)
    have := ih (fun m hm => hpre m (List.mem_cons_of_mem _ hm))
    simp only [List.cons_append, tgtO, hx, Bool.false_eq_true, ↓reduceIte, this, Option.map_some,
      List.flatMap_cons, List.length_append]
    rw [Nat.add_assoc]

theorem tgtO_some (isT : Nat → Bool) {l : List NodeInfo} {k : Nat} (h : tgtO isT l = some k) :
    ∃ pre a post, l = pre ++ a :: post ∧ isT a.id = true ∧ (∀ m ∈ pre, isT m.id = false) ∧
      k = (pre.flatMap block).length + 1 := by
  induction l generalizing k with
  | nil => simp [tgtO] at h
  | cons x xs ih =>
    by_cases hx : isT x.id = true
    · simp only [tgtO, hx, ↓reduceIte, Option.some.injEq] at h
      exact ⟨[], x, xs, rfl, hx, (fun m hm => by cases hm), (by simp [← h])⟩
    · have hx' : isT x.id = false := by simpa using hx
      simp only [tgtO, hx', Bool.false_eq_true, ↓reduceIte] at h
      cases hr : tgtO isT xs with
      | none => rw [hr] at h; cases h
      | some k' =>
        rw [hr] at h
        simp only [Option.map_some, Option.some.injEq] at h
        obtain ⟨pre, a, post, hl, ha, hp, hk⟩ := ih hr
        refine ⟨x :: pre, a, post, by rw [hl]; rfl, ha, ?_, ?_⟩
        · intro m hm
          rcases List.mem_cons.mp hm with rfl | hm
          · exact hx'
          · exact hp m hm
        · simp only [List.flatMap_cons, List.length_append]; omega

/-! ### shape of the threads of an emitted program -/

/-- number of ops in front of the node blocks of thread `t` (the spawns of the main thread) -/
def offOf (gos : List (List NodeInfo)) : Nat → Nat
  | 0 => gos.length
  | _ + 1 => 0

theorem spawns_length (n : Nat) : (spawns n).length = n := by simp [spawns]

theorem spawns_get {n g : Nat} (h : g < n) : (spawns n)[g]? = some (Op.spawn (g + 1)) := by
  simp [spawns, h]

/-- every thread is `prefix ++ (node blocks ++ suffix)` with a prefix of `offOf` spawns -/
theorem thread_shape (main : List NodeInfo) (gos : List (List NodeInfo)) (rv t : Nat) :
    ∃ pfx sfx, thread (emit main gos rv) t = pfx ++ ((threadNodes main gos t).flatMap block ++ sfx) ∧
      pfx.length = offOf gos t ∧ (∀ op ∈ pfx, freeOp op) := by
  cases t with
  | zero =>
    refine ⟨spawns gos.length, tailOps gos.length rv, ?_, spawns_length _, ?_⟩
    · rw [thread_emit_zero]; rfl
    · intro op hop
      simp only [spawns, List.mem_map] at hop
      obtain ⟨g, _, rfl⟩ := hop
      exact True.intro
  | succ g =>
    refine ⟨[], [], ?_, rfl, by intro op hop; cases hop⟩
    rw [thread_emit_succ]
    simp only [threadNodes, List.nil_append, List.append_nil]

theorem threads_length (main : List NodeInfo) (gos : List (List NodeInfo)) (rv : Nat) :
    (emit main gos rv).threads.length = gos.length + 1 := by
  simp [emit]

/-- the position every thread is driven to -/
def ovTarget (isT : Nat → Bool) (main : List NodeInfo) (gos : List (List NodeInfo)) (t : Nat) : Nat :=
  offOf gos t + (tgtO isT (threadNodes main gos t)).getD 0

/-- **Overlap for emitted programs.**  If in every thread each marked node has no arguments and is preceded
    only by unmarked nodes without arguments, then some reachable state has every marked node of every thread
    inside its call (its argument-less `enter` is the last op executed by its thread). -/
theorem overlap_emit (isT : Nat → Bool) (main : List NodeInfo) (gos : List (List NodeInfo)) (rv : Nat)
    (hz : ∀ t pre a post, threadNodes main gos t = pre ++ a :: post → isT a.id = true →
      a.args = [] ∧ ∀ m ∈ pre, isT m.id = false ∧ m.args = []) :
    ∃ s, Reach (emit main gos rv) s ∧
      ∀ t a, a ∈ threadNodes main gos t → isT a.id = true →
        ∃ j, opAt (emit main gos rv) t j = some (.enter a.id []) ∧ pc s t = j + 1 := by
  have hlen := threads_length main gos rv
  have hfree : ∀ t, t < (emit main gos rv).threads.length → ∀ j, j < ovTarget isT main gos t →
      ∃ op, opAt (emit main gos rv) t j = some op ∧ freeOp op := by
    intro t _ j hj
    obtain ⟨pfx, sfx, hth, hpl, hpf⟩ := thread_shape main gos rv t
    simp only [opAt, hth]
    by_cases hjp : j < pfx.length
    · refine ⟨pfx[j], ?_, hpf _ (List.getElem_mem hjp)⟩
      rw [List.getElem?_append_left hjp, List.getElem?_eq_getElem hjp]
    · have hjp' : pfx.length ≤ j := Nat.le_of_not_lt hjp
      rw [List.getElem?_append_right hjp']
      simp only [ovTarget] at hj
      cases hk : tgtO isT (threadNodes main gos t) with
      | none => rw [hk] at hj; simp only [Option.getD_none] at hj; omega
      | some k =>
        rw [hk] at hj; simp only [Option.getD_some] at hj
        obtain ⟨pre, a, post, hl, ha, hp, hkeq⟩ := tgtO_some isT hk
        obtain ⟨haa, hpa⟩ := hz t pre a post hl ha
        rw [hl]
        exact (prefix_enter sfx haa (fun m hm => (hpa m hm).2)).2 (j - pfx.length) (by omega)
  have hspawn : ∀ g, 0 < g → g < (emit main gos rv).threads.length → 0 < ovTarget isT main gos g →
      ∃ j, opAt (emit main gos rv) 0 j = some (.spawn g) ∧ j < ovTarget isT main gos 0 := by
    intro g hg0 hgl _
    refine ⟨g - 1, ?_, ?_⟩
    · simp only [opAt, thread_emit_zero, mainThread]
      have hlt : g - 1 < gos.length := by omega
      rw [List.getElem?_append_left (by rw [spawns_length]; exact hlt), spawns_get hlt]
      congr 2; omega
    · simp only [ovTarget, offOf]; omega
  obtain ⟨s, hr, hpc⟩ := all_targets_reachable (P := emit main gos rv) (ovTarget isT main gos)
    (by rw [hlen]; omega) hfree hspawn
  refine ⟨s, hr, ?_⟩
  intro t a hat ha
  have htl : t < (emit main gos rv).threads.length := by
    rw [hlen]
    cases t with
    | zero => omega
    | succ g =>
      apply Classical.byContradiction; intro hc
      have hnone : gos[g]? = none := by rw [List.getElem?_eq_none_iff]; omega
      simp only [threadNodes, List.getD_eq_getElem?_getD, hnone, Option.getD_none] at hat
      cases hat
  obtain ⟨pre, post, hl⟩ := List.append_of_mem hat
  obtain ⟨haa, hpa⟩ := hz t pre a post hl ha
  have htg : tgtO isT (threadNodes main gos t) = some ((pre.flatMap block).length + 1) := by
    rw [hl]; exact tgtO_split isT ha (fun m hm => (hpa m hm).1)
  obtain ⟨pfx, sfx, hth, hpl, _⟩ := thread_shape main gos rv t
  refine ⟨offOf gos t + (pre.flatMap block).length, ?_, ?_⟩
  · simp only [opAt, hth]
    rw [List.getElem?_append_right (by omega), hpl, Nat.add_sub_cancel_left, hl,
      (prefix_enter sfx haa (fun m hm => (hpa m hm).2)).1]
    simp only [enterOf, haa, List.map_nil]
  · rw [hpc t htl]
    simp only [ovTarget, htg, Option.getD_some]
    omega

end T1

namespace KV

/-- some thread is inside provider node `a`: its `enter` is the last op executed (the `exit` has not happened) -/
def insideCall (P : T1.Prog) (s : T1.Pcs) (a : Nat) : Prop :=
  ∃ t j args, T1.opAt P t j = some (.enter a args) ∧ T1.pc s t = j + 1

/-- `a` is an emitted Async provider node without inputs -/
def ZeroAsync (p : PlanOut) (a : Nat) : Prop :=
  isAsyncNode p.g a = true ∧ p.g.rev.getD a [] = [] ∧ (a ∈ p.parent ∨ ∃ c ∈ p.chains, a ∈ c)

/-- Boolean form of "Async node without inputs" -/
def zeroAsyncB (g : Graph) (n : Nat) : Bool := isAsyncNode g n && decide (g.rev.getD n [] = [])

theorem zeroAsyncB_true {g : Graph} {n : Nat} :
    zeroAsyncB g n = true ↔ isAsyncNode g n = true ∧ g.rev.getD n [] = [] := by
  simp only [zeroAsyncB, Bool.and_eq_true, decide_eq_true_eq]

/-- a node without incoming dependencies has an empty argument list in its emitted block -/
theorem nodeInfo_args_nil {g : Graph} {b : BuildOut} {parent : List Nat} {chains : List (List Nat)}
    (hok : PlanOK g b parent chains) {i n : Nat} (hn : n ∈ b.pools.getD i [])
    (hz : g.rev.getD n [] = []) : (nodeInfo b n).args = [] := by
  obtain ⟨st1, h1, hpools, _, _, params0, h2, _, _, _⟩ := hok.p1
  have hno : n ∈ topoOrder g := by
    rw [← hpools] at hn
    exact (h1.sub i).subset hn
  have hnl := hok.order_lt n hno
  have hslots : (b.nodeArgs.getD n []).length = nodeSlots g n := h2.slotLen n hnl
  have h0 : (b.nodeArgs.getD n []).length = 0 := by
    rw [hslots, hok.gwf.slotsEq n hnl, hz]; rfl
  have hnil : b.nodeArgs.getD n [] = [] := List.eq_nil_of_length_eq_zero h0
  simp only [nodeInfo, hnil, List.map_nil]

/-- every thread of the emitted program runs the nodes of one pool -/
theorem threadNodes_pool {g : Graph} {b : BuildOut} {parent : List Nat} {chains : List (List Nat)}
    (hs : StmtFacts g b.pools parent chains) (t : Nat) :
    ∃ i, T1.threadNodes (parent.map (nodeInfo b)) (chains.map (·.map (nodeInfo b))) t
      = (b.pools.getD i []).map (nodeInfo b) := by
  cases t with
  | zero =>
    obtain ⟨pi, hpi⟩ := hs.parentPool
    exact ⟨pi, by simp only [T1.threadNodes, hpi]⟩
  | succ gI =>
    simp only [T1.threadNodes, List.getD_eq_getElem?_getD, List.getElem?_map]
    cases hc : chains[gI]? with
    | none =>
      refine ⟨b.pools.length, ?_⟩
      have : b.pools[b.pools.length]? = none := List.getElem?_eq_none (Nat.le_refl _)
      simp only [Option.map_none, Option.getD_none, this, List.map_nil]
    | some c =>
      obtain ⟨ci, hci⟩ := hs.chainPool c (List.mem_of_getElem? hc)
      exact ⟨ci, by simp only [Option.map_some, Option.getD_some, hci, List.getD_eq_getElem?_getD]⟩

/-- **C05, overlap.**  For the program emitted for any accepted declaration there is a reachable state in
    which every emitted input-free Async provider is inside its provider function — all of them at the same
    time. -/
theorem C05_overlap {provs : List PSpec} {ret : Nat} {p : PlanOut} (h : plan provs ret = .ok p) :
    ∃ s, T1.Reach (emitted p) s ∧ ∀ a, ZeroAsync p a → insideCall (emitted p) s a := by
  obtain ⟨hg, hb, hs⟩ := plan_ok h
  have hgw := newGraph2_gwf hg
  have hpf : PoolFacts p.g (topoOrder p.g) p.b.pools := by rw [build2_pools hb]; exact poolFacts_of_build hgw _
  obtain ⟨hsf, hk⟩ := stmtFacts_of_buildStmts2 hpf hs
  have hok := planOK_of_build2 hgw hb hsf hk
  have hzf : ∀ i pre a post, p.b.pools.getD i [] = pre ++ a :: post → isAsyncNode p.g a = true →
      p.g.rev.getD a [] = [] → ∀ m ∈ pre, isAsyncNode p.g m = false ∧ p.g.rev.getD m [] = [] := by
    intro i pre a post hpool
    rw [build2_pools hb] at hpool
    exact bpass1_zfirst hgw.toGWF i pre a post hpool
  -- the hypothesis of `T1.overlap_emit`
  have hz : ∀ t pre a post,
      T1.threadNodes (p.parent.map (nodeInfo p.b)) (p.chains.map (·.map (nodeInfo p.b))) t = pre ++ a :: post →
      zeroAsyncB p.g a.id = true →
      a.args = [] ∧ ∀ m ∈ pre, zeroAsyncB p.g m.id = false ∧ m.args = [] := by
    intro t pre a post hsplit ha
    obtain ⟨i, hi⟩ := threadNodes_pool hsf t
    rw [hi] at hsplit
    obtain ⟨l₁, l₂, hl, hpre, hl₂⟩ := List.map_eq_append_iff.mp hsplit
    obtain ⟨a', post', hl₂', haa', _⟩ := List.map_eq_cons_iff.mp hl₂
    subst hl₂'; subst haa'; subst hpre
    have ha' : isAsyncNode p.g a' = true ∧ p.g.rev.getD a' [] = [] := zeroAsyncB_true.mp ha
    have hmem : ∀ m, m ∈ l₁ ++ a' :: post' → m ∈ p.b.pools.getD i [] := fun m hm => by rw [hl]; exact hm
    refine ⟨nodeInfo_args_nil hok (hmem a' (List.mem_append_right _ (List.mem_cons_self ..))) ha'.2, ?_⟩
    intro m hm
    obtain ⟨m', hm', rfl⟩ := List.mem_map.mp hm
    obtain ⟨hna, hzr⟩ := hzf i l₁ a' post' hl ha'.1 ha'.2 m' hm'
    refine ⟨?_, nodeInfo_args_nil hok (hmem m' (List.mem_append_left _ hm')) hzr⟩
    show zeroAsyncB p.g m' = false
    simp only [zeroAsyncB, hna, Bool.false_and]
  obtain ⟨s, hr, hall⟩ := T1.overlap_emit (zeroAsyncB p.g) (p.parent.map (nodeInfo p.b))
    (p.chains.map (·.map (nodeInfo p.b))) p.b.retParam hz
  refine ⟨s, hr, ?_⟩
  intro a ⟨hasync, hzero, hemit⟩
  obtain ⟨t, ht⟩ := mem_thread_of_node (b := p.b) hemit
  obtain ⟨j, hop, hpc⟩ := hall t (nodeInfo p.b a) ht (zeroAsyncB_true.mpr ⟨hasync, hzero⟩)
  exact ⟨t, j, [], hop, hpc⟩

/-! ### the hypotheses are satisfiable, non-trivially -/

/-- two Async providers without inputs feeding a synchronous one -/
def c05Example : List PSpec :=
  [{ provides := [[1]], isAsync := true }, { provides := [[2]], isAsync := true },
   { requires := [1, 2], provides := [[3]] }]

def c05ExampleSummary : Option (List Nat × List (List Nat) × Bool × Bool) :=
  match plan c05Example 3 with
  | .ok p => some (p.parent, p.chains, zeroAsyncB p.g 1, zeroAsyncB p.g 2)
  | .error _ => none

/-- the declaration is accepted, and nodes 1 and 2 (in different threads) are both `ZeroAsync` -/
theorem c05Example_zeroAsync : ∃ p, plan c05Example 3 = .ok p ∧ ZeroAsync p 1 ∧ ZeroAsync p 2 := by
  have h : c05ExampleSummary = some ([1, 0], [[2]], true, true) := by decide
  unfold c05ExampleSummary at h
  split at h
  · rename_i p hp
    simp only [Option.some.injEq, Prod.mk.injEq] at h
    obtain ⟨hpar, hch, h1, h2⟩ := h
    refine ⟨p, hp, ?_, ?_⟩
    · obtain ⟨ha, hz⟩ := zeroAsyncB_true.mp h1
      exact ⟨ha, hz, Or.inl (by rw [hpar]; decide)⟩
    · obtain ⟨ha, hz⟩ := zeroAsyncB_true.mp h2
      exact ⟨ha, hz, Or.inr ⟨[2], by rw [hch]; decide, by decide⟩⟩
  · cases h

/-- hence some execution has both providers inside their calls at once -/
example : ∃ p s, plan c05Example 3 = .ok p ∧ T1.Reach (emitted p) s ∧
    insideCall (emitted p) s 1 ∧ insideCall (emitted p) s 2 := by
  obtain ⟨p, hp, h1, h2⟩ := c05Example_zeroAsync
  obtain ⟨s, hr, hall⟩ := C05_overlap hp
  exact ⟨p, s, hp, hr, hall 1 h1, hall 2 h2⟩

end KV
