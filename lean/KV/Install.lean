/-! Prototype (scratch): crash / fault atomicity of `llmsetup.InstallFile`
    (CreateTemp → Write → Sync → Close → Chmod → Rename, deferred clean-up on error). -/
namespace Inst

inductive FsStep where
  | mkdirAll | createTemp | write | sync | closeF | chmod (mode : Nat) | rename
deriving DecidableEq, Repr

/-- what `factgen` would regenerate from install.go -/
def installSteps : List FsStep := [.mkdirAll, .createTemp, .write, .sync, .closeF, .chmod 0o644, .rename]

abbrev FileV := List Nat × Nat          -- (bytes, mode)

/-- only the two paths an installation of one file can touch: the destination and this run's temp file
    (`os.CreateTemp` picks a fresh name, so garbage of earlier crashed runs is a different path) -/
structure St where
  dest : Option FileV
  tmp : Option FileV
deriving Repr

/-- one complete step; `n` bytes of the content reach the temp file on `write` -/
def apply (content : List Nat) (n : Nat) : FsStep → St → St
  | .mkdirAll, s => s
  | .createTemp, s => { s with tmp := some ([], 0o600) }
  | .write, s => { s with tmp := s.tmp.map (fun f => (content.take n, f.2)) }
  | .sync, s => s
  | .closeF, s => s
  | .chmod m, s => { s with tmp := s.tmp.map (fun f => (f.1, m)) }
  | .rename, s => { dest := s.tmp, tmp := none }

def runFull (content : List Nat) (steps : List FsStep) (s : St) : St :=
  steps.foldl (fun s st => apply content content.length st s) s

/-- the process dies after `k` complete steps; if step `k` is the write, `j` bytes of it happened -/
def runCrash (content : List Nat) (steps : List FsStep) (k j : Nat) (s : St) : St :=
  let s1 := runFull content (steps.take k) s
  match steps[k]? with
  | some .write => apply content (min j content.length) .write s1
  | _ => s1

/-- step `i` fails without effect; the deferred function removes the temp file -/
def runFail (content : List Nat) (steps : List FsStep) (i : Nat) (s : St) : St :=
  { (runFull content (steps.take i) s) with tmp := none }

theorem take_length' (l : List Nat) : l.take l.length = l := List.take_length

/-- **C15, crash**: wherever the process dies, the destination is its previous state or the complete new
    content with its final mode. -/
theorem crash_atomic (old : Option FileV) (content : List Nat) (k j : Nat) :
    (runCrash content installSteps k j { dest := old, tmp := none }).dest = old ∨
    (runCrash content installSteps k j { dest := old, tmp := none }).dest = some (content, 0o644) := by
  match k with
  | 0 | 1 | 2 | 3 | 4 | 5 | 6 => left; simp [runCrash, runFull, installSteps, apply]
  | 7 => right; simp [runCrash, runFull, installSteps, apply]
  | k + 8 => right; simp [runCrash, runFull, installSteps, apply]

/-- **C15, later successful run completes the installation** (from any crashed state; the new run uses a
    fresh temp name). -/
theorem rerun_completes (old : Option FileV) (content : List Nat) (k j : Nat) :
    (runFull content installSteps
      { dest := (runCrash content installSteps k j { dest := old, tmp := none }).dest, tmp := none }).dest
      = some (content, 0o644) := by
  simp [runFull, installSteps, apply]

/-- **C15, single injected failure**: the previous destination is intact and no temp file is left. -/
theorem fault_clean (old : Option FileV) (content : List Nat) (i : Nat) (hi : i < installSteps.length) :
    (runFail content installSteps i { dest := old, tmp := none }).dest = old ∧
    (runFail content installSteps i { dest := old, tmp := none }).tmp = none := by
  simp only [installSteps, List.length_cons, List.length_nil] at hi
  match i, hi with
  | 0, _ | 1, _ | 2, _ | 3, _ | 4, _ | 5, _ | 6, _ => simp [runFail, runFull, installSteps, apply]

/-- a mutated step order (rename before chmod) is *not* crash-atomic: witness for the failure path -/
def badSteps : List FsStep := [.mkdirAll, .createTemp, .write, .sync, .closeF, .rename, .chmod 0o644]

theorem bad_not_atomic :
    ¬ (∀ (old : Option FileV) (content : List Nat) (k j : Nat),
        (runCrash content badSteps k j { dest := old, tmp := none }).dest = old ∨
        (runCrash content badSteps k j { dest := old, tmp := none }).dest = some (content, 0o644)) := by
  intro h
  have := h none [1] 6 0
  simp [runCrash, runFull, badSteps, apply] at this

end Inst
