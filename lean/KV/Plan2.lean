import KV.Plan
/-! Prototype (scratch): `Build` in fold-over-state form, for proofs. Must agree with `KV.build`. -/
namespace KV

/-! ### findOptimalPool, split into top-level pieces -/

/-- first loop: (max provided count, candidate pools) -/
def fopStep (deps : List Nat) (async : Bool) (pools poolProv : List (List Nat))
    (acc : Nat × List Nat) (i : Nat) : Nat × List Nat :=
  let cnt := (deps.filter (fun d => (poolProv.getD i []).contains d)).length
  if !async && (pools.getD i []).isEmpty then acc
  else if cnt > acc.1 then (cnt, [i])
  else if cnt == acc.1 then (acc.1, acc.2 ++ [i])
  else acc

def fopCands (deps : List Nat) (async : Bool) (pools poolProv : List (List Nat)) : Nat × List Nat :=
  (List.range pools.length).foldl (fopStep deps async pools poolProv) (0, [])

/-- scan a pool from its end: 1 = contains a dependency first, 2 = meets an async node first, 0 = neither -/
def fopScan (g : Graph) (deps : List Nat) : List Nat → Nat
  | [] => 0
  | nd :: rest => if deps.contains nd then 1 else if isAsyncNode g nd then 2 else fopScan g deps rest

def fopLoop (g : Graph) (deps : List Nat) (async : Bool) (pools : List (List Nat)) : List Nat → Option Nat
  | [] => none
  | p :: ps =>
    if !async then some p
    else
      match fopScan g deps (pools.getD p []).reverse with
      | 1 => some p
      | 0 => if p == 0 then some 0 else fopLoop g deps async pools ps
      | _ => fopLoop g deps async pools ps

def fopMinStep (async : Bool) (pools : List (List Nat)) (acc : Option Nat × Nat) (p : Nat) : Option Nat × Nat :=
  let sz := (pools.getD p []).length
  if !async && sz == 0 then acc
  else match acc.1 with
    | none => (some sz, p)
    | some m => if sz < m then (some sz, p) else acc

def findOptimalPool2 (g : Graph) (n : Nat) (pools poolProv : List (List Nat)) : Nat :=
  let deps := g.rev.getD n []
  let async := isAsyncNode g n
  let c := fopCands deps async pools poolProv
  if c.2.isEmpty then 0
  else
    match (if c.1 == deps.length then fopLoop g deps async pools c.2 else none) with
    | some p => p
    | none =>
      match (if async then (List.range pools.length).find? (fun i => (pools.getD i []).isEmpty) else none) with
      | some i => i
      | none => (c.2.foldl (fopMinStep async pools) (none, 0)).2

structure P1St where
  pools : List (List Nat)
  poolProv : List (List Nat)
  params : List Param
  args : List Nat
  nodePool : List (Option Nat)
  nodeRets : List (List Nat)
  isErr : Bool
deriving Repr

def p1Init (g : Graph) (k : Nat) : P1St :=
  let nn := g.nodes.length
  let argNodes := (List.range nn).filter (fun i => (g.nodes.getD i default).isArg)
  { pools := List.replicate k [], poolProv := List.replicate k argNodes, params := [], args := [],
    nodePool := List.replicate nn none, nodeRets := List.replicate nn [], isErr := false }

def p1Step (g : Graph) (st : P1St) (n : Nat) : P1St :=
  let nd := g.nodes.getD n default
  if nd.isArg then
    let pidx := st.params.length
    { st with params := st.params ++ [{ node := n, group := 0, isArg := true : Param }],
              nodeRets := st.nodeRets.set n [pidx], args := st.args ++ [pidx] }
  else
    let spec := g.provs.getD nd.prov default
    let p := findOptimalPool2 g n st.pools st.poolProv
    let base := st.params.length
    let ng := spec.provides.length
    { st with pools := listModify st.pools p (· ++ [n]),
              poolProv := listModify st.poolProv p (· ++ [n]),
              params := st.params ++ (List.range ng).map (fun gi => ({ node := n, group := gi, isArg := false } : Param)),
              nodeRets := st.nodeRets.set n ((List.range ng).map (· + base)),
              nodePool := st.nodePool.set n (some p),
              isErr := st.isErr || spec.isErr }

def bpass1 (g : Graph) (order : List Nat) (k : Nat) : P1St := order.foldl (p1Step g) (p1Init g k)

structure P2St where
  params : List Param
  nodeArgs : List (List CallArg)
deriving Repr

def p2Edge (p1 : P1St) (n : Nat) (st : P2St) (e : Edge) : P2St :=
  let pidx := (p1.nodeRets.getD n []).getD e.src 0
  let samePool := match p1.nodePool.getD n none, p1.nodePool.getD e.dst none with
    | some a, some b => a == b
    | _, _ => false
  let shouldWait := !samePool
  { params := listModify st.params pidx (fun p => { p with refs := p.refs + 1, withChan := !p.isArg && (p.withChan || shouldWait) }),
    nodeArgs := listModify st.nodeArgs e.dst (·.set e.slot { param := pidx, isWait := shouldWait }) }

def p2Node (g : Graph) (p1 : P1St) (st : P2St) (n : Nat) : P2St :=
  (g.edges.getD n []).foldl (p2Edge p1 n) st

def bpass2 (g : Graph) (order : List Nat) (p1 : P1St) (params0 : List Param) : P2St :=
  order.foldl (p2Node g p1)
    { params := params0,
      nodeArgs := (List.range g.nodes.length).map (fun i => List.replicate (nodeSlots g i) { param := 0, isWait := false }) }

def retParamOf (g : Graph) (p1 : P1St) : Nat :=
  if (g.nodes.getD g.retNode default).isArg then (p1.nodeRets.getD g.retNode []).getD 0 0
  else (p1.nodeRets.getD g.retNode []).getD g.retIdx 0

def refBump (p : Param) : Param := { p with refs := p.refs + 1 }

def build2 (g : Graph) : Except PlanErr BuildOut :=
  let order := topoOrder g
  let p1 := bpass1 g order (maxAntichain g)
  if order.contains g.retNode then
    let rp := retParamOf g p1
    let params0 := listModify p1.params rp refBump
    let p2 := bpass2 g order p1 params0
    .ok { params := p2.params, args := p1.args, retParam := rp, isErr := p1.isErr, pools := p1.pools,
          nodePool := p1.nodePool, nodeRets := p1.nodeRets, nodeArgs := p2.nodeArgs }
  else .error .noReturn

def planDump2 (provs : List PSpec) (ret : Nat) : String :=
  match newGraph provs ret with
  | .error e => s!"ERR {errStr e}"
  | .ok g =>
    match build2 g with
    | .error e => s!"ERR {errStr e}"
    | .ok b =>
      match buildStmts g b.pools with
      | .error e => s!"ERR {errStr e}"
      | .ok (parent, chains) =>
        let hasAsync := (List.range g.nodes.length).any (isAsyncNode g)
        let argTys := b.args.map (fun pi => (g.nodes.getD (b.params.getD pi default).node default).ty)
        let thr := fun (l : List Nat) => " ".intercalate (l.map (dumpCall false g b))
        s!"OK async={hasAsync} err={b.isErr} args={argTys} main=[{thr parent}] go=[{" | ".intercalate (chains.map thr)}]"

end KV
