import KV.Plan
/-! Prototype (scratch): `newGraph` with an explicit "queue drained" check, for the BFS invariants. -/
namespace KV

def bfsFuel (provs : List PSpec) : Nat :=
  4 * (provs.length + (provs.foldl (fun a p => a + p.requires.length) 0)) + 8

def bfsInit (rp : Nat) : BfsSt :=
  { nodes := [{ isArg := false, prov := rp }], provNode := [], argNode := [], queue := [0], visited := [],
    edges := [[]], rev := [[]] }

def newGraph2 (provs0 : List PSpec) (ret : Nat) : Except PlanErr Graph := do
  let sup1 ← pass1 0 provs0 []
  let structs := provs0.filter (·.kind == 1)
  let (provs, sup) ← pass2 structs provs0 sup1
  match sup.lookup ret with
  | none =>
    pure { provs := provs, nodes := [{ isArg := true, ty := ret }], edges := [[]], rev := [[]],
           retNode := 0, retIdx := 0 }
  | some (rp, ri) =>
    let st := bfsLoop provs sup (bfsFuel provs) (bfsInit rp)
    if !st.queue.isEmpty then throw .invalid
    else if detectCycles st.edges st.nodes.length then throw .cycle
    else pure { provs := provs, nodes := st.nodes, edges := st.edges, rev := st.rev, retNode := 0, retIdx := ri }

end KV
