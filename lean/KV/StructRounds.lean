import KV.Plan
/-! # Struct expansion by rounds (`pass2`) versus expansion in declaration order (`pass2Ordered`)

`pass2` (the repaired planner) iterates rounds over the pending `Struct` providers.  Everything proved about it
goes through one fact, `pass2_cases`: a run of `pass2` on `sps` *is* a run of the old, ordered expansion
`pass2Ordered` on a reordering `ord ++ pend` of `sps` — `ord` the providers in the order in which they really are
expanded, `pend` those that never become expandable — and

* fails with the `dup` error of `pass2Ordered ord`, or
* succeeds with the result of `pass2Ordered ord` (`pend = []`), or
* fails with `orphan` of a member of `pend`, all of whose struct types have no supplier after `ord` is expanded.

Corollaries: `pass2_ok_ordered`, `pass2_err_cases`, `pass2_old_ok` (old acceptance ⇒ same result),
`pass2Rounds_fuel` (the fuel never runs out). -/
namespace KV

theorem pass2Ordered_append (pre post : List PSpec) (provs : List PSpec) (m : SupMap) :
    pass2Ordered (pre ++ post) provs m =
      match pass2Ordered pre provs m with
      | .error e => .error e
      | .ok r => pass2Ordered post r.1 r.2 := by
  induction pre generalizing provs m with
  | nil => simp [pass2Ordered, pure, Except.pure]
  | cons sp pre ih =>
    simp only [List.cons_append, pass2Ordered]
    split
    · rfl
    · simp only [bind, Except.bind]
      split
      · rfl
      · rename_i r h1
        exact ih r.1 r.2

theorem expandFields_err_dup {sty decl : Nat} (fs : List (String × Nat)) {provs : List PSpec} {m : SupMap} {e : PlanErr}
    (h : expandFields sty decl fs provs m = .error e) : ∃ t, e = .dup t := by
  induction fs generalizing provs m with
  | nil => simp [expandFields, pure, Except.pure] at h
  | cons f fs ih =>
    obtain ⟨fname, fty⟩ := f
    simp only [expandFields] at h
    split at h
    · cases h; exact ⟨fty, rfl⟩
    · exact ih h

/-! ## one round -/

theorem pass2Round_nil (provs : List PSpec) (m : SupMap) : pass2Round [] provs m = .ok (provs, m, []) := rfl

theorem pass2Round_cons_none {sp : PSpec} (sps : List PSpec) (provs : List PSpec) {m : SupMap}
    (hl : m.lookup sp.structTy = none) :
    pass2Round (sp :: sps) provs m =
      match pass2Round sps provs m with
      | .error e => .error e
      | .ok r => .ok (r.1, r.2.1, sp :: r.2.2) := by
  simp only [pass2Round, hl]
  cases pass2Round sps provs m with
  | error e => rfl
  | ok r => rfl

theorem pass2Round_cons_some {sp : PSpec} (sps : List PSpec) (provs : List PSpec) {m : SupMap} {v : Nat × Nat}
    (hl : m.lookup sp.structTy = some v) :
    pass2Round (sp :: sps) provs m =
      match expandFields sp.structTy sp.decl sp.fields provs m with
      | .error e => .error e
      | .ok r => pass2Round sps r.1 r.2 := by
  simp only [pass2Round, hl]
  cases expandFields sp.structTy sp.decl sp.fields provs m with
  | error e => rfl
  | ok r => rfl

theorem pass2Ordered_cons_some {sp : PSpec} (sps : List PSpec) (provs : List PSpec) {m : SupMap} {v : Nat × Nat}
    (hl : m.lookup sp.structTy = some v) :
    pass2Ordered (sp :: sps) provs m =
      match expandFields sp.structTy sp.decl sp.fields provs m with
      | .error e => .error e
      | .ok r => pass2Ordered sps r.1 r.2 := by
  simp only [pass2Ordered, hl, bind, Except.bind]
  cases expandFields sp.structTy sp.decl sp.fields provs m with
  | error e => rfl
  | ok r => rfl

/-- a round defers at most everything -/
theorem pass2Round_length {sps : List PSpec} {provs : List PSpec} {m : SupMap} {r : List PSpec × SupMap × List PSpec}
    (h : pass2Round sps provs m = .ok r) : r.2.2.length ≤ sps.length := by
  induction sps generalizing provs m r with
  | nil => rw [pass2Round_nil] at h; cases h; exact Nat.le_refl _
  | cons sp sps ih =>
    cases hl : m.lookup sp.structTy with
    | none =>
      rw [pass2Round_cons_none sps provs hl] at h
      cases hr : pass2Round sps provs m with
      | error e => rw [hr] at h; cases h
      | ok r1 =>
        rw [hr] at h; cases h
        have := ih hr
        simp only [List.length_cons]; omega
    | some v =>
      rw [pass2Round_cons_some sps provs hl] at h
      cases he : expandFields sp.structTy sp.decl sp.fields provs m with
      | error e => rw [he] at h; cases h
      | ok r1 =>
        rw [he] at h
        have := ih h
        simp only [List.length_cons]; omega

/-- a round without progress changes nothing: every pending provider lacks a supplier of its struct type -/
theorem pass2Round_noprogress {sps : List PSpec} {provs : List PSpec} {m : SupMap} {r : List PSpec × SupMap × List PSpec}
    (h : pass2Round sps provs m = .ok r) (hlen : r.2.2.length = sps.length) :
    r = (provs, m, sps) ∧ ∀ sp ∈ sps, m.lookup sp.structTy = none := by
  induction sps generalizing provs m r with
  | nil =>
    rw [pass2Round_nil] at h; cases h
    exact ⟨rfl, fun sp hsp => by cases hsp⟩
  | cons sp sps ih =>
    cases hl : m.lookup sp.structTy with
    | none =>
      rw [pass2Round_cons_none sps provs hl] at h
      cases hr : pass2Round sps provs m with
      | error e => rw [hr] at h; cases h
      | ok r1 =>
        rw [hr] at h; cases h
        simp only [List.length_cons, Nat.add_right_cancel_iff] at hlen
        obtain ⟨h1, h2⟩ := ih hr hlen
        subst h1
        refine ⟨rfl, ?_⟩
        intro sp' hsp'
        rcases List.mem_cons.mp hsp' with rfl | hsp'
        · exact hl
        · exact h2 sp' hsp'
    | some v =>
      rw [pass2Round_cons_some sps provs hl] at h
      cases he : expandFields sp.structTy sp.decl sp.fields provs m with
      | error e => rw [he] at h; cases h
      | ok r1 =>
        rw [he] at h
        have := pass2Round_length h
        simp only [List.length_cons] at hlen
        omega

/-- a successful round is an ordered expansion of the providers it did not defer -/
theorem pass2Round_ok {sps : List PSpec} {provs : List PSpec} {m : SupMap} {r : List PSpec × SupMap × List PSpec}
    (h : pass2Round sps provs m = .ok r) :
    ∃ ex, (ex ++ r.2.2).Perm sps ∧ pass2Ordered ex provs m = .ok (r.1, r.2.1) := by
  induction sps generalizing provs m r with
  | nil =>
    rw [pass2Round_nil] at h; cases h
    exact ⟨[], List.Perm.refl _, rfl⟩
  | cons sp sps ih =>
    cases hl : m.lookup sp.structTy with
    | none =>
      rw [pass2Round_cons_none sps provs hl] at h
      cases hr : pass2Round sps provs m with
      | error e => rw [hr] at h; cases h
      | ok r1 =>
        rw [hr] at h; cases h
        obtain ⟨ex, hp, ho⟩ := ih hr
        exact ⟨ex, List.perm_middle.trans (List.Perm.cons sp hp), ho⟩
    | some v =>
      rw [pass2Round_cons_some sps provs hl] at h
      cases he : expandFields sp.structTy sp.decl sp.fields provs m with
      | error e => rw [he] at h; cases h
      | ok r1 =>
        rw [he] at h
        obtain ⟨ex, hp, ho⟩ := ih h
        refine ⟨sp :: ex, List.Perm.cons sp hp, ?_⟩
        rw [pass2Ordered_cons_some ex provs hl, he]
        exact ho

/-- a failing round is a failing ordered expansion (of the providers expanded so far and the one whose field
    clashes); the error is a `dup` -/
theorem pass2Round_err {sps : List PSpec} {provs : List PSpec} {m : SupMap} {e : PlanErr}
    (h : pass2Round sps provs m = .error e) :
    ∃ ex rest, (ex ++ rest).Perm sps ∧ pass2Ordered ex provs m = .error e ∧ ∃ t, e = .dup t := by
  induction sps generalizing provs m with
  | nil => rw [pass2Round_nil] at h; cases h
  | cons sp sps ih =>
    cases hl : m.lookup sp.structTy with
    | none =>
      rw [pass2Round_cons_none sps provs hl] at h
      cases hr : pass2Round sps provs m with
      | error e' =>
        rw [hr] at h; cases h
        obtain ⟨ex, rest, hp, ho, ht⟩ := ih hr
        exact ⟨ex, sp :: rest, List.perm_middle.trans (List.Perm.cons sp hp), ho, ht⟩
      | ok r1 => rw [hr] at h; cases h
    | some v =>
      rw [pass2Round_cons_some sps provs hl] at h
      cases he : expandFields sp.structTy sp.decl sp.fields provs m with
      | error e' =>
        rw [he] at h; cases h
        refine ⟨[sp], sps, List.Perm.refl _, ?_, expandFields_err_dup _ he⟩
        rw [pass2Ordered_cons_some [] provs hl, he]
      | ok r1 =>
        rw [he] at h
        obtain ⟨ex, rest, hp, ho, ht⟩ := ih h
        refine ⟨sp :: ex, rest, List.Perm.cons sp hp, ?_, ht⟩
        rw [pass2Ordered_cons_some ex provs hl, he]
        exact ho

/-- where the ordered expansion succeeds, a single round expands everything, with the same result -/
theorem pass2Round_of_ordered {sps : List PSpec} {provs : List PSpec} {m : SupMap} {r : List PSpec × SupMap}
    (h : pass2Ordered sps provs m = .ok r) : pass2Round sps provs m = .ok (r.1, r.2, []) := by
  induction sps generalizing provs m with
  | nil => simp only [pass2Ordered, pure, Except.pure] at h; cases h; rfl
  | cons sp sps ih =>
    cases hl : m.lookup sp.structTy with
    | none => simp only [pass2Ordered, hl] at h; cases h
    | some v =>
      rw [pass2Ordered_cons_some sps provs hl] at h
      rw [pass2Round_cons_some sps provs hl]
      cases he : expandFields sp.structTy sp.decl sp.fields provs m with
      | error e => rw [he] at h; cases h
      | ok r1 =>
        rw [he] at h
        exact ih h

/-! ## the rounds -/

theorem pass2Rounds_nil (fuel : Nat) (provs : List PSpec) (m : SupMap) : pass2Rounds fuel [] provs m = .ok (provs, m) := by
  cases fuel <;> rfl

theorem pass2Rounds_succ_cons (fuel : Nat) (sp : PSpec) (sps : List PSpec) (provs : List PSpec) (m : SupMap) :
    pass2Rounds (fuel + 1) (sp :: sps) provs m =
      match pass2Round (sp :: sps) provs m with
      | .error e => .error e
      | .ok r =>
        if r.2.2.length = (sp :: sps).length then .error (.orphan (r.2.2.headD sp).structTy)
        else pass2Rounds fuel r.2.2 r.1 r.2.1 := by
  rw [pass2Rounds]
  cases pass2Round (sp :: sps) provs m with
  | error e => rfl
  | ok r => rfl

/-- what a run of the rounds does, in terms of the ordered expansion -/
def Pass2Outcome (run : Except PlanErr (List PSpec × SupMap)) (ord pend : List PSpec) (provs : List PSpec) (m : SupMap) :
    Prop :=
  (∃ e, pass2Ordered ord provs m = .error e ∧ (∃ t, e = .dup t) ∧ run = .error e) ∨
  (∃ r, pass2Ordered ord provs m = .ok r ∧ pend = [] ∧ run = .ok r) ∨
  (∃ r sp, pass2Ordered ord provs m = .ok r ∧ sp ∈ pend ∧ (∀ sp' ∈ pend, r.2.lookup sp'.structTy = none) ∧
    run = .error (.orphan sp.structTy))

theorem pass2Rounds_cases (fuel : Nat) : ∀ (sps provs : List PSpec) (m : SupMap), sps.length ≤ fuel →
    ∃ ord pend, (ord ++ pend).Perm sps ∧ Pass2Outcome (pass2Rounds fuel sps provs m) ord pend provs m := by
  induction fuel with
  | zero =>
    intro sps provs m hlen
    have : sps = [] := List.eq_nil_of_length_eq_zero (Nat.le_zero.mp hlen)
    subst this
    exact ⟨[], [], List.Perm.refl _, Or.inr (Or.inl ⟨(provs, m), rfl, rfl, rfl⟩)⟩
  | succ fuel ih =>
    intro sps provs m hlen
    cases sps with
    | nil => exact ⟨[], [], List.Perm.refl _, Or.inr (Or.inl ⟨(provs, m), rfl, rfl, rfl⟩)⟩
    | cons sp sps =>
      rw [pass2Rounds_succ_cons]
      cases hr : pass2Round (sp :: sps) provs m with
      | error e =>
        obtain ⟨ex, rest, hp, ho, ht⟩ := pass2Round_err hr
        exact ⟨ex, rest, hp, Or.inl ⟨e, ho, ht, rfl⟩⟩
      | ok r =>
        simp only
        by_cases hnp : r.2.2.length = (sp :: sps).length
        · rw [if_pos hnp]
          obtain ⟨h1, h2⟩ := pass2Round_noprogress hr hnp
          subst h1
          exact ⟨[], sp :: sps, List.Perm.refl _,
            Or.inr (Or.inr ⟨(provs, m), sp, rfl, List.mem_cons_self .., h2, rfl⟩)⟩
        · rw [if_neg hnp]
          have hle := pass2Round_length hr
          obtain ⟨ex, hp, ho⟩ := pass2Round_ok hr
          obtain ⟨ord, pend, hp2, hout⟩ := ih r.2.2 r.1 r.2.1 (by simp only [List.length_cons] at hle hnp hlen; omega)
          refine ⟨ex ++ ord, pend, ?_, ?_⟩
          · rw [List.append_assoc]
            exact (List.Perm.append_left ex hp2).trans hp
          · have happ : pass2Ordered (ex ++ ord) provs m = pass2Ordered ord r.1 r.2.1 := by
              rw [pass2Ordered_append, ho]
            unfold Pass2Outcome
            rw [happ]
            exact hout

/-- **`pass2` is the ordered expansion of a reordering** `ord ++ pend` of the struct providers (see the header) -/
theorem pass2_cases (sps provs : List PSpec) (m : SupMap) :
    ∃ ord pend, (ord ++ pend).Perm sps ∧ Pass2Outcome (pass2 sps provs m) ord pend provs m :=
  pass2Rounds_cases (sps.length + 1) sps provs m (Nat.le_succ _)

/-- an accepted expansion is an ordered expansion of a reordering of the struct providers -/
theorem pass2_ok_ordered {sps provs : List PSpec} {m : SupMap} {r : List PSpec × SupMap} (h : pass2 sps provs m = .ok r) :
    ∃ sps', sps'.Perm sps ∧ pass2Ordered sps' provs m = .ok r := by
  obtain ⟨ord, pend, hp, hout⟩ := pass2_cases sps provs m
  rw [h] at hout
  rcases hout with ⟨e, _, _, he⟩ | ⟨r', ho, hpe, hr⟩ | ⟨r', sp, _, _, _, he⟩
  · cases he
  · cases hr; subst hpe
    rw [List.append_nil] at hp
    exact ⟨ord, hp, ho⟩
  · cases he

/-- a refused expansion: the `dup` of an ordered expansion of some of the providers, or — after the ordered
    expansion of `ord` — a non-empty rest `pend` none of whose struct types has a supplier -/
theorem pass2_err_cases {sps provs : List PSpec} {m : SupMap} {e : PlanErr} (h : pass2 sps provs m = .error e) :
    ∃ ord pend, (ord ++ pend).Perm sps ∧
      ((pass2Ordered ord provs m = .error e ∧ ∃ t, e = .dup t) ∨
       (∃ r sp, pass2Ordered ord provs m = .ok r ∧ sp ∈ pend ∧ (∀ sp' ∈ pend, r.2.lookup sp'.structTy = none) ∧
         e = .orphan sp.structTy)) := by
  obtain ⟨ord, pend, hp, hout⟩ := pass2_cases sps provs m
  rw [h] at hout
  refine ⟨ord, pend, hp, ?_⟩
  rcases hout with ⟨e', ho, ht, he⟩ | ⟨r', _, _, hr⟩ | ⟨r', sp, ho, hsp, hn, he⟩
  · cases he; exact Or.inl ⟨ho, ht⟩
  · cases hr
  · cases he; exact Or.inr ⟨r', sp, ho, hsp, hn, rfl⟩

/-- **Conservative repair**: whatever the old planner accepted, the repaired one accepts with the same expanded
    provider list (same positions of the synthetic field providers) and the same supplier map. -/
theorem pass2_old_ok {sps provs : List PSpec} {m : SupMap} {r : List PSpec × SupMap}
    (h : pass2Ordered sps provs m = .ok r) : pass2 sps provs m = .ok r := by
  unfold pass2
  cases sps with
  | nil =>
    simp only [pass2Ordered, pure, Except.pure] at h
    rw [pass2Rounds_nil]; exact h
  | cons sp sps =>
    rw [pass2Rounds_succ_cons, pass2Round_of_ordered h]
    simp only [List.length_nil, List.length_cons]
    rw [if_neg (by omega), pass2Rounds_nil]

/-- the fuel is never exhausted: any two amounts of fuel ≥ the number of pending providers give the same result -/
theorem pass2Rounds_fuel (fuel : Nat) : ∀ (fuel' : Nat) (sps provs : List PSpec) (m : SupMap),
    sps.length ≤ fuel → sps.length ≤ fuel' → pass2Rounds fuel sps provs m = pass2Rounds fuel' sps provs m := by
  induction fuel with
  | zero =>
    intro fuel' sps provs m h1 _
    have : sps = [] := List.eq_nil_of_length_eq_zero (Nat.le_zero.mp h1)
    subst this
    rw [pass2Rounds_nil, pass2Rounds_nil]
  | succ fuel ih =>
    intro fuel' sps provs m h1 h2
    cases sps with
    | nil => rw [pass2Rounds_nil, pass2Rounds_nil]
    | cons sp sps =>
      cases fuel' with
      | zero => simp at h2
      | succ fuel' =>
        rw [pass2Rounds_succ_cons, pass2Rounds_succ_cons]
        cases hr : pass2Round (sp :: sps) provs m with
        | error e => rfl
        | ok r =>
          simp only
          by_cases hnp : r.2.2.length = (sp :: sps).length
          · rw [if_pos hnp, if_pos hnp]
          · rw [if_neg hnp, if_neg hnp]
            have hle := pass2Round_length hr
            simp only [List.length_cons] at hle hnp h1 h2
            exact ih fuel' _ _ _ (by omega) (by omega)

end KV

#print axioms KV.pass2_cases
#print axioms KV.pass2_old_ok
#print axioms KV.pass2Rounds_fuel
