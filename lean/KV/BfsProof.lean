import KV.Bfs
import KV.Pass1
/-! Prototype (scratch): invariants of the BFS of `newGraph`. -/
namespace KV

def slotsOfNode (provs : List PSpec) (nd : Node) : Nat :=
  if nd.isArg then 0 else (provs.getD nd.prov default).requires.length
def groupsOfNode (provs : List PSpec) (nd : Node) : Nat :=
  if nd.isArg then 1 else (provs.getD nd.prov default).provides.length

def SupOK (provs : List PSpec) (sup : SupMap) : Prop :=
  ∀ t p gi, sup.lookup t = some (p, gi) → gi < (provs.getD p default).provides.length

def expectedRev (provs : List PSpec) (st : BfsSt) (cur : Option (Nat × Nat)) (m : Nat) : Nat :=
  if m ∈ st.visited then
    match cur with
    | some (c, i) => if m = c then i else slotsOfNode provs (st.nodes.getD m default)
    | none => slotsOfNode provs (st.nodes.getD m default)
  else 0

structure BInv (provs : List PSpec) (st : BfsSt) (cur : Option (Nat × Nat)) : Prop where
  lenE : st.edges.length = st.nodes.length
  lenR : st.rev.length = st.nodes.length
  qLt : ∀ m ∈ st.queue, m < st.nodes.length
  vLt : ∀ m ∈ st.visited, m < st.nodes.length
  seen : ∀ m, m < st.nodes.length → m ∈ st.queue ∨ m ∈ st.visited
  edgeOK : ∀ n2 e, e ∈ st.edges.getD n2 [] → n2 < st.nodes.length ∧ e.dst ∈ st.visited ∧
      (st.rev.getD e.dst [])[e.slot]? = some n2 ∧ e.src < groupsOfNode provs (st.nodes.getD n2 default)
  revOK : ∀ m i d, (st.rev.getD m [])[i]? = some d → ∃ e ∈ st.edges.getD d [], e.dst = m ∧ e.slot = i
  uniq : ∀ n n' e e', e ∈ st.edges.getD n [] → e' ∈ st.edges.getD n' [] →
      e.dst = e'.dst → e.slot = e'.slot → n = n' ∧ e = e'
  revLen : ∀ m, m < st.nodes.length → (st.rev.getD m []).length = expectedRev provs st cur m
  provNodeOK : ∀ p n2, st.provNode.lookup p = some n2 →
      n2 < st.nodes.length ∧ st.nodes.getD n2 default = { isArg := false, prov := p }
  argNodeOK : ∀ t n2, st.argNode.lookup t = some n2 →
      n2 < st.nodes.length ∧ (st.nodes.getD n2 default).isArg = true ∧ (st.nodes.getD n2 default).ty = t

theorem getD_append_right_new {α} (l : List α) (a d : α) : (l ++ [a]).getD l.length d = a := by
  simp [List.getD_eq_getElem?_getD]

theorem getD_append_oob {α} (l r : List α) (i : Nat) (d : α) (h : l.length + r.length ≤ i) :
    (l ++ r).getD i d = d := by
  simp only [List.getD_eq_getElem?_getD]
  rw [List.getElem?_eq_none (by simp; omega)]
  rfl

/-- adding a fresh node keeps the invariant; the new node has no edges yet and is queued -/
theorem addNode_inv {provs : List PSpec} {st : BfsSt} {cur : Option (Nat × Nat)} (h : BInv provs st cur)
    (nd : Node) :
    BInv provs { (addNode st nd).1 with provNode := st.provNode, argNode := st.argNode } cur ∧
    (addNode st nd).2 = st.nodes.length := by
  refine ⟨?_, rfl⟩
  have hnv : st.nodes.length ∉ st.visited := fun hv => Nat.lt_irrefl _ (h.vLt _ hv)
  have hgetE : ∀ m, m < st.nodes.length → (st.edges ++ [[]]).getD m [] = st.edges.getD m [] :=
    fun m hm => getD_append_left _ _ _ _ (by rw [h.lenE]; exact hm)
  have hgetR : ∀ m, m < st.nodes.length → (st.rev ++ [[]]).getD m [] = st.rev.getD m [] :=
    fun m hm => getD_append_left _ _ _ _ (by rw [h.lenR]; exact hm)
  have hgetN : ∀ m, m < st.nodes.length → (st.nodes ++ [nd]).getD m default = st.nodes.getD m default :=
    fun m hm => getD_append_left _ _ _ _ hm
  have hEnew : ∀ m, st.nodes.length ≤ m → (st.edges ++ [[]]).getD m [] = [] := by
    intro m hm
    by_cases he : m = st.nodes.length
    · subst he; rw [← h.lenE]; exact getD_append_right_new _ _ _
    · exact getD_append_oob _ _ _ _ (by rw [h.lenE]; simp; omega)
  have hRnew : ∀ m, st.nodes.length ≤ m → (st.rev ++ [[]]).getD m [] = [] := by
    intro m hm
    by_cases he : m = st.nodes.length
    · subst he; rw [← h.lenR]; exact getD_append_right_new _ _ _
    · exact getD_append_oob _ _ _ _ (by rw [h.lenR]; simp; omega)
  simp only [addNode]
  refine { lenE := by simp [h.lenE], lenR := by simp [h.lenR], qLt := ?_, vLt := ?_, seen := ?_, edgeOK := ?_,
           revOK := ?_, uniq := ?_, revLen := ?_, provNodeOK := ?_, argNodeOK := ?_ }
  · intro m hm
    simp only [List.mem_append, List.mem_singleton] at hm
    simp only [List.length_append, List.length_singleton]
    rcases hm with hm | rfl
    · have := h.qLt m hm; omega
    · omega
  · intro m hm
    simp only [List.length_append, List.length_singleton]
    have := h.vLt m hm; omega
  · intro m hm
    simp only [List.length_append, List.length_singleton] at hm
    by_cases hml : m < st.nodes.length
    · rcases h.seen m hml with h1 | h1
      · exact Or.inl (List.mem_append_left _ h1)
      · exact Or.inr h1
    · have : m = st.nodes.length := by omega
      subst this; exact Or.inl (by simp)
  · intro n2 e he
    by_cases hn2 : n2 < st.nodes.length
    · rw [hgetE n2 hn2] at he
      obtain ⟨h1, h2, h3, h4⟩ := h.edgeOK n2 e he
      have hd := h.vLt _ h2
      refine ⟨by simp; omega, h2, ?_, ?_⟩
      · show ((st.rev ++ [[]]).getD e.dst [])[e.slot]? = some n2
        rw [hgetR _ hd]; exact h3
      · show e.src < groupsOfNode provs ((st.nodes ++ [nd]).getD n2 default)
        rw [hgetN _ hn2]; exact h4
    · rw [hEnew n2 (Nat.le_of_not_lt hn2)] at he; simp at he
  · intro m i d hr
    by_cases hml : m < st.nodes.length
    · change ((st.rev ++ [[]]).getD m [])[i]? = some d at hr
      rw [hgetR m hml] at hr
      obtain ⟨e, he, h1, h2⟩ := h.revOK m i d hr
      have hdl := (h.edgeOK d e he).1
      exact ⟨e, by show e ∈ (st.edges ++ [[]]).getD d []; rw [hgetE d hdl]; exact he, h1, h2⟩
    · change ((st.rev ++ [[]]).getD m [])[i]? = some d at hr
      rw [hRnew m (Nat.le_of_not_lt hml)] at hr; simp at hr
  · intro n n' e e' he he' hd hs
    have hnl : n < st.nodes.length := by
      apply Classical.byContradiction; intro hc
      change e ∈ (st.edges ++ [[]]).getD n [] at he
      rw [hEnew n (Nat.le_of_not_lt hc)] at he; simp at he
    have hnl' : n' < st.nodes.length := by
      apply Classical.byContradiction; intro hc
      change e' ∈ (st.edges ++ [[]]).getD n' [] at he'
      rw [hEnew n' (Nat.le_of_not_lt hc)] at he'; simp at he'
    change e ∈ (st.edges ++ [[]]).getD n [] at he
    change e' ∈ (st.edges ++ [[]]).getD n' [] at he'
    rw [hgetE n hnl] at he
    rw [hgetE n' hnl'] at he'
    exact h.uniq n n' e e' he he' hd hs
  · intro m hm
    simp only [List.length_append, List.length_singleton] at hm
    show ((st.rev ++ [[]]).getD m []).length = _
    by_cases hml : m < st.nodes.length
    · rw [hgetR m hml, h.revLen m hml]
      simp only [expectedRev]
      rw [hgetN m hml]
    · have hme : m = st.nodes.length := by omega
      rw [hRnew m (by omega)]
      simp only [expectedRev, List.length_nil]
      rw [if_neg (by rw [hme]; exact hnv)]
  · intro p n2 hl
    obtain ⟨h1, h2⟩ := h.provNodeOK p n2 hl
    refine ⟨by simp; omega, ?_⟩
    show (st.nodes ++ [nd]).getD n2 default = _
    rw [hgetN n2 h1]; exact h2
  · intro t n2 hl
    obtain ⟨h1, h2, h3⟩ := h.argNodeOK t n2 hl
    refine ⟨by simp; omega, ?_, ?_⟩
    · show ((st.nodes ++ [nd]).getD n2 default).isArg = true
      rw [hgetN n2 h1]; exact h2
    · show ((st.nodes ++ [nd]).getD n2 default).ty = t
      rw [hgetN n2 h1]; exact h3

theorem getElem?_append_singleton_old {α} (l : List α) (a x : α) (k : Nat) (h : l[k]? = some x) :
    (l ++ [a])[k]? = some x := by
  have hk : k < l.length := by
    apply Classical.byContradiction; intro hc
    rw [List.getElem?_eq_none (Nat.le_of_not_lt hc)] at h; cases h
  rw [List.getElem?_append_left hk]; exact h

/-- wiring one requirement: edge `n2 → (n1, slot i)` -/
theorem addEdge_inv {provs : List PSpec} {st : BfsSt} {n1 i n2 src : Nat}
    (h : BInv provs st (some (n1, i))) (hn1v : n1 ∈ st.visited)
    (hn2 : n2 < st.nodes.length) (hsrc : src < groupsOfNode provs (st.nodes.getD n2 default)) :
    BInv provs { st with edges := listModify st.edges n2 (· ++ [{ dst := n1, src := src, slot := i }]),
                         rev := listModify st.rev n1 (· ++ [n2]) } (some (n1, i + 1)) := by
  have hn1 : n1 < st.nodes.length := h.vLt n1 hn1v
  have hn2E : n2 < st.edges.length := by rw [h.lenE]; exact hn2
  have hn1R : n1 < st.rev.length := by rw [h.lenR]; exact hn1
  have hrevlen : (st.rev.getD n1 []).length = i := by
    rw [h.revLen n1 hn1]; simp [expectedRev, hn1v]
  -- new edge lists
  have hEself : (listModify st.edges n2 (· ++ [{ dst := n1, src := src, slot := i }])).getD n2 []
      = st.edges.getD n2 [] ++ [{ dst := n1, src := src, slot := i }] := getD_listModify_self _ _ _ _ hn2E
  have hEother : ∀ n, n ≠ n2 → (listModify st.edges n2 (· ++ [{ dst := n1, src := src, slot := i }])).getD n []
      = st.edges.getD n [] := fun n hn => getD_listModify_other _ _ _ _ _ hn
  have hRself : (listModify st.rev n1 (· ++ [n2])).getD n1 [] = st.rev.getD n1 [] ++ [n2] :=
    getD_listModify_self _ _ _ _ hn1R
  have hRother : ∀ m, m ≠ n1 → (listModify st.rev n1 (· ++ [n2])).getD m [] = st.rev.getD m [] :=
    fun m hm => getD_listModify_other _ _ _ _ _ hm
  -- membership of an edge in the new table
  have hmemE : ∀ n e, e ∈ (listModify st.edges n2 (· ++ [{ dst := n1, src := src, slot := i }])).getD n [] →
      e ∈ st.edges.getD n [] ∨ (n = n2 ∧ e = { dst := n1, src := src, slot := i }) := by
    intro n e he
    by_cases hn : n = n2
    · subst hn
      rw [hEself] at he
      simp only [List.mem_append, List.mem_singleton] at he
      rcases he with he | he
      · exact Or.inl he
      · exact Or.inr ⟨rfl, he⟩
    · rw [hEother n hn] at he; exact Or.inl he
  have hmemE' : ∀ n e, e ∈ st.edges.getD n [] →
      e ∈ (listModify st.edges n2 (· ++ [{ dst := n1, src := src, slot := i }])).getD n [] := by
    intro n e he
    by_cases hn : n = n2
    · subst hn; rw [hEself]; exact List.mem_append_left _ he
    · rw [hEother n hn]; exact he
  -- an old rev entry survives
  have hRold : ∀ (m k x : Nat), (st.rev.getD m [])[k]? = some x → ((listModify st.rev n1 (· ++ [n2])).getD m [])[k]? = some x := by
    intro m k x hx
    by_cases hm : m = n1
    · subst hm; rw [hRself]; exact getElem?_append_singleton_old _ _ _ _ hx
    · rw [hRother m hm]; exact hx
  refine { lenE := by simp [listModify_length, h.lenE], lenR := by simp [listModify_length, h.lenR], qLt := h.qLt,
           vLt := h.vLt, seen := h.seen, edgeOK := ?_, revOK := ?_, uniq := ?_, revLen := ?_,
           provNodeOK := h.provNodeOK, argNodeOK := h.argNodeOK }
  · intro n e he
    rcases hmemE n e he with he' | ⟨rfl, rfl⟩
    · obtain ⟨h1, h2, h3, h4⟩ := h.edgeOK n e he'
      exact ⟨h1, h2, hRold _ _ _ h3, h4⟩
    · refine ⟨hn2, hn1v, ?_, hsrc⟩
      show ((listModify st.rev n1 (· ++ [n])).getD n1 [])[i]? = some n
      rw [hRself, ← hrevlen]
      simp
  · intro m k d hr
    change ((listModify st.rev n1 (· ++ [n2])).getD m [])[k]? = some d at hr
    by_cases hm : m = n1
    · subst hm
      rw [hRself] at hr
      by_cases hk : k < (st.rev.getD m []).length
      · rw [List.getElem?_append_left hk] at hr
        obtain ⟨e, he, h1, h2⟩ := h.revOK m k d hr
        exact ⟨e, hmemE' d e he, h1, h2⟩
      · have hk' : k = (st.rev.getD m []).length := by
          apply Classical.byContradiction; intro hne
          rw [List.getElem?_eq_none (by rw [List.length_append, List.length_singleton]; omega)] at hr; cases hr
        rw [hk'] at hr
        simp at hr; subst hr
        refine ⟨{ dst := m, src := src, slot := i }, ?_, rfl, ?_⟩
        · show _ ∈ (listModify st.edges n2 _).getD n2 []
          rw [hEself]; simp
        · show i = k
          rw [hk', hrevlen]
    · rw [hRother m hm] at hr
      obtain ⟨e, he, h1, h2⟩ := h.revOK m k d hr
      exact ⟨e, hmemE' d e he, h1, h2⟩
  · intro n n' e e' he he' hd hs
    rcases hmemE n e he with h1 | ⟨rfl, rfl⟩
    · rcases hmemE n' e' he' with h2 | ⟨rfl, rfl⟩
      · exact h.uniq n n' e e' h1 h2 hd hs
      · -- e old with (dst n1, slot i): impossible, since rev[n1] has only i entries
        obtain ⟨_, _, h3, _⟩ := h.edgeOK n e h1
        simp only at hd hs
        rw [hd, hs] at h3
        have : i < (st.rev.getD n1 []).length := by
          apply Classical.byContradiction; intro hc
          rw [List.getElem?_eq_none (Nat.le_of_not_lt hc)] at h3; cases h3
        omega
    · rcases hmemE n' e' he' with h2 | ⟨rfl, rfl⟩
      · obtain ⟨_, _, h3, _⟩ := h.edgeOK n' e' h2
        simp only at hd hs
        rw [← hd, ← hs] at h3
        have : i < (st.rev.getD n1 []).length := by
          apply Classical.byContradiction; intro hc
          rw [List.getElem?_eq_none (Nat.le_of_not_lt hc)] at h3; cases h3
        omega
      · exact ⟨rfl, rfl⟩
  · intro m hm
    show ((listModify st.rev n1 (· ++ [n2])).getD m []).length = _
    by_cases hmn : m = n1
    · subst hmn
      rw [hRself, List.length_append, hrevlen]
      simp only [expectedRev, hn1v, ↓reduceIte, List.length_singleton]
    · rw [hRother m hmn, h.revLen m hm]
      simp only [expectedRev]
      split
      · simp [hmn]
      · rfl

theorem lookup_snoc {β} (l : List (Nat × β)) (k q : Nat) (v x : β)
    (h : (l ++ [(k, v)]).lookup q = some x) : l.lookup q = some x ∨ (l.lookup q = none ∧ q = k ∧ x = v) := by
  rw [List.lookup_append] at h
  cases hl : l.lookup q with
  | some y => rw [hl] at h; simp at h; exact Or.inl (by rw [h])
  | none =>
    rw [hl] at h
    simp only [Option.none_or, List.lookup_cons, List.lookup_nil] at h
    split at h
    · rename_i hq
      cases h
      exact Or.inr ⟨rfl, by simpa using hq, rfl⟩
    · cases h

theorem bfsRequires_cons (provs : List PSpec) (sup : SupMap) (n1 i t : Nat) (ts : List Nat) (st : BfsSt) :
    bfsRequires provs sup n1 i (t :: ts) st = bfsRequires provs sup n1 (i + 1) ts (reqStep sup n1 i t st) := rfl

/-- facts every step preserves about the already existing part of the state -/
structure Ext (st st' : BfsSt) : Prop where
  visited : st'.visited = st.visited
  nodesLe : st.nodes.length ≤ st'.nodes.length
  nodesKeep : ∀ m, m < st.nodes.length → st'.nodes.getD m default = st.nodes.getD m default

theorem Ext.refl (st : BfsSt) : Ext st st := ⟨rfl, Nat.le_refl _, fun _ _ => rfl⟩

theorem Ext.trans {a b c : BfsSt} (h1 : Ext a b) (h2 : Ext b c) : Ext a c :=
  ⟨h2.visited.trans h1.visited, Nat.le_trans h1.nodesLe h2.nodesLe,
   fun m hm => (h2.nodesKeep m (Nat.lt_of_lt_of_le hm h1.nodesLe)).trans (h1.nodesKeep m hm)⟩

theorem BInv.withProvNode {provs : List PSpec} {st : BfsSt} {cur : Option (Nat × Nat)} (h : BInv provs st cur)
    (pn : List (Nat × Nat))
    (hpn : ∀ p n2, pn.lookup p = some n2 → n2 < st.nodes.length ∧ st.nodes.getD n2 default = { isArg := false, prov := p }) :
    BInv provs { st with provNode := pn } cur :=
  { lenE := h.lenE, lenR := h.lenR, qLt := h.qLt, vLt := h.vLt, seen := h.seen, edgeOK := h.edgeOK,
    revOK := h.revOK, uniq := h.uniq, revLen := h.revLen, provNodeOK := hpn, argNodeOK := h.argNodeOK }

theorem BInv.withArgNode {provs : List PSpec} {st : BfsSt} {cur : Option (Nat × Nat)} (h : BInv provs st cur)
    (an : List (Nat × Nat))
    (han : ∀ t n2, an.lookup t = some n2 → n2 < st.nodes.length ∧ (st.nodes.getD n2 default).isArg = true ∧
      (st.nodes.getD n2 default).ty = t) :
    BInv provs { st with argNode := an } cur :=
  { lenE := h.lenE, lenR := h.lenR, qLt := h.qLt, vLt := h.vLt, seen := h.seen, edgeOK := h.edgeOK,
    revOK := h.revOK, uniq := h.uniq, revLen := h.revLen, provNodeOK := h.provNodeOK, argNodeOK := han }

theorem pickNode_inv {provs : List PSpec} {sup : SupMap} (hsup : SupOK provs sup) {st : BfsSt} {cur : Option (Nat × Nat)}
    (t : Nat) (h : BInv provs st cur) :
    BInv provs (pickNode sup t st).1 cur ∧ Ext st (pickNode sup t st).1 ∧
    (pickNode sup t st).2.1 < (pickNode sup t st).1.nodes.length ∧
    (pickNode sup t st).2.2 < groupsOfNode provs ((pickNode sup t st).1.nodes.getD (pickNode sup t st).2.1 default) := by
  unfold pickNode
  split
  · rename_i p gi hlook
    have hgi := hsup t p gi hlook
    split
    · rename_i n2 hpn
      obtain ⟨hn2, hnode⟩ := h.provNodeOK p n2 hpn
      refine ⟨h, Ext.refl st, hn2, ?_⟩
      show gi < groupsOfNode provs (st.nodes.getD n2 default)
      rw [hnode]; simpa [groupsOfNode] using hgi
    · obtain ⟨hadd, hidx⟩ := addNode_inv h { isArg := false, prov := p }
      change BInv provs (addNode st { isArg := false, prov := p }).1 cur at hadd
      have hnodes : (addNode st { isArg := false, prov := p }).1.nodes = st.nodes ++ [{ isArg := false, prov := p }] := rfl
      have hnewnode : (st.nodes ++ [({ isArg := false, prov := p } : Node)]).getD st.nodes.length default
          = { isArg := false, prov := p } := getD_append_right_new _ _ _
      refine ⟨?_, ⟨rfl, by show st.nodes.length ≤ (st.nodes ++ [_]).length; simp,
               fun m hm => getD_append_left _ _ _ _ hm⟩, ?_, ?_⟩
      · apply hadd.withProvNode
        intro q n2 hq
        rcases lookup_snoc _ _ _ _ _ hq with hq' | ⟨_, rfl, rfl⟩
        · exact hadd.provNodeOK q n2 hq'
        · rw [hidx]
          exact ⟨by rw [hnodes]; simp, by rw [hnodes]; exact hnewnode⟩
      · show (addNode st { isArg := false, prov := p }).2 < (st.nodes ++ [_]).length
        rw [hidx]; simp
      · show gi < groupsOfNode provs ((st.nodes ++ [_]).getD (addNode st { isArg := false, prov := p }).2 default)
        rw [hidx, hnewnode]; simpa [groupsOfNode] using hgi
  · split
    · rename_i n2 han
      obtain ⟨hn2, hisarg, _⟩ := h.argNodeOK t n2 han
      refine ⟨h, Ext.refl st, hn2, ?_⟩
      show 0 < groupsOfNode provs (st.nodes.getD n2 default)
      unfold groupsOfNode; rw [hisarg]; simp
    · obtain ⟨hadd, hidx⟩ := addNode_inv h { isArg := true, ty := t }
      change BInv provs (addNode st { isArg := true, ty := t }).1 cur at hadd
      have hnodes : (addNode st { isArg := true, ty := t }).1.nodes = st.nodes ++ [{ isArg := true, ty := t }] := rfl
      have hnewnode : (st.nodes ++ [({ isArg := true, ty := t } : Node)]).getD st.nodes.length default
          = { isArg := true, ty := t } := getD_append_right_new _ _ _
      refine ⟨?_, ⟨rfl, by show st.nodes.length ≤ (st.nodes ++ [_]).length; simp,
               fun m hm => getD_append_left _ _ _ _ hm⟩, ?_, ?_⟩
      · apply hadd.withArgNode
        intro q n2 hq
        rcases lookup_snoc _ _ _ _ _ hq with hq' | ⟨_, rfl, rfl⟩
        · exact hadd.argNodeOK q n2 hq'
        · rw [hidx]
          exact ⟨by rw [hnodes]; simp, by rw [hnodes, hnewnode], by rw [hnodes, hnewnode]⟩
      · show (addNode st { isArg := true, ty := t }).2 < (st.nodes ++ [_]).length
        rw [hidx]; simp
      · show 0 < groupsOfNode provs ((st.nodes ++ [_]).getD (addNode st { isArg := true, ty := t }).2 default)
        rw [hidx, hnewnode]; simp [groupsOfNode]

theorem reqStep_inv {provs : List PSpec} {sup : SupMap} (hsup : SupOK provs sup) {st : BfsSt} {n1 i : Nat} (t : Nat)
    (h : BInv provs st (some (n1, i))) (hn1 : n1 ∈ st.visited) :
    BInv provs (reqStep sup n1 i t st) (some (n1, i + 1)) ∧ Ext st (reqStep sup n1 i t st) := by
  obtain ⟨h1, hext, hlt, hsrc⟩ := pickNode_inv hsup t h
  have hn1' : n1 ∈ (pickNode sup t st).1.visited := by rw [hext.visited]; exact hn1
  exact ⟨addEdge_inv h1 hn1' hlt hsrc, ⟨hext.visited, hext.nodesLe, hext.nodesKeep⟩⟩

theorem bfsRequires_inv {provs : List PSpec} {sup : SupMap} (hsup : SupOK provs sup) {n1 : Nat} (ts : List Nat)
    {i : Nat} {st : BfsSt} (h : BInv provs st (some (n1, i))) (hn1 : n1 ∈ st.visited) :
    BInv provs (bfsRequires provs sup n1 i ts st) (some (n1, i + ts.length)) ∧
    Ext st (bfsRequires provs sup n1 i ts st) := by
  induction ts generalizing i st with
  | nil => exact ⟨by simpa [bfsRequires] using h, Ext.refl st⟩
  | cons t ts ih =>
    rw [bfsRequires_cons]
    obtain ⟨h1, hext1⟩ := reqStep_inv hsup t h hn1
    obtain ⟨h2, hext2⟩ := ih h1 (by rw [hext1.visited]; exact hn1)
    refine ⟨?_, hext1.trans hext2⟩
    have : i + (t :: ts).length = i + 1 + ts.length := by simp; omega
    rw [this]; exact h2

/-- closing the "current node" bookkeeping once all its requirements are wired -/
theorem BInv.closeCur {provs : List PSpec} {st : BfsSt} {c i : Nat} (h : BInv provs st (some (c, i)))
    (hi : i = slotsOfNode provs (st.nodes.getD c default)) : BInv provs st none :=
  { lenE := h.lenE, lenR := h.lenR, qLt := h.qLt, vLt := h.vLt, seen := h.seen, edgeOK := h.edgeOK,
    revOK := h.revOK, uniq := h.uniq, provNodeOK := h.provNodeOK, argNodeOK := h.argNodeOK,
    revLen := by
      intro m hm
      rw [h.revLen m hm]
      simp only [expectedRev]
      split
      · split
        · rename_i hmc; rw [hmc, hi]
        · rfl
      · rfl }

/-- popping an unvisited node `n1` from the queue and marking it visited -/
theorem visit_inv {provs : List PSpec} {st : BfsSt} {n1 : Nat} {q : List Nat} (h : BInv provs st none)
    (hq : st.queue = n1 :: q) (hnv : n1 ∉ st.visited) :
    BInv provs { st with queue := q, visited := st.visited ++ [n1] } (some (n1, 0)) := by
  have hn1 : n1 < st.nodes.length := h.qLt n1 (by rw [hq]; exact List.mem_cons_self ..)
  refine { lenE := h.lenE, lenR := h.lenR, qLt := ?_, vLt := ?_, seen := ?_, edgeOK := ?_, revOK := h.revOK,
           uniq := h.uniq, revLen := ?_, provNodeOK := h.provNodeOK, argNodeOK := h.argNodeOK }
  · intro m hm; exact h.qLt m (by rw [hq]; exact List.mem_cons_of_mem _ hm)
  · intro m hm
    simp only [List.mem_append, List.mem_singleton] at hm
    rcases hm with hm | rfl
    · exact h.vLt m hm
    · exact hn1
  · intro m hm
    rcases h.seen m hm with h1 | h1
    · rw [hq] at h1
      simp only [List.mem_cons] at h1
      rcases h1 with rfl | h1
      · exact Or.inr (by simp)
      · exact Or.inl h1
    · exact Or.inr (List.mem_append_left _ h1)
  · intro n2 e he
    obtain ⟨a, b, c, d⟩ := h.edgeOK n2 e he
    exact ⟨a, List.mem_append_left _ b, c, d⟩
  · intro m hm
    rw [h.revLen m hm]
    simp only [expectedRev, List.mem_append, List.mem_singleton]
    by_cases hmn : m = n1
    · subst hmn
      simp [hnv]
    · simp [hmn]

theorem bfsLoop_inv {provs : List PSpec} {sup : SupMap} (hsup : SupOK provs sup) (fuel : Nat) {st : BfsSt}
    (h : BInv provs st none) : BInv provs (bfsLoop provs sup fuel st) none := by
  induction fuel generalizing st with
  | zero => simpa [bfsLoop] using h
  | succ k ih =>
    simp only [bfsLoop]
    split
    · exact h
    · rename_i n1 q hq
      have hn1 : n1 < st.nodes.length := h.qLt n1 (by rw [hq]; exact List.mem_cons_self ..)
      split
      · -- already visited: drop it
        rename_i hv
        have hv' : n1 ∈ st.visited := by simpa using hv
        apply ih
        exact { lenE := h.lenE, lenR := h.lenR, vLt := h.vLt, edgeOK := h.edgeOK, revOK := h.revOK, uniq := h.uniq,
                revLen := h.revLen, provNodeOK := h.provNodeOK, argNodeOK := h.argNodeOK,
                qLt := fun m hm => h.qLt m (by rw [hq]; exact List.mem_cons_of_mem _ hm),
                seen := by
                  intro m hm
                  rcases h.seen m hm with h1 | h1
                  · rw [hq] at h1
                    simp only [List.mem_cons] at h1
                    rcases h1 with rfl | h1
                    · exact Or.inr hv'
                    · exact Or.inl h1
                  · exact Or.inr h1 }
      · rename_i hv
        have hnv : n1 ∉ st.visited := by simpa using hv
        have hvis := visit_inv h hq hnv
        have hget : st.nodes[n1]? = some (st.nodes.getD n1 default) := by
          rw [List.getElem?_eq_getElem hn1, getD_eq_getElem' _ _ _ hn1]
        split
        · rename_i hnone
          rw [show ({ st with queue := q, visited := st.visited ++ [n1] } : BfsSt).nodes = st.nodes from rfl] at hnone
          rw [hget] at hnone; cases hnone
        · rename_i nd hsome
          rw [show ({ st with queue := q, visited := st.visited ++ [n1] } : BfsSt).nodes = st.nodes from rfl] at hsome
          rw [hget] at hsome
          have hnd : nd = st.nodes.getD n1 default := (Option.some.inj hsome).symm
          split
          · rename_i harg
            apply ih
            apply hvis.closeCur
            show 0 = slotsOfNode provs (st.nodes.getD n1 default)
            rw [← hnd]; simp [slotsOfNode, harg]
          · rename_i harg
            apply ih
            have hn1v : n1 ∈ ({ st with queue := q, visited := st.visited ++ [n1] } : BfsSt).visited := by simp
            obtain ⟨h2, hext⟩ := bfsRequires_inv hsup (provs.getD nd.prov default).requires hvis hn1v
            apply h2.closeCur
            rw [hext.nodesKeep n1 hn1]
            show 0 + _ = slotsOfNode provs (st.nodes.getD n1 default)
            rw [← hnd]; simp [slotsOfNode, harg]

end KV
