import KV.Refuse
/-! # Soundness (including fuel adequacy) of the three-colour DFS cycle detector `detectCycles` -/
namespace KV

/-! ## weighted white count -/

/-- every white node `v < k` counts `1 + out-degree` -/
def wsum (edges : List (List Edge)) (colors : List Nat) : Nat → Nat
  | 0 => 0
  | k + 1 => wsum edges colors k + (if colors.getD k 0 = 0 then 1 + (edges.getD k []).length else 0)

theorem wsum_mono (edges : List (List Edge)) (c c' : List Nat) :
    ∀ k, (∀ v, v < k → c'.getD v 0 = 0 → c.getD v 0 = 0) → wsum edges c' k ≤ wsum edges c k
  | 0, _ => Nat.le_refl _
  | k + 1, h => by
    have ih := wsum_mono edges c c' k (fun v hv => h v (by omega))
    have hk := h k (by omega)
    simp only [wsum]
    by_cases hc : c'.getD k 0 = 0
    · rw [if_pos hc, if_pos (hk hc)]; omega
    · rw [if_neg hc]; omega

theorem wsum_strict (edges : List (List Edge)) (c c' : List Nat) (node : Nat)
    (hw : c.getD node 0 = 0) (hw' : c'.getD node 0 ≠ 0) :
    ∀ k, (∀ v, v < k → c'.getD v 0 = 0 → c.getD v 0 = 0) → node < k →
      wsum edges c' k + 1 + (edges.getD node []).length ≤ wsum edges c k
  | 0, _, hn => by omega
  | k + 1, h, hn => by
    have hmono := wsum_mono edges c c' k (fun v hv => h v (by omega))
    have hk := h k (by omega)
    simp only [wsum]
    by_cases hnk : node = k
    · subst hnk
      rw [if_neg hw', if_pos hw]; omega
    · have ih := wsum_strict edges c c' node hw hw' k (fun v hv => h v (by omega)) (by omega)
      by_cases hc : c'.getD k 0 = 0
      · rw [if_pos hc, if_pos (hk hc)]; omega
      · rw [if_neg hc]; omega

/-- sum of the out-degrees of the nodes `< k` -/
def lens (edges : List (List Edge)) : Nat → Nat
  | 0 => 0
  | k + 1 => lens edges k + (edges.getD k []).length

theorem wsum_le_lens (edges : List (List Edge)) (c : List Nat) : ∀ k, wsum edges c k ≤ k + lens edges k
  | 0 => Nat.le_refl _
  | k + 1 => by
    have ih := wsum_le_lens edges c k
    simp only [wsum, lens]
    split <;> omega

theorem lens_nil : ∀ k, lens [] k = 0
  | 0 => rfl
  | k + 1 => by
    simp only [lens, lens_nil k]
    rfl

theorem lens_cons (x : List Edge) (xs : List (List Edge)) : ∀ k, lens (x :: xs) (k + 1) = x.length + lens xs k
  | 0 => by
    show 0 + x.length = x.length + 0
    omega
  | k + 1 => by
    have ih := lens_cons x xs k
    show lens (x :: xs) (k + 1) + (xs.getD k []).length = x.length + (lens xs k + (xs.getD k []).length)
    omega

theorem lens_le_foldl : ∀ (edges : List (List Edge)) (a k : Nat),
    lens edges k + a ≤ edges.foldl (fun a l => a + l.length) a
  | [], a, k => by
    rw [lens_nil]
    show 0 + a ≤ a
    omega
  | x :: xs, a, 0 => by
    have ih := lens_le_foldl xs (a + x.length) 0
    show 0 + a ≤ xs.foldl (fun a l => a + l.length) (a + x.length)
    have : lens xs 0 = 0 := rfl
    omega
  | x :: xs, a, k + 1 => by
    have ih := lens_le_foldl xs (a + x.length) k
    rw [lens_cons]
    show x.length + lens xs k + a ≤ xs.foldl (fun a l => a + l.length) (a + x.length)
    omega

theorem wsum_fuel (edges : List (List Edge)) (c : List Nat) (N : Nat) :
    wsum edges c N + 1 ≤ 2 * N + 2 + (edges.foldl (fun a l => a + l.length) 0) * 2 := by
  have h1 := wsum_le_lens edges c N
  have h2 := lens_le_foldl edges 0 N
  omega

/-! ## paths -/

theorem Path.snoc {g : Graph} {a b : Nat} (hp : Path g a b) :
    ∀ (e : Edge), e ∈ g.edges.getD b [] → Path g a e.dst := by
  induction hp with
  | single e' he' hm =>
    intro e he
    subst hm
    exact Path.cons e' he' rfl (Path.single e he rfl)
  | cons e' he' hm _ ih =>
    intro e he
    exact Path.cons e' he' hm (ih e he)

/-! ## joint specification of `dfsVisit` / `dfsEdges` -/

/-- a reported cycle is real; otherwise the gray set is unchanged and no node became white -/
def DfsPost (g : Graph) (N : Nat) (colors : List Nat) (r : List Nat × Bool) : Prop :=
  (r.2 = true → ∃ n, Path g n n) ∧
  (r.2 = false → r.1.length = N ∧ (∀ v, r.1.getD v 0 = 1 ↔ colors.getD v 0 = 1) ∧
    (∀ v, r.1.getD v 0 = 0 → colors.getD v 0 = 0))

theorem getD_set_casesNat (l : List Nat) (i j a : Nat) :
    (l.set i a).getD j 0 = if i = j ∧ i < l.length then a else l.getD j 0 := by
  simp only [List.getD_eq_getElem?_getD, List.getElem?_set]
  by_cases h : i = j
  · subst h
    by_cases hl : i < l.length
    · simp [hl]
    · simp [hl]
  · simp [h]

theorem dfs_spec (g : Graph) (N : Nat) (hdst : ∀ n e, e ∈ g.edges.getD n [] → e.dst < N) :
    ∀ fuel,
      (∀ node colors, colors.length = N → node < N → colors.getD node 0 = 0 →
        wsum g.edges colors N + 1 ≤ fuel → (∀ v, colors.getD v 0 = 1 → Path g v node) →
        DfsPost g N colors (dfsVisit g.edges fuel node colors)) ∧
      (∀ cur es colors, colors.length = N → cur < N → colors.getD cur 0 = 1 →
        (∀ e, e ∈ es → e ∈ g.edges.getD cur []) → wsum g.edges colors N + es.length + 1 ≤ fuel →
        (∀ v, colors.getD v 0 = 1 → v = cur ∨ Path g v cur) →
        DfsPost g N colors (dfsEdges g.edges fuel es colors)) := by
  intro fuel
  induction fuel with
  | zero =>
    refine ⟨?_, ?_⟩
    · intro node colors _ _ _ hf _
      omega
    · intro cur es colors hlen _ _ _ hf _
      cases es with
      | nil =>
        simp only [dfsEdges]
        exact ⟨(fun h => by cases h), fun _ => ⟨hlen, fun _ => Iff.rfl, fun _ h => h⟩⟩
      | cons e es =>
        simp only [List.length_cons] at hf
        omega
  | succ f ih =>
    obtain ⟨ihV, ihE⟩ := ih
    refine ⟨?_, ?_⟩
    · intro node colors hlen hnode hwhite hf hgray
      have hlen1 : (colors.set node 1).length = N := by rw [List.length_set]; exact hlen
      have hself : (colors.set node 1).getD node 0 = 1 :=
        getD_set_self colors node 1 0 (by omega)
      have hwm : ∀ v, v < N → (colors.set node 1).getD v 0 = 0 → colors.getD v 0 = 0 := by
        intro v _ hv
        rw [getD_set_casesNat] at hv
        split at hv
        · cases hv
        · exact hv
      have hstrict := wsum_strict g.edges colors (colors.set node 1) node hwhite
        (by rw [hself]; omega) N hwm hnode
      have hE := ihE node (g.edges.getD node []) (colors.set node 1) hlen1 hnode hself
        (fun e h => h) (by omega)
        (by
          intro v hv
          rw [getD_set_casesNat] at hv
          split at hv
          · rename_i hc; exact Or.inl hc.1.symm
          · exact Or.inr (hgray v hv))
      simp only [dfsVisit]
      generalize dfsEdges g.edges f (g.edges.getD node []) (colors.set node 1) = r at hE
      obtain ⟨c2, found⟩ := r
      obtain ⟨hE1, hE2⟩ := hE
      cases found with
      | true =>
        exact ⟨fun _ => hE1 rfl, fun h => by cases h⟩
      | false =>
        obtain ⟨hl2, hg2, hw2⟩ := hE2 rfl
        have hl2 : c2.length = N := hl2
        have hg2 : ∀ v, c2.getD v 0 = 1 ↔ (colors.set node 1).getD v 0 = 1 := hg2
        have hw2 : ∀ v, c2.getD v 0 = 0 → (colors.set node 1).getD v 0 = 0 := hw2
        refine ⟨(fun h => by cases h), fun _ => ⟨?_, ?_, ?_⟩⟩
        · show (c2.set node 2).length = N
          rw [List.length_set]; exact hl2
        · intro v
          show (c2.set node 2).getD v 0 = 1 ↔ colors.getD v 0 = 1
          rw [getD_set_casesNat]
          split
          · rename_i hc
            obtain ⟨rfl, _⟩ := hc
            rw [hwhite]
            exact ⟨(fun h => by omega), (fun h => by omega)⟩
          · rename_i hc
            have hne : node ≠ v := fun h => hc ⟨h, by omega⟩
            rw [hg2 v, getD_set_other colors node v 1 0 (Ne.symm hne)]
        · intro v hv
          change (c2.set node 2).getD v 0 = 0 at hv
          rw [getD_set_casesNat] at hv
          split at hv
          · cases hv
          · rename_i hc
            have hne : node ≠ v := fun h => hc ⟨h, by omega⟩
            have := hw2 v hv
            rw [getD_set_other colors node v 1 0 (Ne.symm hne)] at this
            exact this
    · intro cur es colors hlen hcur hcurg hes hf hgray
      cases es with
      | nil =>
        simp only [dfsEdges]
        exact ⟨(fun h => by cases h), fun _ => ⟨hlen, fun _ => Iff.rfl, fun _ h => h⟩⟩
      | cons e es =>
        simp only [List.length_cons] at hf
        have he : e ∈ g.edges.getD cur [] := hes e (List.mem_cons_self)
        have hes' : ∀ e', e' ∈ es → e' ∈ g.edges.getD cur [] :=
          fun e' h => hes e' (List.mem_cons_of_mem _ h)
        simp only [dfsEdges]
        by_cases hg1 : colors.getD e.dst 0 = 1
        · -- gray target: a real cycle through `cur`
          have hb : (colors.getD e.dst 0 == 1) = true := by rw [hg1]; rfl
          rw [if_pos hb]
          refine ⟨fun _ => ?_, fun h => by cases h⟩
          cases hgray e.dst hg1 with
          | inl h => exact ⟨cur, Path.single e he h⟩
          | inr hp => exact ⟨cur, Path.cons e he rfl hp⟩
        · have hb : ¬ (colors.getD e.dst 0 == 1) = true := by
            intro h; exact hg1 (by simpa using h)
          rw [if_neg hb]
          by_cases hg0 : colors.getD e.dst 0 = 0
          · have hb0 : (colors.getD e.dst 0 == 0) = true := by rw [hg0]; rfl
            rw [if_pos hb0]
            have hV := ihV e.dst colors hlen (hdst cur e he) hg0 (by omega)
              (by
                intro v hv
                cases hgray v hv with
                | inl h => subst h; exact Path.single e he rfl
                | inr hp => exact hp.snoc e he)
            generalize dfsVisit g.edges f e.dst colors = r at hV
            obtain ⟨c2, found⟩ := r
            obtain ⟨hV1, hV2⟩ := hV
            cases found with
            | true =>
              exact ⟨fun _ => hV1 rfl, fun h => by cases h⟩
            | false =>
              obtain ⟨hl2, hg2, hw2⟩ := hV2 rfl
              have hl2 : c2.length = N := hl2
              have hg2 : ∀ v, c2.getD v 0 = 1 ↔ colors.getD v 0 = 1 := hg2
              have hw2 : ∀ v, c2.getD v 0 = 0 → colors.getD v 0 = 0 := hw2
              have hmono := wsum_mono g.edges colors c2 N (fun v _ => hw2 v)
              have hE := ihE cur es c2 hl2 hcur ((hg2 cur).2 hcurg) hes' (by omega)
                (fun v hv => hgray v ((hg2 v).1 hv))
              show DfsPost g N colors (dfsEdges g.edges f es c2)
              obtain ⟨hE1, hE2⟩ := hE
              refine ⟨hE1, fun h => ?_⟩
              obtain ⟨hl3, hg3, hw3⟩ := hE2 h
              exact ⟨hl3, fun v => (hg3 v).trans (hg2 v), fun v hv => hw2 v (hw3 v hv)⟩
          · have hb0 : ¬ (colors.getD e.dst 0 == 0) = true := by
              intro h; exact hg0 (by simpa using h)
            rw [if_neg hb0]
            exact ihE cur es colors hlen hcur hcurg hes' (by omega) hgray

/-! ## the outer loop -/

theorem detectCycles_go_sound (g : Graph) (N : Nat)
    (hdst : ∀ n e, e ∈ g.edges.getD n [] → e.dst < N) :
    ∀ k i colors, colors.length = N → (∀ v, colors.getD v 0 ≠ 1) → i + k ≤ N →
      detectCycles.go g.edges N k i colors = true → ∃ n, Path g n n := by
  intro k
  induction k with
  | zero =>
    intro i colors _ _ _ h
    simp only [detectCycles.go] at h
    cases h
  | succ k ih =>
    intro i colors hlen hng hik h
    simp only [detectCycles.go] at h
    by_cases hw : colors.getD i 0 = 0
    · have hb : (colors.getD i 0 == 0) = true := by rw [hw]; rfl
      rw [if_pos hb] at h
      have hV := (dfs_spec g N hdst
        (2 * N + 2 + (g.edges.foldl (fun a l => a + l.length) 0) * 2)).1 i colors hlen (by omega) hw
        (wsum_fuel g.edges colors N) (fun v hv => absurd hv (hng v))
      generalize dfsVisit g.edges (2 * N + 2 + (g.edges.foldl (fun a l => a + l.length) 0) * 2) i colors = r at hV h
      obtain ⟨c2, found⟩ := r
      obtain ⟨hV1, hV2⟩ := hV
      cases found with
      | true => exact hV1 rfl
      | false =>
        obtain ⟨hl2, hg2, _⟩ := hV2 rfl
        have hl2 : c2.length = N := hl2
        have hg2 : ∀ v, c2.getD v 0 = 1 ↔ colors.getD v 0 = 1 := hg2
        exact ih (i + 1) c2 hl2 (fun v hv => hng v ((hg2 v).1 hv)) (by omega) h
    · have hb : ¬ (colors.getD i 0 == 0) = true := by
        intro h'; exact hw (by simpa using h')
      rw [if_neg hb] at h
      exact ih (i + 1) colors hlen hng (by omega) h

/-- `detectCycles` only reports a cycle when the graph really has one (the fuel is adequate) -/
theorem detectCycles_sound (g : Graph) (N : Nat)
    (hdst : ∀ n e, e ∈ g.edges.getD n [] → e.dst < N)
    (h : detectCycles g.edges N = true) : ∃ n, Path g n n := by
  unfold detectCycles at h
  refine detectCycles_go_sound g N hdst N 0 (List.replicate N 0) List.length_replicate ?_ (by omega) h
  intro v hv
  rw [List.getD_eq_getElem?_getD, List.getElem?_replicate] at hv
  split at hv <;> simp at hv

/-- the hypotheses are satisfiable on a concrete 2-cycle `0 → 1 → 0` -/
example : ∃ n, Path { (default : Graph) with edges := [[⟨1, 0, 0⟩], [⟨0, 1, 0⟩]] } n n :=
  detectCycles_sound { (default : Graph) with edges := [[⟨1, 0, 0⟩], [⟨0, 1, 0⟩]] } 2
    (by
      intro n e he
      match n, he with
      | 0, he => simp at he; subst he; decide
      | 1, he => simp at he; subst he; decide
      | n + 2, he => simp at he)
    (by decide)

end KV

#print axioms KV.detectCycles_sound
