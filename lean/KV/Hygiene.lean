import KV.CallsValue
/-! # Structural hygiene of the emitted function: declared ⇒ used (for C04)

The real generator declares `var x T` for every result parameter whose name is not `_` (model: `refs ≠ 0`,
see `dumpCallE`) and `xCh := make(chan struct{})` for every parameter with `withChan`.  Go rejects a local that is
declared and not used, so this file relates the two counters set in the second pass of `Build`
(`Plan.lean`, `p2Edge`) to the ops of the emitted program `emitted p`:

* `refs_eq_count`       : `refs v` = number of (producer, edge) pairs of the graph wired to `v`, plus one if `v` is the
                          returned parameter  (exact pass-2 invariant `P2Cnt.refs`).
* `refs_ne_zero_iff`    : `refs v ≠ 0` ⇔ some emitted `enter` lists `v` among its arguments, or `v` is returned.
* `withChan_iff_wait`   : `withChan c` ⇔ some emitted `wait _ c` exists;  `withChan_iff_close` likewise for `close`.
* `wait_other_thread`   : the waiter of a channel and its closer are in different threads.
* `arg_plain`           : injector arguments have no channel, no `exit` writes them, nobody waits on / closes them.
* `isArg_iff_mem_args`  : the parameters flagged `isArg` are exactly the injector's signature arguments `b.args`.
* `call_args_declared`  : every argument of an emitted `enter` is an existing parameter with `refs ≠ 0`.
* `exit_some_used`      : every emitted call has at least one result with `refs ≠ 0` (never `_, _ := f()`). -/
namespace KV

/-! ## pass 1: reference counts start at zero -/

theorem p1Step_refs0 {g : Graph} {st : P1St} (n : Nat) (h : ∀ q ∈ st.params, q.refs = 0) :
    ∀ q ∈ (p1Step g st n).params, q.refs = 0 := by
  unfold p1Step
  by_cases ha : (g.nodes.getD n default).isArg = true
  · simp only [ha, ↓reduceIte]
    intro q hq
    rcases List.mem_append.mp hq with hq | hq
    · exact h q hq
    · simp only [List.mem_singleton] at hq
      subst hq; rfl
  · simp only [ha, Bool.false_eq_true, ↓reduceIte]
    intro q hq
    rcases List.mem_append.mp hq with hq | hq
    · exact h q hq
    · simp only [List.mem_map] at hq
      obtain ⟨gi, _, rfl⟩ := hq
      rfl

theorem bpass1_refs0 (g : Graph) (order : List Nat) (k : Nat) : ∀ q ∈ (bpass1 g order k).params, q.refs = 0 := by
  unfold bpass1
  have hI : ∀ q ∈ (p1Init g k).params, q.refs = 0 := by
    intro q hq; simp [p1Init] at hq
  generalize p1Init g k = st at hI
  induction order generalizing st with
  | nil => exact hI
  | cons x xs ih => exact ih _ (p1Step_refs0 x hI)

theorem getD_refs0 {ps : List Param} (h : ∀ q ∈ ps, q.refs = 0) (v : Nat) : (ps.getD v default).refs = 0 := by
  by_cases hv : v < ps.length
  · rw [getD_eq_getElem' _ _ _ hv]; exact h _ (List.getElem_mem hv)
  · simp only [List.getD_eq_getElem?_getD, List.getElem?_eq_none (Nat.le_of_not_lt hv)]
    rfl

/-! ## pass 2: exact reference count, and `withChan` only from a waiting consumer -/

/-- the processed (producer, edge) pairs whose wired variable is `v` -/
def hits (p1 : P1St) (proc : List (Nat × Edge)) (v : Nat) : List (Nat × Edge) :=
  proc.filter (fun x => (argVal p1 x.1 x.2).param == v)

theorem hits_snoc_len (p1 : P1St) (proc : List (Nat × Edge)) (x : Nat × Edge) (v : Nat) :
    (hits p1 (proc ++ [x]) v).length =
      (hits p1 proc v).length + (if (argVal p1 x.1 x.2).param = v then 1 else 0) := by
  simp only [hits, List.filter_append, List.length_append]
  congr 1
  by_cases hc : (argVal p1 x.1 x.2).param = v
  · simp [hc]
  · simp [hc]

structure P2Cnt (p1 : P1St) (params0 : List Param) (proc : List (Nat × Edge)) (st : P2St) : Prop where
  plen : st.params.length = params0.length
  /-- `refs` = initial value + number of processed edges wired to the variable -/
  refs : ∀ v, v < params0.length →
    (st.params.getD v default).refs = (params0.getD v default).refs + (hits p1 proc v).length
  /-- a channel flag only comes from a processed edge whose consumer is in another pool -/
  chanOnly : ∀ v, (st.params.getD v default).withChan = true →
    (params0.getD v default).withChan = true ∨
      ∃ x ∈ proc, (argVal p1 x.1 x.2).param = v ∧ shouldWaitB p1 x.1 x.2.dst = true

theorem p2Init_cnt (g : Graph) (p1 : P1St) (params0 : List Param) : P2Cnt p1 params0 [] (p2Init g params0) where
  plen := rfl
  refs := by intro v _; simp [hits, p2Init]
  chanOnly := fun _ h => Or.inl h

theorem p2Pair_cnt {p1 : P1St} {params0 : List Param} {proc : List (Nat × Edge)} {st : P2St}
    (h : P2Cnt p1 params0 proc st) (x : Nat × Edge) : P2Cnt p1 params0 (proc ++ [x]) (p2Pair p1 st x) := by
  obtain ⟨n, e⟩ := x
  simp only [p2Pair]
  rw [p2Edge_eq]
  refine { plen := ?_, refs := ?_, chanOnly := ?_ }
  · show (listModify st.params _ _).length = _
    rw [listModify_length]; exact h.plen
  · intro v hv
    show ((listModify st.params (argVal p1 n e).param (bumpParam (shouldWaitB p1 n e.dst))).getD v default).refs = _
    rw [hits_snoc_len]
    by_cases hve : (argVal p1 n e).param = v
    · subst hve
      have hl : (argVal p1 n e).param < st.params.length := by rw [h.plen]; exact hv
      rw [getD_listModify_self _ _ _ _ hl]
      show (st.params.getD (argVal p1 n e).param default).refs + 1 = _
      rw [h.refs _ hv]
      simp only [↓reduceIte]
      omega
    · rw [getD_listModify_other _ _ _ _ _ (Ne.symm hve), h.refs v hv]
      simp only [hve, ↓reduceIte]
      omega
  · intro v hw
    change ((listModify st.params (argVal p1 n e).param (bumpParam (shouldWaitB p1 n e.dst))).getD v default).withChan
      = true at hw
    have lift : ((params0.getD v default).withChan = true ∨
        ∃ x ∈ proc, (argVal p1 x.1 x.2).param = v ∧ shouldWaitB p1 x.1 x.2.dst = true) →
        ((params0.getD v default).withChan = true ∨
        ∃ x ∈ proc ++ [(n, e)], (argVal p1 x.1 x.2).param = v ∧ shouldWaitB p1 x.1 x.2.dst = true) := by
      rintro (h0 | ⟨x, hx, h1, h2⟩)
      · exact Or.inl h0
      · exact Or.inr ⟨x, List.mem_append_left _ hx, h1, h2⟩
    by_cases hve : (argVal p1 n e).param = v
    · subst hve
      by_cases hl : (argVal p1 n e).param < st.params.length
      · rw [getD_listModify_self _ _ _ _ hl] at hw
        simp only [bumpParam, Bool.and_eq_true, Bool.or_eq_true] at hw
        rcases hw.2 with hw | hw
        · exact lift (h.chanOnly _ hw)
        · exact Or.inr ⟨(n, e), by simp, rfl, hw⟩
      · rw [listModify_oob _ _ _ hl] at hw
        exact lift (h.chanOnly _ hw)
    · rw [getD_listModify_other _ _ _ _ _ (Ne.symm hve)] at hw
      exact lift (h.chanOnly _ hw)

theorem foldl_p2_cnt {p1 : P1St} {params0 : List Param} (l : List (Nat × Edge))
    (proc : List (Nat × Edge)) (st : P2St) (h : P2Cnt p1 params0 proc st) :
    P2Cnt p1 params0 (proc ++ l) (l.foldl (p2Pair p1) st) := by
  induction l generalizing proc st with
  | nil => simpa using h
  | cons x xs ih =>
    simp only [List.foldl_cons]
    have := ih (proc ++ [x]) _ (p2Pair_cnt h x)
    simpa [List.append_assoc] using this

theorem bpass2_cnt (g : Graph) (order : List Nat) (p1 : P1St) (params0 : List Param) :
    P2Cnt p1 params0 (edgePairs g order) (bpass2 g order p1 params0) := by
  rw [bpass2_eq]
  have := foldl_p2_cnt (edgePairs g order) [] _ (p2Init_cnt g p1 params0)
  simpa using this

/-! ## the stages of `build2`, named -/

def st1Of (g : Graph) : P1St := bpass1 g (topoOrder g) (maxAntichain g)
def params0Of (g : Graph) : List Param := listModify (st1Of g).params (retParamOf g (st1Of g)) refBump
def st2Of (g : Graph) : P2St := bpass2 g (topoOrder g) (st1Of g) (params0Of g)

theorem build2_shape {g : Graph} {b : BuildOut} (hb : build2 g = .ok b) :
    b.params = (st2Of g).params ∧ b.nodeArgs = (st2Of g).nodeArgs ∧ b.nodeRets = (st1Of g).nodeRets ∧
    b.nodePool = (st1Of g).nodePool ∧ b.pools = (st1Of g).pools ∧ b.retParam = retParamOf g (st1Of g) := by
  simp only [build2] at hb
  split at hb
  · cases hb
    exact ⟨rfl, rfl, rfl, rfl, rfl, rfl⟩
  · cases hb

theorem params0Of_refs (g : Graph) (v : Nat) (hv : v < (st1Of g).params.length) :
    ((params0Of g).getD v default).refs = (if v = retParamOf g (st1Of g) then 1 else 0) := by
  have h0 := getD_refs0 (bpass1_refs0 g (topoOrder g) (maxAntichain g))
  unfold params0Of
  by_cases hve : v = retParamOf g (st1Of g)
  · rw [if_pos hve, ← hve, getD_listModify_self _ _ _ _ hv]
    show ((st1Of g).params.getD v default).refs + 1 = 1
    rw [show ((st1Of g).params.getD v default).refs = 0 from h0 v]
  · rw [if_neg hve, getD_listModify_other _ _ _ _ _ hve]
    exact h0 v

theorem params0Of_noChan (g : Graph) (h1 : ∀ v, ((st1Of g).params.getD v default).withChan = false) (v : Nat) :
    ((params0Of g).getD v default).withChan = false := by
  unfold params0Of
  rw [(getD_listModify_fields _ _ v).2.2]; exact h1 v

/-! ## plan level -/

/-- the (producer node, edge) pairs of the planned graph whose source result variable is `v`:
    each is one (consumer node `e.dst`, slot `e.slot`) reading `v` -/
def wiredTo (p : PlanOut) (v : Nat) : List (Nat × Edge) :=
  (edgePairs p.g (topoOrder p.g)).filter (fun x => (p.b.nodeRets.getD x.1 []).getD x.2.src 0 == v)

section
variable {provs : List PSpec} {ret : Nat} {p : PlanOut}

theorem plan_p1inv (h : plan provs ret = .ok p) :
    P1Inv p.g (maxAntichain p.g) (topoOrder p.g) (st1Of p.g) := by
  have hok := plan_planOK h
  exact bpass1_inv (g := p.g) (topoOrder p.g) (maxAntichain p.g) hok.order_nodup hok.order_lt

theorem plan_params_length (h : plan provs ret = .ok p) : p.b.params.length = (st1Of p.g).params.length := by
  obtain ⟨_, hb, _⟩ := plan_ok h
  obtain ⟨hpar, _⟩ := build2_shape hb
  rw [hpar]
  have := (bpass2_cnt p.g (topoOrder p.g) (st1Of p.g) (params0Of p.g)).plen
  rw [show (st2Of p.g).params.length = (params0Of p.g).length from this]
  unfold params0Of
  rw [listModify_length]

/-- **`refs` is exactly the number of readers**: the (consumer, slot) pairs wired to `v`, plus the `return`. -/
theorem refs_eq_count (h : plan provs ret = .ok p) {v : Nat} (hv : v < p.b.params.length) :
    (p.b.params.getD v default).refs = (if v = p.b.retParam then 1 else 0) + (wiredTo p v).length := by
  obtain ⟨_, hb, _⟩ := plan_ok h
  obtain ⟨hpar, _, hrets, _, _, hrp⟩ := build2_shape hb
  have hcnt := bpass2_cnt p.g (topoOrder p.g) (st1Of p.g) (params0Of p.g)
  have hv1 : v < (st1Of p.g).params.length := by rw [← plan_params_length h]; exact hv
  have hv0 : v < (params0Of p.g).length := by unfold params0Of; rw [listModify_length]; exact hv1
  have := hcnt.refs v hv0
  rw [hpar, hrp]
  rw [show (st2Of p.g).params = (bpass2 p.g (topoOrder p.g) (st1Of p.g) (params0Of p.g)).params from rfl, this,
    params0Of_refs _ _ hv1]
  congr 1
  simp only [wiredTo, hrets]
  rfl

theorem mem_wiredTo {v n : Nat} {e : Edge} (hn : n ∈ topoOrder p.g) (he : e ∈ p.g.edges.getD n [])
    (hv : (p.b.nodeRets.getD n []).getD e.src 0 = v) : (n, e) ∈ wiredTo p v := by
  simp only [wiredTo, List.mem_filter, edgePairs, List.mem_flatMap, List.mem_map]
  exact ⟨⟨n, hn, e, he, rfl⟩, by simpa using hv⟩

theorem of_mem_wiredTo {v : Nat} {x : Nat × Edge} (hx : x ∈ wiredTo p v) :
    x.1 ∈ topoOrder p.g ∧ x.2 ∈ p.g.edges.getD x.1 [] ∧ (p.b.nodeRets.getD x.1 []).getD x.2.src 0 = v := by
  simp only [wiredTo, List.mem_filter, edgePairs, List.mem_flatMap, List.mem_map] at hx
  obtain ⟨⟨n, hn, e, he, rfl⟩, hv⟩ := hx
  exact ⟨hn, he, by simpa using hv⟩

theorem nodeSlots_arg {g : Graph} {m : Nat} (hml : m < g.nodes.length)
    (hia : (g.nodes.getD m default).isArg = true) : nodeSlots g m = 0 := by
  rw [getD_eq_getElem' _ _ _ hml] at hia
  simp only [nodeSlots, List.getElem?_eq_getElem hml, hia, ↓reduceIte]

/-- **the consumer of every edge of the graph is an emitted call, and its slot holds the wired variable**
    (with the wait flag the second pass computed for that edge) -/
theorem consumer_emitted (h : plan provs ret = .ok p) {n : Nat} {e : Edge}
    (hn : n ∈ topoOrder p.g) (he : e ∈ p.g.edges.getD n []) :
    ∃ t, nodeInfo p.b e.dst ∈ tnodes p t ∧ argVal (st1Of p.g) n e ∈ p.b.nodeArgs.getD e.dst [] := by
  have hok := plan_planOK h
  obtain ⟨_, hb, _⟩ := plan_ok h
  obtain ⟨_, hna, _, _, hpools, _⟩ := build2_shape hb
  have h1 := plan_p1inv h
  have h2 := bpass2_inv p.g (topoOrder p.g) (st1Of p.g) (params0Of p.g)
  have hml : e.dst < p.g.nodes.length := hok.gwf.dstLt n e he
  have hmo := accepted_all_in_order h e.dst hml
  have hslot : e.slot < nodeSlots p.g e.dst := by
    rw [hok.gwf.slotsEq _ hml]; exact hok.gwf.slotLt n e he
  have hmna : isArgNode p.g e.dst = false := by
    cases hia : isArgNode p.g e.dst with
    | false => rfl
    | true =>
      have := nodeSlots_arg hml hia
      omega
  have hk : 0 < maxAntichain p.g := by
    have := hok.k_pos
    rw [hpools, h1.lenPools] at this; exact this
  obtain ⟨q, _, hmq⟩ := h1.placed e.dst hmo hmna hk
  rw [← hpools] at hmq
  obtain ⟨t, ht⟩ := mem_thread_of_node (b := p.b) (hok.stmts.cover q e.dst hmq)
  refine ⟨t, ht, ?_⟩
  have hpair : (n, e) ∈ edgePairs p.g (topoOrder p.g) := by
    simp only [edgePairs, List.mem_flatMap, List.mem_map]
    exact ⟨n, hn, e, he, rfl⟩
  obtain ⟨y, hy, hyd, hys, hval⟩ := h2.written (n, e) hpair hml hslot
  simp only [edgePairs, List.mem_flatMap, List.mem_map] at hy
  obtain ⟨n', _, e', he', rfl⟩ := hy
  obtain ⟨hnn, hee⟩ := hok.gwf.edgeUnique n n' e e' he he' hyd.symm hys.symm
  subst hnn; subst hee
  simp only at hval
  rw [hna]
  have hlen : e.slot < ((st2Of p.g).nodeArgs.getD e.dst []).length := by
    rw [show (st2Of p.g).nodeArgs = (bpass2 p.g (topoOrder p.g) (st1Of p.g) (params0Of p.g)).nodeArgs from rfl,
      h2.slotLen _ hml]
    exact hslot
  have hval' : ((st2Of p.g).nodeArgs.getD e.dst []).getD e.slot dfltArg = argVal (st1Of p.g) n e := hval
  rw [getD_eq_getElem' _ _ _ hlen] at hval'
  rw [← hval']
  exact List.getElem_mem hlen

/-- the arguments of an emitted call, by entries of `nodeArgs` -/
theorem enter_args_entries {t m : Nat} {args : List Nat} (hen : T1.Op.enter m args ∈ T1.thread (emitted p) t) :
    args = (p.b.nodeArgs.getD m []).map (·.param) := by
  obtain ⟨_, hargs, _⟩ := enter_mem_emitted hen
  rw [hargs]; simp only [nodeInfo, List.map_map]; rfl

/-- an edge wired to `v` gives an emitted call reading `v` -/
theorem read_of_edge (h : plan provs ret = .ok p) {n : Nat} {e : Edge}
    (hn : n ∈ topoOrder p.g) (he : e ∈ p.g.edges.getD n []) :
    ∃ t args, T1.Op.enter e.dst args ∈ T1.thread (emitted p) t ∧
      (p.b.nodeRets.getD n []).getD e.src 0 ∈ args := by
  obtain ⟨_, hb, _⟩ := plan_ok h
  obtain ⟨_, _, hrets, _⟩ := build2_shape hb
  obtain ⟨t, ht, ha⟩ := consumer_emitted h hn he
  refine ⟨t, _, enter_of_node ht, ?_⟩
  simp only [nodeInfo, List.map_map, List.mem_map]
  exact ⟨_, ha, by simp only [Function.comp, argVal, hrets]⟩

/-- an argument of an emitted call is wired by an edge of the graph, and is an allocated parameter -/
theorem edge_of_read (h : plan provs ret = .ok p) {t m v : Nat} {args : List Nat}
    (hen : T1.Op.enter m args ∈ T1.thread (emitted p) t) (hv : v ∈ args) :
    v < p.b.params.length ∧ ∃ n e, (n, e) ∈ wiredTo p v ∧ e.dst = m := by
  obtain ⟨_, hb, _⟩ := plan_ok h
  obtain ⟨_, _, hrets, _⟩ := build2_shape hb
  obtain ⟨i, hil, hget⟩ := List.getElem_of_mem hv
  obtain ⟨_, _, hw⟩ := enter_args_wired h hen
  obtain ⟨n, e, hno, _, he, hed, _, hsrc⟩ := hw i v (by rw [List.getElem?_eq_getElem hil, hget])
  have hmem : v ∈ p.b.nodeRets.getD n [] := List.mem_of_getElem? hsrc
  refine ⟨?_, n, e, mem_wiredTo hno he ?_, hed⟩
  · rw [plan_params_length h]
    exact (plan_p1inv h).retsLt n v (by rw [← hrets]; exact hmem)
  · have hl : e.src < (p.b.nodeRets.getD n []).length := by
      apply Classical.byContradiction; intro hc
      rw [List.getElem?_eq_none (Nat.le_of_not_lt hc)] at hsrc; cases hsrc
    rw [getD_eq_getElem' _ _ _ hl]
    rw [List.getElem?_eq_getElem hl] at hsrc
    exact Option.some.inj hsrc

theorem retParam_lt (h : plan provs ret = .ok p) : p.b.retParam < p.b.params.length := by
  obtain ⟨_, hb, _⟩ := plan_ok h
  obtain ⟨_, _, hrets, _⟩ := build2_shape hb
  obtain ⟨_, _, hr⟩ := ret_var_wired h
  rw [plan_params_length h]
  exact (plan_p1inv h).retsLt p.g.retNode _ (by rw [← hrets]; exact List.mem_of_getElem? hr)

theorem ret_mem_emitted (p : PlanOut) (v : Nat) :
    T1.Op.ret v ∈ T1.thread (emitted p) 0 ↔ v = p.b.retParam := by
  rw [emitted_eq, T1.thread_emit_zero]
  simp only [T1.mainThread, T1.spawns, T1.tailOps, List.mem_append, List.mem_map, List.mem_flatMap,
    List.mem_singleton]
  constructor
  · rintro (⟨g, _, hg⟩ | ⟨nd, _, hb⟩ | hh | hh)
    · cases hg
    · simp only [T1.block, T1.waitsOf, T1.closesOf, T1.enterOf, T1.exitOf, List.mem_append, List.mem_map,
        List.mem_filter, List.mem_cons, List.mem_nil_iff, or_false] at hb
      rcases hb with ⟨a, _, hh⟩ | (hh | hh) | ⟨r, _, hh⟩ <;> cases hh
    · split at hh
      · simp at hh
      · simp at hh
    · cases hh; rfl
  · rintro rfl
    exact Or.inr (Or.inr (Or.inr rfl))

/-- **Declared ⇒ used, and `_` ⇒ unused.**  A parameter has `refs ≠ 0` iff some emitted call takes it as an
    argument or it is the returned parameter (`ret v` of the main thread). -/
theorem refs_ne_zero_iff (h : plan provs ret = .ok p) (v : Nat) :
    (p.b.params.getD v default).refs ≠ 0 ↔
      ((∃ t o args, T1.Op.enter o args ∈ T1.thread (emitted p) t ∧ v ∈ args) ∨
        T1.Op.ret v ∈ T1.thread (emitted p) 0) := by
  rw [ret_mem_emitted]
  constructor
  · intro hne
    have hv : v < p.b.params.length := by
      apply Classical.byContradiction; intro hc
      apply hne
      simp only [List.getD_eq_getElem?_getD, List.getElem?_eq_none (Nat.le_of_not_lt hc)]
      rfl
    rw [refs_eq_count h hv] at hne
    by_cases hr : v = p.b.retParam
    · exact Or.inr hr
    · left
      rw [if_neg hr] at hne
      cases hw : wiredTo p v with
      | nil => rw [hw] at hne; exact absurd rfl hne
      | cons x xs =>
        have hx : x ∈ wiredTo p v := by rw [hw]; exact List.mem_cons_self ..
        obtain ⟨hn, he, hxv⟩ := of_mem_wiredTo hx
        obtain ⟨t, args, hen, hmem⟩ := read_of_edge h hn he
        exact ⟨t, _, args, hen, hxv ▸ hmem⟩
  · rintro (⟨t, o, args, hen, hv⟩ | hr)
    · obtain ⟨hlt, n, e, hx, _⟩ := edge_of_read h hen hv
      rw [refs_eq_count h hlt]
      have : 0 < (wiredTo p v).length := List.length_pos_of_mem hx
      omega
    · rw [refs_eq_count h (hr ▸ retParam_lt h), if_pos hr]
      omega

/-- **every argument of an emitted call is a declared thing**: an allocated parameter with `refs ≠ 0` -/
theorem call_args_declared (h : plan provs ret = .ok p) {t o v : Nat} {args : List Nat}
    (hen : T1.Op.enter o args ∈ T1.thread (emitted p) t) (hv : v ∈ args) :
    v < p.b.params.length ∧ (p.b.params.getD v default).refs ≠ 0 :=
  ⟨(edge_of_read h hen hv).1, (refs_ne_zero_iff h v).mpr (Or.inl ⟨t, o, args, hen, hv⟩)⟩

/-! ### channels -/

theorem wait_mem_emitted {t o c : Nat} (hw : T1.Op.wait o c ∈ T1.thread (emitted p) t) :
    nodeInfo p.b o ∈ tnodes p t ∧ (c, true) ∈ (nodeInfo p.b o).args := by
  rw [emitted_eq] at hw
  rcases T1.mem_thread_emit hw with ⟨nd, hnd, hop⟩ | ⟨_, hh | hh⟩
  · obtain ⟨m, rfl, _⟩ := threadNodes_mem hnd
    simp only [T1.block, T1.waitsOf, T1.closesOf, T1.enterOf, T1.exitOf, List.mem_append, List.mem_map,
      List.mem_filter, List.mem_cons, List.mem_nil_iff, or_false] at hop
    rcases hop with ⟨a, ⟨ha, ha2⟩, heq⟩ | (hh | hh) | ⟨r, _, hh⟩
    · cases heq
      have : a = (a.1, true) := by cases a; simp_all
      exact ⟨hnd, this ▸ ha⟩
    · cases hh
    · cases hh
    · cases hh
  · simp only [T1.spawns, List.mem_map] at hh
    obtain ⟨g, _, hg⟩ := hh; cases hg
  · simp only [T1.tailOps, List.mem_append, List.mem_singleton] at hh
    rcases hh with hh | hh
    · split at hh <;> simp at hh
    · cases hh

theorem close_mem_emitted {t o c : Nat} (hc : T1.Op.close o c ∈ T1.thread (emitted p) t) :
    nodeInfo p.b o ∈ tnodes p t ∧ (c, true) ∈ (nodeInfo p.b o).rets := by
  rw [emitted_eq] at hc
  obtain ⟨nd, hnd, hb⟩ := T1.block_of_mem hc (Or.inr (Or.inr ⟨o, c, rfl⟩))
  obtain ⟨hid, hr⟩ := T1.close_mem_block hb
  obtain ⟨m, rfl, _⟩ := threadNodes_mem hnd
  have : o = m := hid
  subst this
  exact ⟨hnd, hr⟩

theorem withChan_of_wait {t o c : Nat} (hw : T1.Op.wait o c ∈ T1.thread (emitted p) t) :
    (p.b.params.getD c default).withChan = true := by
  obtain ⟨_, ha⟩ := wait_mem_emitted hw
  simp only [nodeInfo, List.mem_map] at ha
  obtain ⟨a, _, hav⟩ := ha
  have h1 : a.param = c := (Prod.mk.inj hav).1
  have h2 : (a.isWait && (p.b.params.getD a.param default).withChan) = true := (Prod.mk.inj hav).2
  rw [h1] at h2
  simp only [Bool.and_eq_true] at h2
  exact h2.2

theorem withChan_of_close {t o c : Nat} (hc : T1.Op.close o c ∈ T1.thread (emitted p) t) :
    (p.b.params.getD c default).withChan = true := by
  obtain ⟨_, hr⟩ := close_mem_emitted hc
  simp only [nodeInfo, List.mem_map] at hr
  obtain ⟨r, _, hrv⟩ := hr
  have h1 : r = c := (Prod.mk.inj hrv).1
  have h2 : (p.b.params.getD r default).withChan = true := (Prod.mk.inj hrv).2
  rw [h1] at h2; exact h2

/-- a parameter with a channel has a waiting consumer edge: producer `n`, consumer `e.dst` in another pool -/
theorem chan_edge (h : plan provs ret = .ok p) {c : Nat} (hc : (p.b.params.getD c default).withChan = true) :
    ∃ n e, (n, e) ∈ wiredTo p c ∧ shouldWaitB (st1Of p.g) n e.dst = true := by
  obtain ⟨_, hb, _⟩ := plan_ok h
  obtain ⟨hpar, _, hrets, _⟩ := build2_shape hb
  have hcnt := bpass2_cnt p.g (topoOrder p.g) (st1Of p.g) (params0Of p.g)
  rw [hpar] at hc
  rcases hcnt.chanOnly c hc with h0 | ⟨x, hx, hxc, hsw⟩
  · rw [params0Of_noChan p.g (plan_p1inv h).noChan c] at h0; cases h0
  · refine ⟨x.1, x.2, ?_, hsw⟩
    simp only [wiredTo, List.mem_filter]
    refine ⟨hx, ?_⟩
    rw [hrets]
    simpa [argVal] using hxc

/-- **a declared channel is received from**: `withChan c` ⇔ some emitted `wait _ c` exists -/
theorem withChan_iff_wait (h : plan provs ret = .ok p) (c : Nat) :
    (p.b.params.getD c default).withChan = true ↔ ∃ t o, T1.Op.wait o c ∈ T1.thread (emitted p) t := by
  constructor
  · intro hc
    obtain ⟨n, e, hx, hsw⟩ := chan_edge h hc
    obtain ⟨hn, he, hxv⟩ := of_mem_wiredTo hx
    obtain ⟨_, hb, _⟩ := plan_ok h
    obtain ⟨_, _, hrets, _⟩ := build2_shape hb
    obtain ⟨t, ht, ha⟩ := consumer_emitted h hn he
    refine ⟨t, e.dst, ?_⟩
    rw [emitted_eq]
    refine T1.block_mem_thread ht (T1.wait_in_block ?_)
    simp only [nodeInfo, List.mem_map]
    refine ⟨_, ha, ?_⟩
    have hp : (argVal (st1Of p.g) n e).param = c := by simp only [argVal, ← hrets]; exact hxv
    have hw : (argVal (st1Of p.g) n e).isWait = true := hsw
    rw [hp, hw, hc]; rfl
  · rintro ⟨t, o, hw⟩
    exact withChan_of_wait hw

/-- **a declared channel is closed**: `withChan c` ⇔ some emitted `close _ c` exists (by `C03_close_once` only one) -/
theorem withChan_iff_close (h : plan provs ret = .ok p) (c : Nat) :
    (p.b.params.getD c default).withChan = true ↔ ∃ t o, T1.Op.close o c ∈ T1.thread (emitted p) t := by
  constructor
  · intro hc
    obtain ⟨t, o, hw⟩ := (withChan_iff_wait h c).mp hc
    obtain ⟨t', o', hcl, _⟩ := (plan_wf h).1.waitClose t o c hw
    exact ⟨t', o', hcl⟩
  · rintro ⟨t, o, hcl⟩
    exact withChan_of_close hcl

/-! ### who waits, who closes: different threads -/

/-- the slot `e.slot` of the consumer of an edge holds exactly the wired entry -/
theorem slot_value (h : plan provs ret = .ok p) {n : Nat} {e : Edge}
    (hn : n ∈ topoOrder p.g) (he : e ∈ p.g.edges.getD n []) :
    e.slot < (p.b.nodeArgs.getD e.dst []).length ∧
    (p.b.nodeArgs.getD e.dst []).getD e.slot dfltArg = argVal (st1Of p.g) n e := by
  have hok := plan_planOK h
  obtain ⟨_, hb, _⟩ := plan_ok h
  obtain ⟨_, hna, _, _, _, _⟩ := build2_shape hb
  have h2 := bpass2_inv p.g (topoOrder p.g) (st1Of p.g) (params0Of p.g)
  have hml : e.dst < p.g.nodes.length := hok.gwf.dstLt n e he
  have hslot : e.slot < nodeSlots p.g e.dst := by
    rw [hok.gwf.slotsEq _ hml]; exact hok.gwf.slotLt n e he
  have hpair : (n, e) ∈ edgePairs p.g (topoOrder p.g) := by
    simp only [edgePairs, List.mem_flatMap, List.mem_map]
    exact ⟨n, hn, e, he, rfl⟩
  obtain ⟨y, hy, hyd, hys, hval⟩ := h2.written (n, e) hpair hml hslot
  simp only [edgePairs, List.mem_flatMap, List.mem_map] at hy
  obtain ⟨n', _, e', he', rfl⟩ := hy
  obtain ⟨hnn, hee⟩ := hok.gwf.edgeUnique n n' e e' he he' hyd.symm hys.symm
  subst hnn; subst hee
  simp only at hval
  rw [hna]
  refine ⟨?_, hval⟩
  rw [show (st2Of p.g).nodeArgs = (bpass2 p.g (topoOrder p.g) (st1Of p.g) (params0Of p.g)).nodeArgs from rfl,
    h2.slotLen _ hml]
  exact hslot

/-- every entry of the argument table of an emitted node is the wired entry of an edge from an earlier node -/
theorem entry_edge (h : plan provs ret = .ok p) {m : Nat} (hm : m ∈ p.parent ∨ ∃ c ∈ p.chains, m ∈ c)
    {a : CallArg} (ha : a ∈ p.b.nodeArgs.getD m []) :
    ∃ n e, n ∈ topoOrder p.g ∧ e ∈ p.g.edges.getD n [] ∧ e.dst = m ∧ a = argVal (st1Of p.g) n e ∧
      a.param ∈ p.b.nodeRets.getD n [] := by
  have hok := plan_planOK h
  obtain ⟨_, hb, _⟩ := plan_ok h
  obtain ⟨_, hna, hrets, _, hpools, _⟩ := build2_shape hb
  have h1 := plan_p1inv h
  have h2 := bpass2_inv p.g (topoOrder p.g) (st1Of p.g) (params0Of p.g)
  obtain ⟨q, hq⟩ := thread_node_in_pool hok hm
  have hmo : m ∈ topoOrder p.g := (h1.sub q).subset (by rw [← hpools]; exact hq)
  have hml := hok.order_lt m hmo
  obtain ⟨i, hil, hget⟩ := List.getElem_of_mem ha
  have hslots : (p.b.nodeArgs.getD m []).length = nodeSlots p.g m := by
    rw [hna]; exact h2.slotLen m hml
  have hirev : i < (p.g.rev.getD m []).length := by
    rw [← hok.gwf.slotsEq m hml, ← hslots]; exact hil
  obtain ⟨pre, post, hsplit⟩ := List.append_of_mem hmo
  obtain ⟨n, hnpre, e, he, hed, hes⟩ := hok.order_sound pre m post hsplit i hirev
  have hno : n ∈ topoOrder p.g := by rw [hsplit]; exact List.mem_append_left _ hnpre
  obtain ⟨_, hval⟩ := slot_value h hno he
  rw [hed, hes, getD_eq_getElem' _ _ _ hil, hget] at hval
  refine ⟨n, e, hno, he, hed, hval, ?_⟩
  have hnl := hok.order_lt n hno
  have hsrc := hok.gwf.srcLt n e he hnl
  have hlen := h1.retsLen n hno
  rw [← hrets] at hlen
  have hsrc' : e.src < (p.b.nodeRets.getD n []).length := by rw [hlen]; exact hsrc
  rw [hval]
  simp only [argVal, ← hrets]
  rw [getD_eq_getElem' _ _ _ hsrc']
  exact List.getElem_mem hsrc'

theorem tnodes_idx {pi : Nat} {cis : List Nat} (hpar : p.parent = p.b.pools.getD pi [])
    (hch : p.chains = cis.map (p.b.pools.getD · [])) (t : Nat) :
    tnodes p t = T1.threadNodes ((p.b.pools.getD pi []).map (nodeInfo p.b))
      ((cis.map (p.b.pools.getD · [])).map (·.map (nodeInfo p.b))) t := by
  show T1.threadNodes _ _ _ = _
  rw [hpar, hch]

/-- **a channel is waited on only from another thread than the one closing it**: `withChan` means
    "some consumer *in another thread* waits". -/
theorem wait_other_thread (h : plan provs ret = .ok p) {t t' o o' c : Nat}
    (hw : T1.Op.wait o c ∈ T1.thread (emitted p) t) (hc : T1.Op.close o' c ∈ T1.thread (emitted p) t') :
    t ≠ t' := by
  have hok := plan_planOK h
  obtain ⟨_, hb, _⟩ := plan_ok h
  obtain ⟨_, _, hrets, _, hpools, _⟩ := build2_shape hb
  have h1 := plan_p1inv h
  obtain ⟨hndw, haw⟩ := wait_mem_emitted hw
  obtain ⟨hndc, hrc⟩ := close_mem_emitted hc
  obtain ⟨pi, cis, hpar, hch, _⟩ := hok.stmts.idx
  rw [tnodes_idx hpar hch] at hndw hndc
  obtain ⟨m, qm, hmeq, hqm, hmq⟩ := thread_pool hndw
  obtain ⟨n', qn, hneq, hqn, hnq⟩ := thread_pool hndc
  have hom : o = m := congrArg T1.NodeInfo.id hmeq
  have hon : o' = n' := congrArg T1.NodeInfo.id hneq
  subst hom; subst hon
  -- the waited entry
  simp only [nodeInfo, List.mem_map] at haw
  obtain ⟨a, ha, hav⟩ := haw
  have hac : a.param = c := (Prod.mk.inj hav).1
  have haw2 : (a.isWait && (p.b.params.getD a.param default).withChan) = true := (Prod.mk.inj hav).2
  simp only [Bool.and_eq_true] at haw2
  have hm : o ∈ p.parent ∨ ∃ c ∈ p.chains, o ∈ c := (threadNodes_mem (by
    rw [← tnodes_idx hpar hch] at hndw; exact hndw)).elim (fun k hk => by
      have : o = k := congrArg T1.NodeInfo.id hk.1
      rw [this]; exact hk.2)
  obtain ⟨n, e, hno, he, hed, hae, hcn⟩ := entry_edge h hm ha
  -- the closing node is the producer `n`
  simp only [nodeInfo, List.mem_map] at hrc
  obtain ⟨r, hr, hrv⟩ := hrc
  have hrc' : r = c := (Prod.mk.inj hrv).1
  rw [hrc'] at hr
  rw [hac] at hcn
  have o1 := h1.retsOwner n c (by rw [← hrets]; exact hcn)
  have o2 := h1.retsOwner o' c (by rw [← hrets]; exact hr)
  have hnn : n = o' := o1.symm.trans o2
  subst hnn
  -- pools
  have hpn : (st1Of p.g).nodePool.getD n none = some qn := h1.poolOf qn n (by rw [← hpools]; exact hnq)
  have hpm : (st1Of p.g).nodePool.getD o none = some qm := h1.poolOf qm o (by rw [← hpools]; exact hmq)
  have hsw : shouldWaitB (st1Of p.g) n o = true := by
    have : a.isWait = shouldWaitB (st1Of p.g) n o := by rw [hae]; simp only [argVal, hed]
    rw [← this]; exact haw2.1
  intro htt
  subst htt
  have hqq : qm = qn := Option.some.inj (hqm.symm.trans hqn)
  subst hqq
  unfold shouldWaitB at hsw
  rw [hpn, hpm] at hsw
  simp at hsw

/-! ### injector arguments -/

/-- first pass: `args` lists exactly the indices of the argument parameters -/
def P1Args (st : P1St) : Prop :=
  ∀ v, v ∈ st.args ↔ (v < st.params.length ∧ (st.params.getD v default).isArg = true)

theorem getD_snoc_isArg (ps qs : List Param) (hq : ∀ q ∈ qs, q.isArg = false) (v : Nat) (hv : ¬ v < ps.length) :
    ((ps ++ qs).getD v default).isArg = false := by
  simp only [List.getD_eq_getElem?_getD, List.getElem?_append_right (Nat.le_of_not_lt hv)]
  cases hq' : qs[v - ps.length]? with
  | none => rfl
  | some q => exact hq q (List.mem_of_getElem? hq')

theorem p1Step_args {g : Graph} {st : P1St} (n : Nat) (h : P1Args st) : P1Args (p1Step g st n) := by
  unfold p1Step
  by_cases ha : (g.nodes.getD n default).isArg = true
  · simp only [ha, ↓reduceIte]
    intro v
    show v ∈ st.args ++ [st.params.length] ↔
      (v < (st.params ++ [({ node := n, group := 0, isArg := true } : Param)]).length ∧
        ((st.params ++ [({ node := n, group := 0, isArg := true } : Param)]).getD v default).isArg = true)
    rw [List.mem_append, List.length_append, List.mem_singleton, List.length_singleton]
    by_cases hv : v < st.params.length
    · rw [getD_append_left _ _ _ _ hv, h v]
      constructor
      · rintro (⟨_, h2⟩ | h2)
        · exact ⟨by omega, h2⟩
        · omega
      · rintro ⟨_, h2⟩; exact Or.inl ⟨hv, h2⟩
    · by_cases hve : v = st.params.length
      · subst hve
        constructor
        · intro _
          refine ⟨by omega, ?_⟩
          simp only [List.getD_eq_getElem?_getD, List.getElem?_append_right (Nat.le_refl _), Nat.sub_self,
            List.getElem?_cons_zero, Option.getD_some]
        · intro _; exact Or.inr rfl
      · constructor
        · rintro (h2 | h2)
          · exact absurd ((h v).mp h2).1 hv
          · exact absurd h2 hve
        · rintro ⟨h2, _⟩; omega
  · simp only [ha, Bool.false_eq_true, ↓reduceIte]
    intro v
    show v ∈ st.args ↔ _
    by_cases hv : v < st.params.length
    · rw [h v]
      show _ ↔ (v < (st.params ++ _).length ∧ ((st.params ++ _).getD v default).isArg = true)
      rw [getD_append_left _ _ _ _ hv, List.length_append]
      constructor
      · rintro ⟨_, h2⟩; exact ⟨by omega, h2⟩
      · rintro ⟨_, h2⟩; exact ⟨hv, h2⟩
    · constructor
      · intro h2; exact absurd ((h v).mp h2).1 hv
      · rintro ⟨_, h2⟩
        exfalso
        have hq0 : ∀ q ∈ (List.range (g.provs.getD (g.nodes.getD n default).prov default).provides.length).map
            (fun gi => ({ node := n, group := gi, isArg := false } : Param)), q.isArg = false := by
          intro q hq
          simp only [List.mem_map] at hq
          obtain ⟨gi, _, rfl⟩ := hq
          rfl
        exact Bool.noConfusion ((getD_snoc_isArg st.params _ hq0 v hv).symm.trans h2)

theorem bpass1_args (g : Graph) (order : List Nat) (k : Nat) : P1Args (bpass1 g order k) := by
  unfold bpass1
  have hI : P1Args (p1Init g k) := by
    intro v; simp [p1Init]
  generalize p1Init g k = st at hI
  induction order generalizing st with
  | nil => exact hI
  | cons x xs ih => exact ih _ (p1Step_args x hI)

theorem build2_args {g : Graph} {b : BuildOut} (hb : build2 g = .ok b) : b.args = (st1Of g).args := by
  simp only [build2] at hb
  split at hb
  · cases hb; rfl
  · cases hb

theorem plan_isArg (h : plan provs ret = .ok p) (v : Nat) :
    (p.b.params.getD v default).isArg = ((st1Of p.g).params.getD v default).isArg := by
  obtain ⟨_, hb, _⟩ := plan_ok h
  obtain ⟨hpar, _⟩ := build2_shape hb
  have h2 := bpass2_inv p.g (topoOrder p.g) (st1Of p.g) (params0Of p.g)
  rw [hpar]
  have := h2.pisArg v
  rw [show (st2Of p.g).params = (bpass2 p.g (topoOrder p.g) (st1Of p.g) (params0Of p.g)).params from rfl, this]
  unfold params0Of
  exact (getD_listModify_fields _ _ v).1

/-- **the parameters flagged `isArg` are exactly the arguments of the injector's signature** (`b.args`) -/
theorem isArg_iff_mem_args (h : plan provs ret = .ok p) (v : Nat) :
    v ∈ p.b.args ↔ (v < p.b.params.length ∧ (p.b.params.getD v default).isArg = true) := by
  obtain ⟨_, hb, _⟩ := plan_ok h
  rw [build2_args hb, plan_isArg h, plan_params_length h]
  exact bpass1_args _ _ _ v

/-- an emitted `exit` belongs to a node of a pool -/
theorem exit_mem_emitted {t n : Nat} {rets : List Nat} (hex : T1.Op.exit n rets ∈ T1.thread (emitted p) t) :
    n ∈ p.parent ∨ ∃ c ∈ p.chains, n ∈ c := by
  rw [emitted_eq] at hex
  obtain ⟨nd, hnd, hb⟩ := T1.block_of_mem hex (Or.inr (Or.inl ⟨n, rets, rfl⟩))
  obtain ⟨hid, _⟩ := T1.exit_mem_block hb
  obtain ⟨m, rfl, hm⟩ := threadNodes_mem hnd
  have hnm : n = m := hid
  subst hnm
  exact hm

/-- **injector arguments are plain**: no completion channel, never written by an emitted op, nobody waits on
    or closes a channel of theirs -/
theorem arg_plain (h : plan provs ret = .ok p) {v : Nat} (hv : (p.b.params.getD v default).isArg = true) :
    (p.b.params.getD v default).withChan = false ∧
    (∀ t o rets, T1.Op.exit o rets ∈ T1.thread (emitted p) t → v ∉ rets) ∧
    (∀ t o, T1.Op.wait o v ∉ T1.thread (emitted p) t) ∧
    (∀ t o, T1.Op.close o v ∉ T1.thread (emitted p) t) := by
  have hok := plan_planOK h
  have hnc := hok.argNoChan v hv
  refine ⟨hnc, ?_, ?_, ?_⟩
  · intro t o rets hex hmem
    obtain ⟨_, hb, _⟩ := plan_ok h
    obtain ⟨_, _, hrets, _⟩ := build2_shape hb
    have h1 := plan_p1inv h
    rw [exit_rets hex] at hmem
    obtain ⟨q, hq⟩ := thread_node_in_pool hok (exit_mem_emitted hex)
    obtain ⟨_, hna⟩ := pool_node_provider hok hq
    have := h1.retsArg o v (by rw [← hrets]; exact hmem)
    rw [← plan_isArg h, hv] at this
    have hna' : isArgNode p.g o = false := hna
    rw [hna'] at this; cases this
  · intro t o hw
    rw [withChan_of_wait hw] at hnc; cases hnc
  · intro t o hc
    rw [withChan_of_close hc] at hnc; cases hnc

/-! ### no call discards all of its results -/

/-- **every emitted call assigns at least one declared variable**: among the results of an emitted `exit` one has
    `refs ≠ 0` (Go rejects `_, _ := f()` — "no new variables on left side of :=") -/
theorem exit_some_used (h : plan provs ret = .ok p) {t o : Nat} {rets : List Nat}
    (hex : T1.Op.exit o rets ∈ T1.thread (emitted p) t) :
    ∃ v ∈ rets, (p.b.params.getD v default).refs ≠ 0 := by
  have hok := plan_planOK h
  obtain ⟨hg, hb, _⟩ := plan_ok h
  obtain ⟨_, _, hrets, _⟩ := build2_shape hb
  have h1 := plan_p1inv h
  obtain ⟨hret0, hout⟩ := newGraph2_outBack hg
  rw [exit_rets hex]
  obtain ⟨q, hq⟩ := thread_node_in_pool hok (exit_mem_emitted hex)
  obtain ⟨hol, _⟩ := pool_node_provider hok hq
  by_cases ho : o = 0
  · subst ho
    obtain ⟨_, _, hr⟩ := ret_var_wired h
    rw [hret0] at hr
    refine ⟨p.b.retParam, List.mem_of_getElem? hr, ?_⟩
    exact (refs_ne_zero_iff h _).mpr (Or.inr ((ret_mem_emitted p _).mpr rfl))
  · obtain ⟨e, he, _⟩ := hout o (by omega) hol
    have hoo := accepted_all_in_order h o hol
    obtain ⟨t', args, hen, hmem⟩ := read_of_edge h hoo he
    have hsrc := hok.gwf.srcLt o e he hol
    have hlen := h1.retsLen o hoo
    rw [← hrets] at hlen
    have hsrc' : e.src < (p.b.nodeRets.getD o []).length := by rw [hlen]; exact hsrc
    refine ⟨(p.b.nodeRets.getD o []).getD e.src 0, ?_, ?_⟩
    · rw [getD_eq_getElem' _ _ _ hsrc']; exact List.getElem_mem hsrc'
    · exact (refs_ne_zero_iff h _).mpr (Or.inl ⟨t', _, args, hen, hmem⟩)

end

/-! ## concrete instances (kernel-evaluated) -/

/-- `(isArg, refs, withChan)` of every parameter of the plan of a declaration -/
def paramFlags (provs0 : List PSpec) (ret : Nat) : Option (List (Bool × Nat × Bool)) :=
  match plan provs0 ret with
  | .ok p => some (p.b.params.map (fun q => (q.isArg, q.refs, q.withChan)))
  | .error _ => none

/-- a provider with two result groups of which only the first is requested: the second result has `refs = 0`
    (it is written `_` and not declared) -/
def twoResults : List PSpec := [ { provides := [[1], [2]], requires := [7] } ]

example : paramFlags twoResults 1 = some [(true, 1, false), (false, 1, false), (false, 0, false)] := by decide

/-- `diamondA` (KV/Calls.lean, two threads): two results are consumed in another thread and get a channel (one of
    them has two readers, `refs = 2`); the injector argument (type 9) and the results read in their own thread do not -/
example : paramFlags diamondA 1 =
    some [(true, 1, false), (false, 2, true), (false, 1, true), (false, 1, false), (false, 1, false)] := by decide

end KV
#print axioms KV.refs_eq_count
#print axioms KV.refs_ne_zero_iff
#print axioms KV.call_args_declared
#print axioms KV.withChan_iff_wait
#print axioms KV.withChan_iff_close
#print axioms KV.wait_other_thread
#print axioms KV.isArg_iff_mem_args
#print axioms KV.arg_plain
#print axioms KV.exit_some_used
