import KV.Fop
import KV.Pass1
/-! Prototype (scratch): `sync-follows-deps` for single-dependency synchronous nodes (field-access nodes):
    such a node is placed in the pool that holds its dependency, so the field read needs no wait. -/
namespace KV

/-- candidates of the first loop when exactly the pool `q` provides the single dependency -/
theorem fopCands_single (d : Nat) (pools pp : List (List Nat)) (q : Nat) (hq : q < pools.length)
    (hqne : (pools.getD q []).isEmpty = false)
    (hin : (pp.getD q []).contains d = true)
    (hout : ∀ i, i < pools.length → i ≠ q → (pp.getD i []).contains d = false) :
    fopCands [d] false pools pp = (1, [q]) := by
  unfold fopCands
  -- process indices < q (count stays 0, candidates may accumulate), then q (reset to [q]), then > q (no change)
  have hstep_other : ∀ i acc, i < pools.length → i ≠ q → acc.1 = 1 → fopStep [d] false pools pp acc i = acc := by
    intro i acc hi hne h1
    simp only [fopStep, Bool.not_false, Bool.true_and]
    have hc : (List.filter (fun x => (pp.getD i []).contains x) [d]).length = 0 := by
      simp only [List.filter]
      rw [hout i hi hne]; rfl
    split
    · rfl
    · rw [hc, h1]; simp
  have hstep_before : ∀ i acc, i < pools.length → i ≠ q → acc.1 = 0 →
      (fopStep [d] false pools pp acc i).1 = 0 := by
    intro i acc hi hne h0
    simp only [fopStep, Bool.not_false, Bool.true_and]
    have hc : (List.filter (fun x => (pp.getD i []).contains x) [d]).length = 0 := by
      simp only [List.filter]
      rw [hout i hi hne]; rfl
    split
    · exact h0
    · rw [hc, h0]; simp
  have hstep_q : ∀ acc, acc.1 = 0 → fopStep [d] false pools pp acc q = (1, [q]) := by
    intro acc h0
    simp only [fopStep, Bool.not_false, Bool.true_and, hqne, Bool.false_eq_true, ↓reduceIte]
    have hc : (List.filter (fun x => (pp.getD q []).contains x) [d]).length = 1 := by
      simp only [List.filter]
      rw [hin]; rfl
    rw [hc, h0]; simp
  -- split the range at q
  have hrange : List.range pools.length = List.range q ++ q :: (List.range' (q + 1) (pools.length - (q + 1))) := by
    have : pools.length = q + (1 + (pools.length - (q + 1))) := by omega
    rw [List.range_eq_range', List.range_eq_range']
    conv => lhs; rw [this]
    rw [← List.range'_append_1, ← List.range'_append_1]
    simp [List.range']
  rw [hrange, List.foldl_append, List.foldl_cons]
  have hpre : ∀ (l : List Nat) acc, (∀ i ∈ l, i < pools.length ∧ i ≠ q) → acc.1 = 0 →
      (l.foldl (fopStep [d] false pools pp) acc).1 = 0 := by
    intro l
    induction l with
    | nil => intro acc _ h; exact h
    | cons x xs ih =>
      intro acc hl h
      simp only [List.foldl_cons]
      exact ih _ (fun i hi => hl i (List.mem_cons_of_mem _ hi))
        (hstep_before x acc (hl x (List.mem_cons_self ..)).1 (hl x (List.mem_cons_self ..)).2 h)
  have hpost : ∀ (l : List Nat) acc, (∀ i ∈ l, i < pools.length ∧ i ≠ q) → acc.1 = 1 →
      l.foldl (fopStep [d] false pools pp) acc = acc := by
    intro l
    induction l with
    | nil => intro acc _ _; rfl
    | cons x xs ih =>
      intro acc hl h
      simp only [List.foldl_cons]
      rw [hstep_other x acc (hl x (List.mem_cons_self ..)).1 (hl x (List.mem_cons_self ..)).2 h]
      exact ih acc (fun i hi => hl i (List.mem_cons_of_mem _ hi)) h
  have h0 := hpre (List.range q) (0, []) (fun i hi => by simp at hi; omega) rfl
  rw [hstep_q _ h0]
  apply hpost
  · intro i hi
    simp [List.mem_range'] at hi
    omega
  · rfl

/-- a synchronous node whose single dependency sits in pool `q` (and only there) is placed in pool `q` -/
theorem findOptimalPool2_single_dep (g : Graph) (n d : Nat) (pools pp : List (List Nat)) (q : Nat)
    (hs : isAsyncNode g n = false) (hrev : g.rev.getD n [] = [d]) (hq : q < pools.length)
    (hqne : (pools.getD q []).isEmpty = false)
    (hin : (pp.getD q []).contains d = true)
    (hout : ∀ i, i < pools.length → i ≠ q → (pp.getD i []).contains d = false) :
    findOptimalPool2 g n pools pp = q := by
  simp only [findOptimalPool2, hrev, hs, fopCands_single d pools pp q hq hqne hin hout]
  simp [fopLoop]

end KV
