/-! Prototype transcription of internal/kessoku/graph.go (scratch). Definitions only. -/
namespace KV

structure PSpec where
  kind : Nat := 0            -- 0 function, 1 struct, 2 fieldAccess
  requires : List Nat := []
  provides : List (List Nat) := []
  isAsync : Bool := false
  isErr : Bool := false
  structTy : Nat := 0
  fields : List (String × Nat) := []
  fieldName : String := ""
  decl : Nat := 0
deriving Repr, Inhabited

inductive PlanErr where
  | dup (ty : Nat) | orphan (ty : Nat) | cycle | noInitial | noReturn | invalid
deriving Repr, DecidableEq

abbrev SupMap := List (Nat × (Nat × Nat))     -- type key ↦ (provider index, result group)

/-! ## NewGraph, pass 1 and 2 -/

def pass1Types (pi gi : Nat) : List Nat → SupMap → Except PlanErr SupMap
  | [], m => pure m
  | t :: ts, m =>
    match m.lookup t with
    | some (p, _) => if p ≠ pi then throw (.dup t) else pass1Types pi gi ts m
    | none => pass1Types pi gi ts (m ++ [(t, (pi, gi))])

def pass1Groups (pi : Nat) : Nat → List (List Nat) → SupMap → Except PlanErr SupMap
  | _, [], m => pure m
  | gi, g :: gs, m => do
    let m' ← pass1Types pi gi g m
    pass1Groups pi (gi + 1) gs m'

def pass1 : Nat → List PSpec → SupMap → Except PlanErr SupMap
  | _, [], m => pure m
  | pi, p :: ps, m =>
    if p.kind == 1 then pass1 (pi + 1) ps m
    else do
      let m' ← pass1Groups pi 0 p.provides m
      pass1 (pi + 1) ps m'

/-- expand the fields of one struct provider; `next` is the index the next synthetic provider gets -/
def expandFields (sty decl : Nat) : List (String × Nat) → List PSpec → SupMap → Except PlanErr (List PSpec × SupMap)
  | [], provs, m => pure (provs, m)
  | (fname, fty) :: fs, provs, m =>
    match m.lookup fty with
    | some _ => throw (.dup fty)
    | none =>
      let fp : PSpec := { kind := 2, requires := [sty], provides := [[fty]], structTy := sty,
                          fieldName := fname, decl := decl }
      expandFields sty decl fs (provs ++ [fp]) (m ++ [(fty, (provs.length, 0))])

/-- struct expansion as it was before the repair of the order defect (`Struct` providers strictly in declaration
    order, `orphan` as soon as one has no supplier yet).  No longer used by `newGraph`; kept as a reference:
    `pass2_old_ok` (`KV/StructRounds.lean`) says the repaired `pass2` returns the same result whenever this one
    accepts, and every run of `pass2` is a run of this function on a reordering (`pass2_cases`). -/
def pass2Ordered : List PSpec → List PSpec → SupMap → Except PlanErr (List PSpec × SupMap)
  | [], provs, m => pure (provs, m)
  | sp :: sps, provs, m =>
    match m.lookup sp.structTy with
    | none => throw (.orphan sp.structTy)
    | some _ => do
      let (provs', m') ← expandFields sp.structTy sp.decl sp.fields provs m
      pass2Ordered sps provs' m'

/-- one round over the pending struct providers, in order: a provider whose struct type has a supplier *now*
    (possibly a field expanded earlier in this very round) is expanded, the others are deferred.
    Result: provider list, supplier map, deferred providers (in pending order). -/
def pass2Round : List PSpec → List PSpec → SupMap → Except PlanErr (List PSpec × SupMap × List PSpec)
  | [], provs, m => .ok (provs, m, [])
  | sp :: sps, provs, m =>
    match m.lookup sp.structTy with
    | none =>
      match pass2Round sps provs m with
      | .error e => .error e
      | .ok (provs', m', deferred) => .ok (provs', m', sp :: deferred)
    | some _ =>
      match expandFields sp.structTy sp.decl sp.fields provs m with
      | .error e => .error e
      | .ok (provs', m') => pass2Round sps provs' m'

/-- rounds until nothing is pending or a round makes no progress (`orphan` of the first deferred provider).
    Every round with progress shortens the pending list, so fuel ≥ its length is never exhausted
    (`pass2Rounds_fuel`); the `0` case only makes the function total. -/
def pass2Rounds : Nat → List PSpec → List PSpec → SupMap → Except PlanErr (List PSpec × SupMap)
  | _, [], provs, m => .ok (provs, m)
  | 0, sp :: _, _, _ => .error (.orphan sp.structTy)
  | fuel + 1, sp :: sps, provs, m =>
    match pass2Round (sp :: sps) provs m with
    | .error e => .error e
    | .ok (provs', m', deferred) =>
      if deferred.length = (sp :: sps).length then .error (.orphan (deferred.headD sp).structTy)
      else pass2Rounds fuel deferred provs' m'

/-- struct expansion (repaired): fixpoint iteration over the `Struct` providers, so that a struct whose value is a
    field of another expanded struct is expanded whatever the declaration order -/
def pass2 (sps : List PSpec) (provs : List PSpec) (m : SupMap) : Except PlanErr (List PSpec × SupMap) :=
  pass2Rounds (sps.length + 1) sps provs m

/-! ## NewGraph, BFS -/

structure Node where
  isArg : Bool
  ty : Nat := 0
  prov : Nat := 0
deriving Repr, Inhabited

structure Edge where
  dst : Nat
  src : Nat
  slot : Nat
deriving Repr, Inhabited

structure Graph where
  provs : List PSpec
  nodes : List Node
  edges : List (List Edge)     -- indexed by node
  rev : List (List Nat)        -- indexed by node
  retNode : Nat
  retIdx : Nat
deriving Repr, Inhabited

structure BfsSt where
  nodes : List Node
  provNode : List (Nat × Nat)
  argNode : List (Nat × Nat)
  queue : List Nat
  visited : List Nat
  edges : List (List Edge)
  rev : List (List Nat)

def listModify {α} (l : List α) (i : Nat) (f : α → α) : List α :=
  match l[i]? with
  | some a => l.set i (f a)
  | none => l

def addNode (st : BfsSt) (nd : Node) : BfsSt × Nat :=
  let idx := st.nodes.length
  ({ st with nodes := st.nodes ++ [nd], edges := st.edges ++ [[]], rev := st.rev ++ [[]],
             queue := st.queue ++ [idx] }, idx)

/-- choose (or create) the node supplying type key `t` -/
def pickNode (sup : SupMap) (t : Nat) (st : BfsSt) : BfsSt × Nat × Nat :=
  match sup.lookup t with
  | some (p, gi) =>
    match st.provNode.lookup p with
    | some n2 => (st, n2, gi)
    | none =>
      ({ (addNode st { isArg := false, prov := p }).1 with
           provNode := st.provNode ++ [(p, (addNode st { isArg := false, prov := p }).2)] },
       (addNode st { isArg := false, prov := p }).2, gi)
  | none =>
    match st.argNode.lookup t with
    | some n2 => (st, n2, 0)
    | none =>
      ({ (addNode st { isArg := true, ty := t }).1 with
           argNode := st.argNode ++ [(t, (addNode st { isArg := true, ty := t }).2)] },
       (addNode st { isArg := true, ty := t }).2, 0)

/-- one requirement of node `n1` (slot `i`, type key `t`) -/
def reqStep (sup : SupMap) (n1 i t : Nat) (st : BfsSt) : BfsSt :=
  { (pickNode sup t st).1 with
    edges := listModify (pickNode sup t st).1.edges (pickNode sup t st).2.1
      (· ++ [{ dst := n1, src := (pickNode sup t st).2.2, slot := i }]),
    rev := listModify (pickNode sup t st).1.rev n1 (· ++ [(pickNode sup t st).2.1]) }

/-- process the requirements of node `n1` (slot index `i` upward) -/
def bfsRequires (provs : List PSpec) (sup : SupMap) (n1 : Nat) : Nat → List Nat → BfsSt → BfsSt
  | _, [], st => st
  | i, t :: ts, st => bfsRequires provs sup n1 (i + 1) ts (reqStep sup n1 i t st)

def bfsLoop (provs : List PSpec) (sup : SupMap) : Nat → BfsSt → BfsSt
  | 0, st => st
  | fuel + 1, st =>
    match st.queue with
    | [] => st
    | n1 :: q =>
      let st := { st with queue := q }
      if st.visited.contains n1 then bfsLoop provs sup fuel st
      else
        let st := { st with visited := st.visited ++ [n1] }
        match st.nodes[n1]? with
        | none => bfsLoop provs sup fuel st
        | some nd =>
          if nd.isArg then bfsLoop provs sup fuel st
          else
            let reqs := (provs.getD nd.prov default).requires
            bfsLoop provs sup fuel (bfsRequires provs sup n1 0 reqs st)

/-! ## cycle detection: three-colour DFS (0 white, 1 gray, 2 black) -/

mutual
def dfsVisit (edges : List (List Edge)) : Nat → Nat → List Nat → (List Nat × Bool)
  | 0, _, colors => (colors, true)      -- out of fuel: report as cycle (never reached with adequate fuel)
  | fuel + 1, node, colors =>
    let colors := colors.set node 1
    let (colors, found) := dfsEdges edges fuel (edges.getD node []) colors
    if found then (colors, true) else (colors.set node 2, false)
def dfsEdges (edges : List (List Edge)) : Nat → List Edge → List Nat → (List Nat × Bool)
  | _, [], colors => (colors, false)
  | 0, _ :: _, colors => (colors, true)
  | fuel + 1, e :: es, colors =>
    if colors.getD e.dst 0 == 1 then (colors, true)
    else if colors.getD e.dst 0 == 0 then
      let (colors, found) := dfsVisit edges fuel e.dst colors
      if found then (colors, true) else dfsEdges edges fuel es colors
    else dfsEdges edges fuel es colors
end

def detectCycles (edges : List (List Edge)) (n : Nat) : Bool :=
  let rec go : Nat → Nat → List Nat → Bool
    | 0, _, _ => false
    | k + 1, i, colors =>
      if colors.getD i 0 == 0 then
        let (colors, found) := dfsVisit edges (2 * n + 2 + (edges.foldl (fun a l => a + l.length) 0) * 2) i colors
        if found then true else go k (i + 1) colors
      else go k (i + 1) colors
  go n 0 (List.replicate n 0)

def newGraph (provs0 : List PSpec) (ret : Nat) : Except PlanErr Graph := do
  let sup1 ← pass1 0 provs0 []
  let structs := provs0.filter (·.kind == 1)
  let (provs, sup) ← pass2 structs provs0 sup1
  match sup.lookup ret with
  | none =>
    pure { provs := provs, nodes := [{ isArg := true, ty := ret }], edges := [[]], rev := [[]],
           retNode := 0, retIdx := 0 }
  | some (rp, ri) =>
    let st0 : BfsSt := { nodes := [{ isArg := false, prov := rp }], provNode := [], argNode := [],
                         queue := [0], visited := [], edges := [[]], rev := [[]] }
    let fuel := 4 * (provs.length + (provs.foldl (fun a p => a + p.requires.length) 0)) + 8
    let st := bfsLoop provs sup fuel st0
    if detectCycles st.edges st.nodes.length then throw .cycle
    else pure { provs := provs, nodes := st.nodes, edges := st.edges, rev := st.rev, retNode := 0, retIdx := ri }

/-! ## Build -/

/-- Kuhn's augmenting path; `used` and `matchR` are shared mutable slices in Go, threaded here. -/
def findAug (adj : List (List Nat)) : Nat → List Nat → List Bool → List (Option Nat) → (Bool × List Bool × List (Option Nat))
  | 0, _, used, matchR => (false, used, matchR)
  | _, [], used, matchR => (false, used, matchR)
  | fuel + 1, v :: vs, used, matchR =>
    if used.getD v false then findAug adj fuel vs used matchR   -- note: fuel decremented per inspected neighbour
    else
      let used := used.set v true
      match matchR.getD v none with
      | none => (true, used, matchR.set v (some 0))  -- placeholder, caller fixes `u`
      | some w =>
        let (ok, used, matchR) := findAug adj fuel (adj.getD w []) used matchR
        if ok then (true, used, matchR) else findAug adj fuel vs used matchR

/-- size only matters, so we do not track which `u` is stored in `matchR[v]` except for recursion:
    we must, because recursion follows `matchR[v]`. Proper version below. -/
def findAugU (adj : List (List Nat)) : Nat → Nat → List Nat → List Bool → List (Option Nat) → (Bool × List Bool × List (Option Nat))
  | 0, _, _, used, matchR => (false, used, matchR)
  | _, _, [], used, matchR => (false, used, matchR)
  | fuel + 1, u, v :: vs, used, matchR =>
    if used.getD v false then findAugU adj fuel u vs used matchR
    else
      let used := used.set v true
      match matchR.getD v none with
      | none => (true, used, matchR.set v (some u))
      | some w =>
        let (ok, used, matchR) := findAugU adj fuel w (adj.getD w []) used matchR
        if ok then (true, used, matchR.set v (some u)) else findAugU adj fuel u vs used matchR

def maxAntichain (g : Graph) : Nat :=
  let n := g.nodes.length
  let adj : List (List Nat) := g.edges.map (·.map (·.dst))
  let fuel := (n + 1) * (n + 1) * 4 + (adj.foldl (fun a l => a + l.length) 0) * (n + 1) + 8
  let rec go : Nat → Nat → List (Option Nat) → Nat → Nat
    | 0, _, _, size => size
    | k + 1, u, matchR, size =>
      let (ok, _, matchR) := findAugU adj fuel u (adj.getD u []) (List.replicate n false) matchR
      go k (u + 1) matchR (if ok then size - 1 else size)
  go n 0 (List.replicate n none) n

/-- Kahn order. counts: remaining requirement count; prov: provided flags per slot. -/
structure TopoSt where
  queue : List Nat
  counts : List Nat
  provided : List (List Bool)
  visited : List Nat
  out : List Nat

def topoEdges : List Edge → TopoSt → TopoSt
  | [], st => st
  | e :: es, st =>
    let flags := st.provided.getD e.dst []
    if e.dst ≥ st.counts.length || flags.getD e.slot false then topoEdges es st
    else
      let c := st.counts.getD e.dst 0 - 1
      let st := { st with counts := st.counts.set e.dst c,
                          provided := st.provided.set e.dst (flags.set e.slot true) }
      let st := if c == 0 then { st with queue := st.queue ++ [e.dst] } else st
      topoEdges es st

def topoLoop (g : Graph) : Nat → TopoSt → TopoSt
  | 0, st => st
  | fuel + 1, st =>
    match st.queue with
    | [] => st
    | n :: q =>
      let st := { st with queue := q }
      if st.visited.contains n then topoLoop g fuel st
      else
        let st := { st with visited := st.visited ++ [n] }
        let st := topoEdges (g.edges.getD n []) st
        topoLoop g fuel { st with out := st.out ++ [n] }

def nodeSlots (g : Graph) (i : Nat) : Nat :=
  match g.nodes[i]? with
  | some nd => if nd.isArg then 0 else (g.provs.getD nd.prov default).requires.length
  | none => 0

def topoOrder (g : Graph) : List Nat :=
  let n := g.nodes.length
  let idxs := List.range n
  let counts := idxs.map (fun i => (g.rev.getD i []).length)
  let provided := idxs.map (fun i => List.replicate (nodeSlots g i) false)
  let q := idxs.filter (fun i => (g.rev.getD i []).length == 0)
  (topoLoop g (n + (g.edges.foldl (fun a l => a + l.length) 0) + 4)
    { queue := q, counts := counts, provided := provided, visited := [], out := [] }).out

def isAsyncNode (g : Graph) (n : Nat) : Bool :=
  match g.nodes[n]? with
  | some nd => !nd.isArg && (g.provs.getD nd.prov default).isAsync
  | none => false

/-- findOptimalPool. `pools`: node lists; `poolProv`: provided node sets per pool. -/
def findOptimalPool (g : Graph) (n : Nat) (pools : List (List Nat)) (poolProv : List (List Nat)) : Nat :=
  let deps := g.rev.getD n []
  let async := isAsyncNode g n
  -- first loop
  let step := fun (acc : Nat × List Nat) (i : Nat) =>
    let (maxC, maxPools) := acc
    let provd := poolProv.getD i []
    let cnt := (deps.filter (fun d => provd.contains d)).length
    if !async && (pools.getD i []).isEmpty then (maxC, maxPools)
    else if cnt > maxC then (cnt, [i])
    else if cnt == maxC then (maxC, maxPools ++ [i])
    else (maxC, maxPools)
  let (maxC, maxPools) := (List.range pools.length).foldl step (0, [])
  if maxPools.isEmpty then 0
  else
    -- POOL_LOOP
    let poolLoop : Option Nat :=
      if maxC == deps.length then
        let rec scan : List Nat → Option Nat      -- reversed pool content
          | [] => none                             -- fell off: inner loop finished without decision
          | nd :: rest =>
            if deps.contains nd then some 1        -- return poolIdx
            else if isAsyncNode g nd then some 2   -- continue POOL_LOOP
            else scan rest
        let rec loop : List Nat → Option Nat
          | [] => none
          | p :: ps =>
            if !async then some p
            else
              match scan (pools.getD p []).reverse with
              | some 1 => some p
              | some _ => loop ps
              | none => if p == 0 then some 0 else loop ps
        loop maxPools
      else none
    match poolLoop with
    | some p => p
    | none =>
      let emptyIdx := (List.range pools.length).find? (fun i => (pools.getD i []).isEmpty)
      match (if async then emptyIdx else none) with
      | some i => i
      | none =>
        -- min size among maxPools
        let (_, best) := maxPools.foldl (fun (acc : Option Nat × Nat) p =>
          let sz := (pools.getD p []).length
          if !async && sz == 0 then acc
          else match acc.1 with
            | none => (some sz, p)
            | some m => if sz < m then (some sz, p) else acc) (none, 0)
        best

structure Param where
  node : Nat
  group : Nat
  isArg : Bool
  refs : Nat := 0
  withChan : Bool := false
deriving Repr, Inhabited

structure CallArg where
  param : Nat        -- index into params
  isWait : Bool
deriving Repr, Inhabited

structure BuildOut where
  params : List Param
  args : List Nat            -- param indices of injector arguments, in order
  retParam : Nat
  isErr : Bool
  pools : List (List Nat)
  nodePool : List (Option Nat)    -- per node: none for args
  nodeRets : List (List Nat)      -- per node: param indices
  nodeArgs : List (List CallArg)  -- per node
deriving Repr, Inhabited

def build (g : Graph) : Except PlanErr BuildOut := do
  let nn := g.nodes.length
  let k := maxAntichain g
  let order := topoOrder g
  let argNodes := (List.range nn).filter (fun i => (g.nodes.getD i default).isArg)
  -- first pass
  let init : (List (List Nat) × List (List Nat) × List Param × List Nat × List (Option Nat) × List (List Nat) × Option Nat × Bool) :=
    (List.replicate k [], List.replicate k argNodes, [], [], List.replicate nn none, List.replicate nn [], none, false)
  let (pools, _poolProv, params, args, nodePool, nodeRets, retParam, isErr) :=
    order.foldl (fun acc n =>
      let (pools, poolProv, params, args, nodePool, nodeRets, retParam, isErr) := acc
      let nd := g.nodes.getD n default
      if nd.isArg then
        let pidx := params.length
        let params := params ++ [{ node := n, group := 0, isArg := true : Param }]
        let nodeRets := nodeRets.set n [pidx]
        let retParam := if n == g.retNode then some pidx else retParam
        (pools, poolProv, params, args ++ [pidx], nodePool, nodeRets, retParam, isErr)
      else
        let spec := g.provs.getD nd.prov default
        let p := findOptimalPool g n pools poolProv
        let pools := listModify pools p (· ++ [n])
        let poolProv := listModify poolProv p (· ++ [n])
        let base := params.length
        let newParams := (List.range spec.provides.length).map (fun gi => ({ node := n, group := gi, isArg := false } : Param))
        let params := params ++ newParams
        let rets := (List.range spec.provides.length).map (· + base)
        let nodeRets := nodeRets.set n rets
        let retParam := if n == g.retNode then some (base + g.retIdx) else retParam
        (pools, poolProv, params, args, nodePool.set n (some p), nodeRets, retParam, isErr || spec.isErr)
    ) init
  let some rp := retParam | throw .noReturn
  -- Ref(false) on return param
  let params := listModify params rp (fun p => { p with refs := p.refs + 1 })
  -- second pass
  let nodeArgs0 : List (List CallArg) := (List.range nn).map (fun i => List.replicate (nodeSlots g i) { param := 0, isWait := false })
  let (params, nodeArgs) := order.foldl (fun acc n =>
      (g.edges.getD n []).foldl (fun acc e =>
        let (params, nodeArgs) := acc
        let pidx := (nodeRets.getD n []).getD e.src 0
        let samePool := match nodePool.getD n none, nodePool.getD e.dst none with
          | some a, some b => a == b
          | _, _ => false
        let shouldWait := !samePool
        let nodeArgs := listModify nodeArgs e.dst (·.set e.slot { param := pidx, isWait := shouldWait })
        let params := listModify params pidx (fun p => { p with refs := p.refs + 1, withChan := !p.isArg && (p.withChan || shouldWait) })
        (params, nodeArgs)) acc
    ) (params, nodeArgs0)
  pure { params := params, args := args, retParam := rp, isErr := isErr, pools := pools,
         nodePool := nodePool, nodeRets := nodeRets, nodeArgs := nodeArgs }

/-! ## buildStmts: which pool is the main thread, which are goroutines (in emission order) -/

def depsIn (g : Graph) (n : Nat) (s : List Nat) : Bool := (g.rev.getD n []).all (fun d => s.contains d)

def buildStmts (g : Graph) (pools : List (List Nat)) : Except PlanErr (List Nat × List (List Nat)) := do
  let argNodes := (List.range g.nodes.length).filter (fun i => (g.nodes.getD i default).isArg)
  let idxs := List.range pools.length
  let nonEmpty := idxs.filter (fun i => !(pools.getD i []).isEmpty)
  let first := fun i => (pools.getD i []).headD 0
  let initial := nonEmpty.filter (fun i => depsIn g (first i) argNodes)
  if initial.isEmpty then throw .noInitial
  let syncIdx := initial.find? (fun i => !isAsyncNode g (first i))
  let parentIdx := match syncIdx with | some i => i | none => initial.headD 0
  let visited := [parentIdx]
  let processed := argNodes ++ pools.getD parentIdx []
  let parent := pools.getD parentIdx []
  -- remaining initial pools as chains
  let (visited, processed, chains) := initial.foldl (fun acc i =>
      let (visited, processed, chains) := acc
      if visited.contains i then acc
      else (visited ++ [i], processed ++ pools.getD i [], chains ++ [pools.getD i []])) (visited, processed, ([] : List (List Nat)))
  -- dependent pools, rounds
  let round := fun (st : List Nat × List Nat × List (List Nat) × List Nat × Bool) =>
    idxs.foldl (fun st i =>
      let (visited, processed, chains, parent, _progress) := st
      let pool := pools.getD i []
      if visited.contains i || pool.isEmpty then st
      else if depsIn g (first i) processed then
        if isAsyncNode g (first i) then (visited ++ [i], processed ++ pool, chains ++ [pool], parent, true)
        else (visited ++ [i], processed ++ pool, chains, parent ++ pool, true)
      else st) (st.1, st.2.1, st.2.2.1, st.2.2.2.1, false)
  let rec rounds : Nat → (List Nat × List Nat × List (List Nat) × List Nat × Bool) → (List Nat × List Nat × List (List Nat) × List Nat × Bool)
    | 0, st => st
    | k + 1, st =>
      let st' := round st
      if st'.2.2.2.2 then rounds k st' else st'
  let (_, _, chains, parent, _) := rounds (pools.length + 1) (visited, processed, chains, parent, false)
  pure (parent, chains)

/-! ## canonical dump -/

def dumpCall (ext : Bool) (g : Graph) (b : BuildOut) (n : Nat) : String :=
  let nd := g.nodes.getD n default
  let spec := g.provs.getD nd.prov default
  let argS := (b.nodeArgs.getD n []).map (fun a =>
    let p := b.params.getD a.param default
    if ext && p.isArg then s!"a{p.node}:{(g.nodes.getD p.node default).ty}"
    else s!"{if p.isArg then "a" else "v"}{p.node}.{p.group}{if a.isWait && p.withChan then "w" else ""}")
  let retS := (b.nodeRets.getD n []).map (fun r =>
    let p := b.params.getD r default
    s!"{if p.refs == 0 then "_" else "r"}{if p.withChan then "c" else ""}")
  let head := if spec.kind == 2 then s!"F{spec.decl}.{spec.fieldName}" else s!"P{spec.decl}"
  let ext := if ext then s!"@{n}{if spec.isErr then "!" else ""}{if spec.isAsync then "~" else ""}" else ""
  s!"{head}{ext}({",".intercalate argS})->({",".intercalate retS})"

/-- declaration-level identity of a value: which provider (by declaration index) and which result group -/
def valueId (g : Graph) (b : BuildOut) (pidx : Nat) : String :=
  let p := b.params.getD pidx default
  let nd := g.nodes.getD p.node default
  if nd.isArg then s!"A{nd.ty}"
  else
    let spec := g.provs.getD nd.prov default
    if spec.kind == 2 then s!"F{spec.decl}.{spec.fieldName}" else s!"P{spec.decl}.{p.group}"

def dumpCallSem (g : Graph) (b : BuildOut) (n : Nat) : String :=
  let nd := g.nodes.getD n default
  let spec := g.provs.getD nd.prov default
  let argS := (b.nodeArgs.getD n []).map (fun a =>
    let p := b.params.getD a.param default
    s!"{valueId g b a.param}{if a.isWait && p.withChan then "w" else ""}")
  let retS := (b.nodeRets.getD n []).map (fun r =>
    let p := b.params.getD r default
    s!"{if p.refs == 0 then "_" else "r"}{if p.withChan then "c" else ""}")
  let head := if spec.kind == 2 then s!"F{spec.decl}.{spec.fieldName}" else s!"P{spec.decl}"
  s!"{head}({",".intercalate argS})->({",".intercalate retS})"

def errStr : PlanErr → String
  | .dup _ => "dup" | .orphan _ => "orphan" | .cycle => "cycle" | .noInitial => "noInitial"
  | .noReturn => "noReturn" | .invalid => "invalid"

def planDumpSem (provs : List PSpec) (ret : Nat) : String :=
  match newGraph provs ret with
  | .error e => s!"ERR {errStr e}"
  | .ok g =>
    match build g with
    | .error e => s!"ERR {errStr e}"
    | .ok b =>
      match buildStmts g b.pools with
      | .error e => s!"ERR {errStr e}"
      | .ok (parent, chains) =>
        let hasAsync := (List.range g.nodes.length).any (isAsyncNode g)
        let argTys := b.args.map (fun pi => (g.nodes.getD (b.params.getD pi default).node default).ty)
        let thr := fun (l : List Nat) => " ".intercalate (l.map (dumpCallSem g b))
        s!"OK async={hasAsync} err={b.isErr} args={argTys} main=[{thr parent}] go=[{" | ".intercalate (chains.map thr)}] ret={valueId g b b.retParam}"

def planDump (provs : List PSpec) (ret : Nat) (ext : Bool := false) : String :=
  match newGraph provs ret with
  | .error e => s!"ERR {errStr e}"
  | .ok g =>
    match build g with
    | .error e => s!"ERR {errStr e}"
    | .ok b =>
      match buildStmts g b.pools with
      | .error e => s!"ERR {errStr e}"
      | .ok (parent, chains) =>
        let hasAsync := (List.range g.nodes.length).any (isAsyncNode g)
        let argTys := b.args.map (fun pi => (g.nodes.getD (b.params.getD pi default).node default).ty)
        let thr := fun (l : List Nat) => " ".intercalate (l.map (dumpCall ext g b))
        let rp := b.params.getD b.retParam default
        let retS := if ext then s!" ret=v{rp.node}.{rp.group}" else ""
        s!"OK async={hasAsync} err={b.isErr} args={argTys} main=[{thr parent}] go=[{" | ".intercalate (chains.map thr)}]{retS}"

end KV
