import KV.Pass1
/-! Prototype (scratch): invariants of the second pass of `Build` (argument wiring, IsWait, withChannel). -/
namespace KV

def shouldWaitB (p1 : P1St) (n m : Nat) : Bool :=
  !(match p1.nodePool.getD n none, p1.nodePool.getD m none with
    | some a, some b => a == b
    | _, _ => false)

def argVal (p1 : P1St) (n : Nat) (e : Edge) : CallArg :=
  { param := (p1.nodeRets.getD n []).getD e.src 0, isWait := shouldWaitB p1 n e.dst }

def edgePairs (g : Graph) (order : List Nat) : List (Nat × Edge) :=
  order.flatMap (fun n => (g.edges.getD n []).map (fun e => (n, e)))

def p2Pair (p1 : P1St) (st : P2St) (x : Nat × Edge) : P2St := p2Edge p1 x.1 st x.2

def p2Init (g : Graph) (params0 : List Param) : P2St :=
  { params := params0,
    nodeArgs := (List.range g.nodes.length).map (fun i => List.replicate (nodeSlots g i) { param := 0, isWait := false }) }

theorem bpass2_eq (g : Graph) (order : List Nat) (p1 : P1St) (params0 : List Param) :
    bpass2 g order p1 params0 = (edgePairs g order).foldl (p2Pair p1) (p2Init g params0) := by
  simp only [bpass2, edgePairs, List.foldl_flatMap, List.foldl_map, p2Pair, p2Init]
  rfl

def bumpParam (sw : Bool) (p : Param) : Param :=
  { p with refs := p.refs + 1, withChan := !p.isArg && (p.withChan || sw) }

theorem p2Edge_eq (p1 : P1St) (n : Nat) (st : P2St) (e : Edge) :
    p2Edge p1 n st e =
      { params := listModify st.params (argVal p1 n e).param (bumpParam (shouldWaitB p1 n e.dst)),
        nodeArgs := listModify st.nodeArgs e.dst (·.set e.slot (argVal p1 n e)) } := rfl

def dfltArg : CallArg := { param := 0, isWait := false }

structure P2Inv (g : Graph) (p1 : P1St) (params0 : List Param) (proc : List (Nat × Edge)) (st : P2St) : Prop where
  lenA : st.nodeArgs.length = g.nodes.length
  slotLen : ∀ m, m < g.nodes.length → (st.nodeArgs.getD m []).length = nodeSlots g m
  written : ∀ x ∈ proc, x.2.dst < g.nodes.length → x.2.slot < nodeSlots g x.2.dst →
    ∃ y ∈ proc, y.2.dst = x.2.dst ∧ y.2.slot = x.2.slot ∧
      (st.nodeArgs.getD x.2.dst []).getD x.2.slot dfltArg = argVal p1 y.1 y.2
  plen : st.params.length = params0.length
  pnode : ∀ v, (st.params.getD v default).node = (params0.getD v default).node
  pisArg : ∀ v, (st.params.getD v default).isArg = (params0.getD v default).isArg
  chan : ∀ x ∈ proc, shouldWaitB p1 x.1 x.2.dst = true → (argVal p1 x.1 x.2).param < params0.length →
    (params0.getD (argVal p1 x.1 x.2).param default).isArg = false →
    (st.params.getD (argVal p1 x.1 x.2).param default).withChan = true
  chanKeep : ∀ v, (params0.getD v default).isArg = false → (params0.getD v default).withChan = true →
    (st.params.getD v default).withChan = true
  argNoChan : (∀ v, (params0.getD v default).withChan = false) →
    ∀ v, (st.params.getD v default).isArg = true → (st.params.getD v default).withChan = false

theorem p2Init_inv (g : Graph) (p1 : P1St) (params0 : List Param) : P2Inv g p1 params0 [] (p2Init g params0) where
  lenA := by simp [p2Init]
  slotLen := by
    intro m hm
    simp [p2Init, List.getD_eq_getElem?_getD, hm]
  written := by intro x hx; simp at hx
  plen := rfl
  pnode := fun _ => rfl
  pisArg := fun _ => rfl
  chan := by intro x hx; simp at hx
  chanKeep := fun _ _ h => h
  argNoChan := fun h0 v _ => h0 v

theorem p2Pair_inv {g : Graph} {p1 : P1St} {params0 : List Param} {proc : List (Nat × Edge)} {st : P2St}
    (h : P2Inv g p1 params0 proc st) (x : Nat × Edge) :
    P2Inv g p1 params0 (proc ++ [x]) (p2Pair p1 st x) := by
  obtain ⟨n, e⟩ := x
  simp only [p2Pair]
  rw [p2Edge_eq]
  generalize hv : argVal p1 n e = av
  -- facts about the modified tables
  have hparams_self : av.param < st.params.length →
      (listModify st.params av.param (bumpParam (shouldWaitB p1 n e.dst))).getD av.param default
        = bumpParam (shouldWaitB p1 n e.dst) (st.params.getD av.param default) :=
    fun hl => getD_listModify_self _ _ _ _ hl
  have hparams_other : ∀ v, v ≠ av.param →
      (listModify st.params av.param (bumpParam (shouldWaitB p1 n e.dst))).getD v default = st.params.getD v default :=
    fun v hne => getD_listModify_other _ _ _ _ _ hne
  have hparams_any : ∀ v,
      ((listModify st.params av.param (bumpParam (shouldWaitB p1 n e.dst))).getD v default).node
        = (st.params.getD v default).node ∧
      ((listModify st.params av.param (bumpParam (shouldWaitB p1 n e.dst))).getD v default).isArg
        = (st.params.getD v default).isArg ∧
      ((st.params.getD v default).isArg = false → (st.params.getD v default).withChan = true →
        ((listModify st.params av.param (bumpParam (shouldWaitB p1 n e.dst))).getD v default).withChan = true) := by
    intro v
    by_cases hve : v = av.param
    · subst hve
      by_cases hl : av.param < st.params.length
      · rw [hparams_self hl]
        refine ⟨rfl, rfl, fun h1 h2 => ?_⟩
        show (!(st.params.getD av.param default).isArg && ((st.params.getD av.param default).withChan || shouldWaitB p1 n e.dst)) = true
        rw [h1, h2]; rfl
      · rw [listModify_oob _ _ _ hl]; exact ⟨rfl, rfl, fun _ h2 => h2⟩
    · rw [hparams_other v hve]; exact ⟨rfl, rfl, fun _ h2 => h2⟩
  refine { lenA := by simp [listModify_length, h.lenA], slotLen := ?_, written := ?_, plen := by simp [listModify_length, h.plen],
           pnode := fun v => (hparams_any v).1.trans (h.pnode v), pisArg := fun v => (hparams_any v).2.1.trans (h.pisArg v),
           chan := ?_, chanKeep := ?_, argNoChan := ?_ }
  · intro m hm
    show ((listModify st.nodeArgs e.dst (·.set e.slot av)).getD m []).length = nodeSlots g m
    by_cases hme : m = e.dst
    · subst hme
      rw [getD_listModify_self _ _ _ _ (by rw [h.lenA]; exact hm)]
      rw [List.length_set]; exact h.slotLen _ hm
    · rw [getD_listModify_other _ _ _ _ _ hme]; exact h.slotLen m hm
  · intro y hy hyd hys
    show ∃ z ∈ proc ++ [(n, e)], z.2.dst = y.2.dst ∧ z.2.slot = y.2.slot ∧
      ((listModify st.nodeArgs e.dst (·.set e.slot av)).getD y.2.dst []).getD y.2.slot dfltArg = argVal p1 z.1 z.2
    by_cases hsame : y.2.dst = e.dst ∧ y.2.slot = e.slot
    · obtain ⟨hd, hs⟩ := hsame
      refine ⟨(n, e), by simp, hd.symm, hs.symm, ?_⟩
      rw [hd, hs]
      have hdl : e.dst < st.nodeArgs.length := by rw [h.lenA, ← hd]; exact hyd
      rw [getD_listModify_self _ _ _ _ hdl]
      have hsl : e.slot < (st.nodeArgs.getD e.dst []).length := by
        rw [h.slotLen e.dst (by rw [← hd]; exact hyd), ← hd, ← hs]; exact hys
      rw [getD_set_self _ _ _ _ hsl]
      exact hv.symm
    · -- untouched entry: reuse the old witness (y is in proc, or y = (n,e) which is excluded by hsame)
      have hy' : y ∈ proc := by
        simp only [List.mem_append, List.mem_singleton] at hy
        rcases hy with hy | rfl
        · exact hy
        · exact absurd ⟨rfl, rfl⟩ hsame
      obtain ⟨z, hz, hzd, hzs, hval⟩ := h.written y hy' hyd hys
      refine ⟨z, List.mem_append_left _ hz, hzd, hzs, ?_⟩
      by_cases hd : y.2.dst = e.dst
      · have hs : y.2.slot ≠ e.slot := fun hs => hsame ⟨hd, hs⟩
        rw [hd] at hval ⊢
        have hdl : e.dst < st.nodeArgs.length := by rw [h.lenA, ← hd]; exact hyd
        rw [getD_listModify_self _ _ _ _ hdl, getD_set_other _ _ _ _ _ hs]
        exact hval
      · rw [getD_listModify_other _ _ _ _ _ hd]; exact hval
  · intro y hy hsw hlt hna
    simp only [List.mem_append, List.mem_singleton] at hy
    rcases hy with hy | rfl
    · have hold := h.chan y hy hsw hlt hna
      have hia : (st.params.getD (argVal p1 y.1 y.2).param default).isArg = false := by
        rw [h.pisArg]; exact hna
      exact (hparams_any _).2.2 hia hold
    · -- the edge just processed
      simp only at hsw hlt hna ⊢
      rw [hv] at hlt hna ⊢
      have hl : av.param < st.params.length := by rw [h.plen]; exact hlt
      rw [hparams_self hl]
      have hia : (st.params.getD av.param default).isArg = false := by rw [h.pisArg]; exact hna
      show (!(st.params.getD av.param default).isArg && ((st.params.getD av.param default).withChan || shouldWaitB p1 n e.dst)) = true
      rw [hia, hsw]; simp
  · intro v h1 h2
    have hold := h.chanKeep v h1 h2
    have hia : (st.params.getD v default).isArg = false := by rw [h.pisArg]; exact h1
    exact (hparams_any v).2.2 hia hold
  · intro h0 v hia
    have hia' : (st.params.getD v default).isArg = true := by rw [← (hparams_any v).2.1]; exact hia
    by_cases hve : v = av.param
    · subst hve
      by_cases hl : av.param < st.params.length
      · rw [hparams_self hl]
        show (!(st.params.getD av.param default).isArg && _) = false
        rw [hia']; rfl
      · rw [listModify_oob _ _ _ hl]; exact h.argNoChan h0 _ hia'
    · rw [hparams_other v hve]; exact h.argNoChan h0 v hia'

theorem foldl_p2_inv {g : Graph} {p1 : P1St} {params0 : List Param} (l : List (Nat × Edge))
    (proc : List (Nat × Edge)) (st : P2St) (h : P2Inv g p1 params0 proc st) :
    P2Inv g p1 params0 (proc ++ l) (l.foldl (p2Pair p1) st) := by
  induction l generalizing proc st with
  | nil => simpa using h
  | cons x xs ih =>
    simp only [List.foldl_cons]
    have := ih (proc ++ [x]) _ (p2Pair_inv h x)
    simpa [List.append_assoc] using this

theorem bpass2_inv (g : Graph) (order : List Nat) (p1 : P1St) (params0 : List Param) :
    P2Inv g p1 params0 (edgePairs g order) (bpass2 g order p1 params0) := by
  rw [bpass2_eq]
  have := foldl_p2_inv (edgePairs g order) [] _ (p2Init_inv g p1 params0)
  simpa using this

end KV
