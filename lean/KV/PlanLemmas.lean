import KV.Dump
import KV.DataFlow
import KV.Term
/-! Glue between `KV.plan` (the composition the driver runs and the correspondence check compares with the
    real `NewGraph`/`Build`) and the three-stage hypotheses of the Tier 2 theorems. -/
namespace KV

theorem plan_ok {provs : List PSpec} {ret : Nat} {p : PlanOut} (h : plan provs ret = .ok p) :
    newGraph2 provs ret = .ok p.g ∧ build2 p.g = .ok p.b ∧ buildStmts2 p.g p.b.pools = .ok (p.parent, p.chains) := by
  unfold plan at h
  simp only [bind, Except.bind] at h
  cases hg : newGraph2 provs ret with
  | error e => rw [hg] at h; cases h
  | ok g =>
    rw [hg] at h
    simp only at h
    cases hb : build2 g with
    | error e => rw [hb] at h; cases h
    | ok b =>
      rw [hb] at h
      simp only at h
      cases hs : buildStmts2 g b.pools with
      | error e => rw [hs] at h; cases h
      | ok pc =>
        rw [hs] at h
        obtain ⟨parent, chains⟩ := pc
        simp only [pure, Except.pure] at h
        cases h
        exact ⟨rfl, hb, hs⟩

/-- the abstract program emitted for an accepted declaration (micro-op form, fault-free semantics) -/
def emitted (p : PlanOut) : T1.Prog := emitPlan p.b p.parent p.chains

end KV

namespace KV

/-- rank certificate of the emitted program: Kahn position of the owning node -/
def rankOfPlan (p : PlanOut) : T1.Op → Nat := T1.rankOf (posOf (topoOrder p.g)) (topoOrder p.g).length

/-- Tier 2 in one statement: the program emitted for an accepted declaration is well-formed (rank-sorted
    threads, every wait has a closer of smaller rank, spawn/join structure) and data-flow well-formed. -/
theorem plan_wf {provs : List PSpec} {ret : Nat} {p : PlanOut} (h : plan provs ret = .ok p) :
    T1.WF (emitted p) (rankOfPlan p) ∧ T1.WFData (emitted p) (rankOfPlan p) (isParamOf p.b) := by
  obtain ⟨hg, hb, hs⟩ := plan_ok h
  have hgw := newGraph2_gwf hg
  have hpf : PoolFacts p.g (topoOrder p.g) p.b.pools := by rw [build2_pools hb]; exact poolFacts_of_build hgw _
  obtain ⟨hsf, hk⟩ := stmtFacts_of_buildStmts2 hpf hs
  have hok := planOK_of_build2 hgw hb hsf hk
  exact ⟨T1.emit_wf (planFacts_of_planOK hok), T1.emit_wfdata (planFacts_of_planOK hok) (planData_of_planOK hok)⟩

end KV
