import KV.Dump
import KV.InstallModel
import KV.Generated.Install
import KV.Wire
import KV.EmittedF
import KV.T1FExec
import KV.TypeConv
import KV.GenConv
import KV.BaseName
import KV.Reserved
/-! Line-protocol driver for the executable models: one request per line on stdin, one canonical answer
    line on stdout.  The correspondence check pipes the same lines to the implementation's drivers
    (verif-tagged test files in /repo) and diffs the two streams.

      D <ret> ; <kind async err : requires : provides/... : structTy : F=ty ...> ; ...   planner dump
      E <same>                        emitted-program dump in the form recovered from *_band.go
      V <pre> ... | <op> ...          VarPool history (ops n:<base> t:<TypeName> c:<TypeName>)
      I path=name path=name ...       TypeConverter.AddImport history
      T <cur|-> | <package names> | <type s-expression>   TypeConverter.TypeToExpr (KV/TypeConv.lean)
      G <cur> | <package names> | <registered names> | <type>   createASTTypeExpr (KV/GenConv.lean)
      B <type>                        VarPool.getBaseName (KV/BaseName.lean)
      F crash|fault                   witnesses of the install step list (failure path of C15)
      X <decl> | fails <decl idx>.. | cancel <0|1>   outcomes the T1F semantics allows for the emitted program
      XS <same>                       the same, followed by ` states=<n>` (states expanded by the search)
-/
open KV

def parseNats (s : String) : List Nat :=
  (s.splitOn " ").filterMap (fun t => t.trimAscii.toString.toNat?)

def words (s : String) : List String :=
  (s.splitOn " ").map (fun t => t.trimAscii.toString) |>.filter (fun t => !t.isEmpty)

def parseProv (idx : Nat) (s : String) : Option PSpec :=
  match s.splitOn ":" with
  | [hd, req, prv, sty, flds] =>
    let h := parseNats hd
    if h.length != 3 then none else
    let groups := (prv.splitOn "/").map parseNats |>.filter (fun g => !g.isEmpty)
    let fields := (words flds).filterMap (fun t =>
      match t.splitOn "=" with
      | [n, ty] => ty.toNat?.map (fun k => (n, k))
      | _ => none)
    some { kind := h.getD 0 0, isAsync := h.getD 1 0 == 1, isErr := h.getD 2 0 == 1,
           requires := parseNats req, provides := groups,
           structTy := (parseNats sty).getD 0 0, fields := fields, decl := idx }
  | _ => none

def handleDeclWith (dump : List PSpec → Nat → String) (line : String) : String :=
  match line.splitOn ";" with
  | hd :: ps =>
    match (parseNats hd) with
    | ret :: _ =>
      let provs := (List.range ps.length).zip ps |>.map (fun (i, s) => parseProv i s)
      if provs.any Option.isNone then "BAD"
      else dump (provs.filterMap id) ret
    | [] => "BAD"
  | _ => "BAD"

def handleDecl (line : String) : String :=
  match line.splitOn ";" with
  | hd :: ps =>
    match (parseNats hd) with
    | ret :: _ =>
      let provs := (List.range ps.length).zip ps |>.map (fun (i, s) => parseProv i s)
      if provs.any Option.isNone then "BAD"
      else planDumpX (provs.filterMap id) ret
    | [] => "BAD"
  | _ => "BAD"

def parseReq (op : String) : Option VP.Req :=
  match op.splitOn ":" with
  | ["n", b] => some (.name b)
  | ["t", t] => some (.ofType t)
  | ["c", t] => some (.chanOf t)
  | _ => none

def handleVarPool (line : String) : String :=
  match line.splitOn "|" with
  | [pre, ops] =>
    let p0 := (words pre).foldl (fun p b => match VP.getNameFix p b with
      | some (p', _) => p'
      | none => p) VP.seedPool
    let reqs := (words ops).map parseReq
    if reqs.any Option.isNone then "BAD"
    else
      match VP.runFix p0 ((reqs.filterMap id).map VP.Req.base) with
      | some (_, outs) => "V " ++ " ".intercalate outs
      | none => "FUEL"
  | _ => "BAD"

def lastPathElement (p : String) : String := (p.splitOn "/").getLastD p

/-- insertion sort on strings (the implementation side sorts with sort.Strings, bytewise) -/
def insertStr (x : String) : List String → List String
  | [] => [x]
  | y :: ys => if x < y then x :: y :: ys else y :: insertStr x ys
def sortStrs (l : List String) : List String := l.foldl (fun acc x => insertStr x acc) []

def handleImports (line : String) : String :=
  let ops := (words line).map (fun op => match op.splitOn "=" with
    | [p, n] => some (p, n)
    | _ => none)
  if ops.any Option.isNone then "BAD"
  else
    let ops := ops.filterMap id
    -- intern paths
    let paths := ops.foldl (fun (acc : List String) pn => if acc.contains pn.1 then acc else acc ++ [pn.1]) []
    let idOf := fun (p : String) => (paths.idxOf p)
    let init : Imp.TC := { imports := [], used := [], counters := [] }
    let (tc, names, ok) := ops.foldl (fun (acc : Imp.TC × List String × Bool) pn =>
      let (tc, names, ok) := acc
      match Imp.addImport tc (idOf pn.1) pn.2 with
      | some (tc', n) => (tc', names ++ [n], ok)
      | none => (tc, names, false)) (init, [], true)
    if !ok then "FUEL"
    else
      let specs := tc.imports.map (fun (pid, n) =>
        let p := paths.getD pid ""
        p ++ "=" ++ (if n == lastPathElement p then "" else n))
      "I " ++ " ".intercalate names ++ " | " ++ " ".intercalate (sortStrs specs)

/-! `T` / `G` lines: s-expression of a type → `GConv.Ty` (converted to `GConv.Ty` for `T` lines) -/
mutual
/-- (fuel, tokens) → (type, remaining tokens) -/
def parseTyS : Nat → List String → Option (GConv.Ty × List String)
  | 0, _ => none
  | fuel + 1, toks =>
    match toks with
    | [] => none
    | "ctx" :: rest => some (.node (.named BaseName.contextPkg 16) [], rest)
    | "ie" :: rest => some (.node (.iface []) [], rest)
    | "il" :: rest => some (.node (.iface [0]) [.node (.func 0) []], rest)
    | "(" :: kind :: rest =>
      let withKids := fun (tag : GConv.Tag) (rest : List String) (arity : Option Nat) =>
        match parseKids fuel rest with
        | some (ks, rest') => if arity.all (· == ks.length) then some (GConv.Ty.node tag ks, rest') else none
        | none => none
      match kind with
      | "n" => match rest with
        | p :: nm :: rest' => match p.toNat?, nm.toNat? with
          | some p, some nm => withKids (.named p nm) rest' none
          | _, _ => none
        | _ => none
      | "p" => withKids .ptr rest (some 1)
      | "s" => withKids .slice rest (some 1)
      | "a" => match rest with
        | n :: rest' => match n.toNat? with
          | some n => withKids (.arr n) rest' (some 1)
          | none => none
        | _ => none
      | "m" => withKids .map rest (some 2)
      | "c" => match rest with
        | d :: rest' => match d.toNat? with
          | some d => if d ≤ 2 then withKids (.chan d) rest' (some 1) else none
          | none => none
        | _ => none
      | "v" => withKids .variadic rest (some 1)
      | "f" => match rest with
        | n :: rest' => match n.toNat? with
          | some n => match parseKids fuel rest' with
            | some (ks, rest'') => if n ≤ ks.length then some (.node (.func n) ks, rest'') else none
            | none => none
          | none => none
        | _ => none
      | "i" => match rest with
        | spec :: rest' =>
          match (spec.splitOn ",").mapM (fun m => m.toNat?) with
          | some ms => withKids (.iface ms) rest' (some ms.length)
          | none => none
        | _ => none
      | "st" => match rest with
        | spec :: rest' =>
          let fs := if spec == "-" then some [] else
            (spec.splitOn ",").mapM (fun f => match f.splitOn ":" with
              | [a, b] => match a.toNat? with
                | some a => some (a, b == "1")
                | none => none
              | _ => none)
          match fs with
          | some fs => withKids (.struct fs) rest' (some fs.length)
          | none => none
        | _ => none
      | _ => none
    | t :: rest =>
      if t.startsWith "b" then
        match (t.drop 1).toString.toNat? with
        | some k => if k < 16 then some (.node (.basic k) [], rest) else none
        | none => none
      else none
def parseKids : Nat → List String → Option (List GConv.Ty × List String)
  | 0, _ => none
  | fuel + 1, toks =>
    match toks with
    | ")" :: rest => some ([], rest)
    | _ =>
      match parseTyS fuel toks with
      | none => none
      | some (t, rest) =>
        match parseKids fuel rest with
        | none => none
        | some (ts, rest') => some (t :: ts, rest')
end

/-- variadic parameters only as the last parameter of a function (what the implementation-side driver accepts) -/
partial def variadicOk : Bool → GConv.Ty → Bool
  | allowed, .node tag kids =>
    (match tag with | .variadic => allowed | _ => true) &&
    (match tag with
     | .func n => (kids.zipIdx).all (fun (k, i) => variadicOk (i + 1 == n) k)
     | _ => kids.all (variadicOk false))


mutual
/-- the migrate-side model does not look inside a non-empty interface literal -/
def toTConv : GConv.Ty → TConv.Ty
  | .node tag kids =>
    match tag with
    | .basic n => .node (.basic n) []
    | .named p n => .node (.named p n) (toTConvs kids)
    | .ptr => .node .ptr (toTConvs kids)
    | .slice => .node .slice (toTConvs kids)
    | .arr n => .node (.arr n) (toTConvs kids)
    | .map => .node .map (toTConvs kids)
    | .chan d => .node (.chan d) (toTConvs kids)
    | .func n => .node (.func n) (toTConvs kids)
    | .variadic => .node .variadic (toTConvs kids)
    | .struct fs => .node (.struct fs) (toTConvs kids)
    | .iface [] => .node .ifaceEmpty []
    | .iface _ => .node .ifaceLit []
def toTConvs : List GConv.Ty → List TConv.Ty
  | [] => []
  | t :: ts => toTConv t :: toTConvs ts
end

/-- interface methods are function types, sorted by name without repetition, names below 10 -/
partial def ifacesOk : GConv.Ty → Bool
  | .node tag kids =>
    (match tag with
     | .iface ms => ms.all (· < 10) && (ms.zip (ms.drop 1)).all (fun (a, b) => a < b) &&
                    kids.all (fun k => match k with | .node (.func _) _ => true | _ => false)
     | _ => true) && kids.all ifacesOk

def handleTypeConvR (c names : String) (declared : List String) (ty : String) : String :=
    let names := words names
    let cur : Option (Option Nat) := if c.trimAscii.toString == "-" then some none else (c.trimAscii.toString.toNat?).map some
    match cur with
    | none => "BAD"
    | some cur =>
      if cur.any (· ≥ names.length) then "BAD" else
      let toks := words ty
      match parseTyS (toks.length + 2) toks with
      | some (t, []) =>
        if !variadicOk false t then "BAD" else
        -- `NewTypeConverter` reserves `kessoku` and the identifiers declared in the current package
        let init := Imp.TC.withReserved ("kessoku" :: (if cur.isSome then declared else []))
        match TConv.render cur (fun p => names.getD p "") init (toTConv t) with
        | none => "FUEL"
        | some (tc, e) =>
          "T " ++ TConv.exStr e ++ " | " ++ " ".intercalate (sortStrs (tc.imports.map (fun (p, n) => "p" ++ toString p ++ "=" ++ n)))
      | _ => "BAD"

def handleTypeConv (line : String) : String :=
  match line.splitOn "|" with
  | [c, names, declared, ty] => handleTypeConvR c names (words declared) ty
  | [c, names, ty] => handleTypeConvR c names [] ty
  | _ => "BAD"

def handleGenConv (line : String) : String :=
  match line.splitOn "|" with
  | [c, names, pre, ty] =>
    let names := words names
    match c.trimAscii.toString.toNat? with
    | none => "BAD"
    | some cur =>
      if cur ≥ names.length then "BAD" else
      let toks := words ty
      match parseTyS (toks.length + 2) toks with
      | some (t, []) =>
        if !variadicOk false t || !ifacesOk t then "BAD" else
        let p0 := (words pre).foldl (fun p b => match VP.getNameFix p b with
          | some (p', _) => p'
          | none => p) VP.seedPool
        match GConv.render cur (fun p => names.getD p "") { pool := p0, imports := [] } t with
        | none => "FUEL"
        | some (st, e) =>
          "G " ++ GConv.exStr e ++ " | " ++ " ".intercalate (sortStrs (st.imports.map (fun (p, n) => "p" ++ toString p ++ "=" ++ n)))
      | _ => "BAD"
  | _ => "BAD"

def handleBaseName (line : String) : String :=
  let toks := words line
  match parseTyS (toks.length + 2) toks with
  | some (t, []) => if !variadicOk false t || !ifacesOk t then "BAD" else "B " ++ BaseName.baseName t
  | _ => "BAD"

def contStr : Inst.Cont → String
  | .empty => "empty" | .part => "part" | .full => "full"

def sfileStr : Inst.SFile → String
  | .absent => "absent"
  | .old none => "old"
  | .old (some m) => s!"old:{m}"
  | .new c none => s!"new:{contStr c}:oldmode"
  | .new c (some m) => s!"new:{contStr c}:{m}"

def stepName (s : Inst.Step) : String :=
  (match s.op with
   | .mkdirAll => "mkdir" | .createTemp => "create" | .write .tmp => "write" | .write .final => "write-final"
   | .sync => "sync" | .closeF => "close" | .chmod .tmp _ => "chmod" | .chmod .final _ => "chmod-final"
   | .rename => "rename" | .remove .tmp => "remove" | .remove .final => "remove-final" | .unknown w => "unknown(" ++ w ++ ")")
  ++ (if s.checked then "" else "!unchecked")

def witnessStr : Option (Bool × Nat × Bool) → String
  | none => "none"
  | some (ex, k, p) => s!"{ex} {k} {p}"

/-- requests about the regenerated install step list -/
def handleInstall (what : String) : String :=
  match words what with
  | ["crash"] => "F " ++ witnessStr (Inst.crashWitness Gen.installSteps Gen.fileMode)
  | ["fault"] => "F " ++ witnessStr (Inst.faultWitness Gen.installSteps Gen.installCleanup)
  | ["steps"] => "F " ++ " ".intercalate (Gen.installSteps.map stepName)
  | ["shape"] => s!"F unknown={Inst.hasUnknown Gen.installSteps Gen.installCleanup} crashSafe={Inst.crashSafe Gen.installSteps Gen.fileMode} completes={Inst.completes Gen.installSteps Gen.installCleanup Gen.fileMode} faultSafe={Inst.faultSafe Gen.installSteps Gen.installCleanup} mode={Gen.fileMode}"
  | ["crashstate", ex, k, p] =>
    match k.toNat? with
    | some k =>
      let s := Inst.sRunCrash Gen.installSteps k (p == "true") (Inst.sInit (ex == "true"))
      s!"F dest={sfileStr s.dest} tmp={sfileStr s.tmp}"
    | none => "BAD"
  | ["failstate", ex, i, p] =>
    match i.toNat? with
    | some i =>
      let r := Inst.sRunFail Gen.installSteps Gen.installCleanup i (p == "true") (Inst.sInit (ex == "true"))
      s!"F reported={r.reported} dest={sfileStr r.st.dest} tmp={sfileStr r.st.tmp}"
    | none => "BAD"
  | ["okstate", ex] =>
    let r := Inst.sRunOK Gen.installSteps Gen.installCleanup (Inst.sInit (ex == "true"))
    s!"F reported={r.reported} dest={sfileStr r.st.dest} tmp={sfileStr r.st.tmp}"
  | _ => "BAD"

/-! wire / migrate model: `W ret <ty> | args <ty>.. | pkg <func>;.. | items <item>;.. [| parts <n>..]` with
    ty = v<n> | p<n> | i<n> | b<n>; func = <name> <result ty> : <param ty>..;
    item = f <func> | b <iface n> <impl ty> | s <n> : <field ty>.. | o <n> <ptrForm 0|1> : <field ty>..;
    parts = the element-list id of each item, in item order (absent = every item in list 0).
    `migrate=refused` when `kessoku migrate` refuses or the migrated declaration is ambiguous for kessoku. -/
def parseTy (t : String) : Option Wire.Ty :=
  match t.toList with
  | 'v' :: r => (String.ofList r).toNat?.map Wire.Ty.val
  | 'p' :: r => (String.ofList r).toNat?.map Wire.Ty.ptr
  | 'i' :: r => (String.ofList r).toNat?.map Wire.Ty.iface
  | 'b' :: r => (String.ofList r).toNat?.map Wire.Ty.basic
  | _ => none

def parseTys (s : String) : List Wire.Ty := (words s).filterMap parseTy

def parseFunc (s : String) : Option Wire.Func :=
  match s.splitOn ":" with
  | [hd, ps] =>
    match words hd with
    | [nm, rt] =>
      match nm.toNat?, parseTy rt with
      | some n, some r => some { name := n, params := parseTys ps, result := r }
      | _, _ => none
    | _ => none
  | _ => none

def parseItem (s : String) : Option Wire.Item :=
  let s := s.trimAscii.toString
  if s.startsWith "f " then (parseFunc (s.drop 2).toString).map Wire.Item.func
  else if s.startsWith "b " then
    match words (s.drop 2).toString with
    | [i, impl] => match i.toNat?, parseTy impl with
      | some n, some t => some (.bind n t)
      | _, _ => none
    | _ => none
  else if s.startsWith "s " then
    match (s.drop 2).toString.splitOn ":" with
    | [n, fs] => (n.trimAscii.toString.toNat?).map (fun k => Wire.Item.structP k (parseTys fs))
    | _ => none
  else if s.startsWith "o " then
    match (s.drop 2).toString.splitOn ":" with
    | [hd, fs] => match words hd with
      | [n, pf] => (n.toNat?).map (fun k => Wire.Item.fieldsOf k (pf == "1") (parseTys fs))
      | _ => none
    | _ => none
  else none

def sectOf (parts : List String) (key : String) : String :=
  match parts.find? (fun p => p.trimAscii.toString.startsWith key) with
  | some p => (p.trimAscii.toString.drop key.length).toString
  | none => ""

def handleWire (line : String) : String :=
  let parts := line.splitOn "|"
  match parseTy (sectOf parts "ret").trimAscii.toString with
  | none => "BAD"
  | some ret =>
    let args := parseTys (sectOf parts "args")
    let pkg := ((sectOf parts "pkg").splitOn ";").filterMap parseFunc
    let itemsS := ((sectOf parts "items").splitOn ";").filter (fun x => !x.trimAscii.toString.isEmpty)
    let items := itemsS.map parseItem
    if items.any Option.isNone then "BAD"
    else
      let c : Wire.Cfg := { items := items.filterMap id, args := args, ret := ret, pkgFuncs := pkg,
                            parts := parseNats (sectOf parts "parts") }
      let fuel := 4 * (c.items.length + 4)
      let w := Wire.wireEval c fuel c.ret
      let complete := Wire.V.noBot w && Wire.V.noMissing w
      match Wire.migrateChecked c with
      | none => s!"W migrate=refused faithful={Wire.faithful c} complete={complete}"
      | some ks => s!"W migrate=ok equal={Wire.V.beq (Wire.kEval ks fuel c.ret) w} faithful={Wire.faithful c} complete={complete}"

/-! outcome enumeration: `X <declaration as after "D "> | fails <decl indices> | cancel <0|1>` -/

/-- declaration index of the provider of node `n` (the `i` of `P<i>` in the `E` dump) -/
def declOfNode (p : PlanOut) (n : Nat) : Nat :=
  (p.g.provs.getD (p.g.nodes.getD n default).prov default).decl

/-- node ids carried by the fallible `exit` operations of a program -/
def fallibleNodes (P : T1F.Prog) : List Nat :=
  P.threads.flatMap (fun th => th.filterMap (fun op => match op with
    | .exit o _ true => some o
    | _ => none))

def outcomeStr (p : PlanOut) (o : T1F.Outcome) : String :=
  let leak := if o.blocked.any (fun t => t != 0) then "+leak" else ""
  match o.result with
  | none => "stuck"
  | some none => "value" ++ leak
  | some (some (.prov n)) => s!"err:P{declOfNode p n}" ++ leak
  | some (some .ctx) => "err:ctx" ++ leak

def dedupStrs : List String → List String
  | [] => []
  | x :: xs => if xs.contains x then dedupStrs xs else x :: dedupStrs xs

def outcomeFuel : Nat := 400000

def outcomesDump (withStates : Bool) (failDecls : List Nat) (cancel : Bool) (provs : List PSpec) (ret : Nat) : String :=
  match plan provs ret with
  | .error _ => "X ERR"
  | .ok p =>
    let P := emittedF p
    let failNodes := (fallibleNodes P).filter (fun n => failDecls.contains (declOfNode p n))
    let (outs, exhausted, n) := T1F.outcomesN P failNodes cancel outcomeFuel
    let strs := sortStrs (dedupStrs (outs.map (outcomeStr p)))
    "X" ++ String.join (strs.map (fun x => " " ++ x)) ++ (if exhausted then " FUEL" else "")
      ++ (if withStates then s!" states={n}" else "")

/-- `X …` the protocol line; `XS …` the same followed by ` states=<number of states expanded>` -/
def handleOutcomes (withStates : Bool) (line : String) : String :=
  match line.splitOn "|" with
  | decl :: rest =>
    let failDecls := parseNats (sectOf rest "fails")
    let cancel := (parseNats (sectOf rest "cancel")).getD 0 0 == 1
    handleDeclWith (outcomesDump withStates failDecls cancel) decl
  | [] => "BAD"

def handle (line : String) : String :=
  if line.startsWith "D " then handleDecl (line.drop 2).toString
  else if line.startsWith "E " then handleDeclWith planDumpE (line.drop 2).toString
  else if line.startsWith "V " then handleVarPool (line.drop 2).toString
  else if line.startsWith "V" && line.length == 1 then "BAD"
  else if line.startsWith "I " then handleImports (line.drop 2).toString
  else if line.startsWith "F " then handleInstall (line.drop 2).trimAscii.toString
  else if line.startsWith "T " then handleTypeConv (line.drop 2).toString
  else if line.startsWith "G " then handleGenConv (line.drop 2).toString
  else if line.startsWith "B " then handleBaseName (line.drop 2).toString
  else if line.startsWith "W " then handleWire (line.drop 2).toString
  else if line.startsWith "X " then handleOutcomes false (line.drop 2).toString
  else if line.startsWith "XS " then handleOutcomes true (line.drop 3).toString
  else "BAD"

partial def loop (h : IO.FS.Stream) (out : IO.FS.Stream) : IO Unit := do
  let line ← h.getLine
  if line.isEmpty then return ()
  out.putStrLn (handle (line.trimAscii.toString))
  loop h out

def main : IO Unit := do
  let out ← IO.getStdout
  loop (← IO.getStdin) out
  out.flush
