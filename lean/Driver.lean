import KV.Plan
import KV.Plan2
import KV.Stmts
open KV

def parseNats (s : String) : List Nat :=
  (s.splitOn " ").filterMap (fun t => t.trimAscii.toString.toNat?)

def parseProv (idx : Nat) (s : String) : PSpec :=
  match s.splitOn ":" with
  | [hd, req, prv, sty, flds] =>
    let h := parseNats hd
    let groups := (prv.splitOn "/").map parseNats |>.filter (fun g => !g.isEmpty)
    let fields := (flds.splitOn " ").filterMap (fun t =>
      match t.trimAscii.toString.splitOn "=" with
      | [n, ty] => ty.toNat?.map (fun k => (n, k))
      | _ => none)
    { kind := h.getD 0 0, isAsync := h.getD 1 0 == 1, isErr := h.getD 2 0 == 1,
      requires := parseNats req, provides := groups,
      structTy := (parseNats sty).getD 0 0, fields := fields, decl := idx }
  | _ => { decl := idx }

def errKind : PlanErr → String
  | .dup _ => "dup" | .orphan _ => "orphan" | .cycle => "cycle" | .noInitial => "noInitial"
  | .noReturn => "noReturn" | .invalid => "invalid"

def handle (ext v2 sem : Bool) (line : String) : String :=
  match line.splitOn ";" with
  | hd :: ps =>
    let ret := (parseNats hd).getD 0 0
    let provs := (List.range ps.length).zip ps |>.map (fun (i, s) => parseProv i s)
    if sem then planDumpSem provs ret else if v2 then planDump3 provs ret else planDump provs ret ext
  | _ => "BAD"

partial def loop (ext v2 sem : Bool) (h : IO.FS.Stream) : IO Unit := do
  let line ← h.getLine
  if line.isEmpty then return ()
  IO.println (handle ext v2 sem (line.trimAscii.toString))
  loop ext v2 sem h

def main (args : List String) : IO Unit := do loop (args.contains "ext") (args.contains "v2") (args.contains "sem") (← IO.getStdin)
